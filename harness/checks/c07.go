package checks

import (
	"encoding/json"
	"fmt"
	"hash/fnv"
	"math/rand"
	"reflect"
	"runtime"
	"sort"
	"strings"
	"sync"
	"sync/atomic"
	"time"

	"github.com/enbility/spine-go/api"
	"github.com/enbility/spine-go/model"
	"github.com/enbility/spine-go/spine"
	"github.com/enbility/spine-go/util"

	"verifharness/rig"
)

// C07 — the local device tree is announced faithfully and addressed uniquely.
//
// sequential: one case = one local device whose tree is built and changed through the API (entities
// with 1-5 features of ~10 feature types x roles x 0-4 functions with random read/write flags and
// descriptions; AddEntity, RemoveEntity, re-adding a removed entity, GetOrAddFeature, AddFunctionType,
// SetDescriptionString, NextFeatureId) interleaved with detailed discovery reads from a peer subscribed
// to NodeManagement, a peer subscribed only to another local feature, and a peer that toggles its
// NodeManagement subscription; in every second case a "mute" peer (x_mute.go) is the first NodeManagement
// subscriber. Oracles (a)-(d) of DESIGN.md, C07.
//
// conc / conc-race: 8 goroutines call GetOrAddFeature for 2-3 (type, role) pairs and NextFeatureId on
// one entity while a rendezvous at GetOrAddFeature.afterMiss holds the first k of them between the
// lookup miss and the creation.
//
// read-feat / read-feat-race: discovery reads concurrent with AddFunctionType / SetDescriptionString / GetOrAddFeature
// (c07ReadFeat). entity-conc / entity-conc-race: AddEntity / RemoveEntity of different entities at the same time
// (c07EntConc).
//
// notify-window / notify-window-race: the connection writer of a subscribed peer is slow (TCP back-pressure): it
// parks the AddEntity / RemoveEntity call inside the write of the "added" / "removed" notification until the
// peer's own connection-reader goroutine has sent a detailed discovery read and a read addressed to a feature
// of the announced entity and has got the answers. Causal oracle: what the peer reads AFTER it has seen the
// notification must agree with the notification.

var c07Types = []model.FeatureTypeType{model.FeatureTypeTypeLoadControl, model.FeatureTypeTypeMeasurement, model.FeatureTypeTypeSetpoint,
	model.FeatureTypeTypeElectricalConnection, model.FeatureTypeTypeDeviceConfiguration, model.FeatureTypeTypeTimeSeries, model.FeatureTypeTypeDeviceDiagnosis,
	model.FeatureTypeTypeIncentiveTable, model.FeatureTypeTypeIdentification, model.FeatureTypeTypeHvac, model.FeatureTypeTypeSmartEnergyManagementPs}

var c07EntDom = [][]uint{{1}, {2}, {3}, {1, 1}, {2, 1}, {1, 2}}
var c07EntTypes = []model.EntityTypeType{model.EntityTypeTypeCEM, model.EntityTypeTypeEVSE, model.EntityTypeTypeEV, model.EntityTypeTypeHeatPumpAppliance, model.EntityTypeTypeInverter}

func init() {
	rig.Register(&rig.Check{
		ID:    "C07",
		Floor: 200,
		Rule: "sequential: case = seeded history of 12-20 operations (new entity with 1-5 features x 0-4 functions, AddEntity, RemoveEntity, re-add, GetOrAddFeature new/existing, AddFunctionType, SetDescriptionString, NextFeatureId, " +
			"toggle of a NodeManagement subscription, discovery read from one of three peers) on one local device; in every second case a fourth peer whose connection has no write handler (every send to it fails) " +
			"subscribed to NodeManagement before the others; non-trivial if at least two discovery replies, one AddEntity and one RemoveEntity notification were judged; distinct = distinct operation-kind sequences. " +
			"Addressing across removals (second per-case PRNG): every entity object carries as first feature a DeviceClassification server feature whose readable manufacturer data names the object; half of the re-additions add - and one removal in four is followed at once by the addition of - a NEW entity object with the address, " +
			"(type, role) pairs and feature numbers of the removed one but other descriptions and data; after every AddEntity / RemoveEntity / re-addition (and, API only, after every discovery read and before three removals in four) every feature address the case ever announced " +
			"is resolved through DeviceLocal.FeatureByAddress with and without the device part (must be the feature object of the entity that is part of the device now, nil if there is none) and the probe feature of every entity address is read by a peer with an addressDestination " +
			"with and without device part (one reply carrying the data of the current entity object; exactly one error result and no reply if no entity with that address is part of the device). " +
			"conc: case = (k of the rendezvous, number of (type, role) pairs, how many of them exist beforehand), 8 goroutines; non-trivial if the rendezvous at GetOrAddFeature.afterMiss completed with all k goroutines inside the window and two of them asked for the same (type, role); " +
			"distinct = distinct (configuration, arrival order of the goroutines at the hook). " +
			"read-conc: case = local device with 4-6 entities; one goroutine sends 40 discovery reads as a peer while another removes and re-adds entities that are not the last of the list (seeded order); every reply must equal one of the " +
			"entity sets that were current between the call and the return of that read (logical stamps); non-trivial if at least one read overlapped a RemoveEntity/AddEntity call; distinct = distinct (entity count, operation order, number of overlapped reads). " +
			"notify-window: case = local device with 0-2 entities, 1-3 peers subscribed to NodeManagement (seeded subset of them, at least one, with a connection writer that blocks inside the write of an entity notification until the peer's " +
			"reader goroutine has issued a discovery read, FeatureByAddress for every announced address and a read to a seeded feature of the announced entity; bounded wait, an expired wait is counted and makes the case inconclusive) and a seeded history of 5-8 AddEntity / RemoveEntity / re-AddEntity calls; " +
			"a read issued after the 'added [x]' notification was handed to the writer must list x with its features and a read to an announced feature must be answered as the same read is answered after the call returned; a read issued after 'removed [x]' must not list x; " +
			"non-trivial if at least one 'added' and one 'removed' window were forced and judged; distinct = distinct (subscriber count, which of them are reactive, operation kinds with feature counts). " +
			"Construction flavours of the sequential part (second PRNG): features added through NextFeatureId+NewFeatureLocal+AddFeature in descending / seeded order of their numbers (groups of 2-3, and every new entity object built for the address of a removed one), a feature under a number the application chose itself (40-49) added before generated ones, " +
			"a feature with the role special (with functions), entities without any feature, AddFeature of a SECOND object for an existing (type, role) (the entity keeps one feature of that pair, asking yields the first); entity [0] is pinned as constants (NodeManagement special [0]/0 with its nine functions, DeviceClassification server [0]/1 with readable manufacturer data); " +
			"peer2 subscribes to NodeManagement with a NodeManagement client feature [1]/2: every entity notification is judged for source = local NodeManagement, destination = the subscribed client feature, cmd.function. " +
			"conc additionally: explicit-path calls (NextFeatureId+NewFeatureLocal+AddFeature+FeatureOfTypeAndRole) for contested pairs racing GetOrAddFeature, one of them by the k-th goroutine inside the window, a feature of its own (type, role) per goroutine (goroutines 0 and 1: the holder of the higher number adds first), and 4-7 storms (all 8 goroutines ask for one new pair at once behind a spinning barrier). " +
			"read-feat: case = 2-3 entities with 2-3 server features; one goroutine sends 30 discovery reads while another makes 40-100 seeded calls AddFunctionType / SetDescriptionString / GetOrAddFeature (paced over the reads); every announced feature line must equal one of the renderings the feature had between call and return of that read (logical stamps), the read after quiescence the final tree; " +
			"non-trivial if at least one read overlapped a call; distinct = distinct (entities, operation kinds, overlapped reads). " +
			"entity-conc: case = 4-6 entity objects (two client features that subscribe/bind to server features of the peers before a removal, 1-3 server features, use case), 2-3 peers (seeded subset subscribed to NodeManagement), 4-7 rounds in which 2-4 goroutines call AddEntity / RemoveEntity for DIFFERENT entities at once (spinning barrier; one goroutine in three toggles twice), " +
			"every second round staged: the first unsubscribe/unbind call of one RemoveEntity stays parked in peer0's connection writer until the other calls of the round have returned; after every round Entities(), Entity(), the discovery reply, FeatureByAddress (both address forms) equal the last acknowledged call per entity address and every subscribed peer got one notification per call (added: with the features; addressing judged); " +
			"non-trivial if at least 3 rounds were judged and one staged window was forced; distinct = distinct (peers, entities, round shapes).",
		Assumptions: []string{
			"message handling and AddEntity/RemoveEntity notifications are synchronous, so the taps are complete when the call returns",
			"not demanded: the entity description in the announcement, the partial sub-flags of operations, the content of the feature list of a 'removed' notification, datagrams other than detailed discovery data (use case notifications accompany RemoveEntity)",
			"AddFunctionType is only called once per function and only on server features (it is documented to ignore client features); the heartbeat function is not added (C16)",
			"'every announced feature address resolves back to that feature' is read for both legal forms of a feature address (the device part of a destination address is optional and defaults to the recipient) and at every moment: an address whose entity has been removed is not announced any more, " +
				"so it resolves to nothing (FeatureByAddress nil; a read addressed to it is rejected with one error result), and after an entity with the same address has been added again it resolves to the feature of THAT entity object",
			"the reference for the stack-built entity [0] is a constant (c07E0: what a device with the feature set 'smart' consists of); for all other entities it is what the harness passed to the API",
			"AddFeature with a second object of an existing (type, role): 'one and the same feature' is read as: the entity keeps exactly one feature of that pair and every way of asking for it yields the first object; a number chosen by the application itself (NewFeatureLocal(id)) is legitimate as long as the generator does not reach it",
			"read-feat: 'at every moment' is read per announced feature: its line (description + operations) is one the feature had between the call and the return of the read. A line whose description and operations were each current during the read but never together is reported under its own signature read-feat/torn-feature-line/...",
			"entity-conc: calls on different entity addresses commute; nothing is judged while calls are in flight, the staged writer only places the other calls inside the clean-up of one RemoveEntity (an expired stage is counted, never judged)",
			"'each peer subscribed to node management' includes the peers whose entry follows that of a peer with a broken connection: the mute peer (SetupRemoteDevice with a nil writer) is not observed itself, only its effect on the others",
			"notify-window: 'at every moment' is read causally: a peer that has been handed the notification about entity x on its connection and then sends a read gets an answer that is consistent with that notification (x listed with its features after 'added', not listed after 'removed'); " +
				"whether a message to a feature of a REMOVED entity is still served is not judged; the read to an announced feature is judged differentially (same class and error number as the same read after the call returned), not against C01's rules",
		},
		Parts: []rig.Part{
			{Name: "sequential", Cases: func(t rig.Tier) int { return map[rig.Tier]int{rig.Quick: 300, rig.Thorough: 5000}[t] }, Run: c07Seq, Procs: 2},
			{Name: "conc", Cases: func(t rig.Tier) int { return map[rig.Tier]int{rig.Quick: 200, rig.Thorough: 4000}[t] }, Run: c07Conc, Procs: 8, Workers: 8, Quiet: 90 * time.Second},
			{Name: "conc-race", Race: true, Cases: func(t rig.Tier) int { return map[rig.Tier]int{rig.Quick: 60, rig.Thorough: 800}[t] }, Run: c07Conc, Procs: 8, Workers: 8, Quiet: 120 * time.Second},
			{Name: "read-conc", Cases: func(t rig.Tier) int { return map[rig.Tier]int{rig.Quick: 160, rig.Thorough: 3000}[t] }, Run: c07ReadConc, Procs: 4, Workers: 8, Quiet: 90 * time.Second},
			{Name: "read-conc-race", Race: true, Cases: func(t rig.Tier) int { return map[rig.Tier]int{rig.Quick: 40, rig.Thorough: 500}[t] }, Run: c07ReadConc, Procs: 4, Workers: 16, Chunk: 3, Quiet: 120 * time.Second},
			{Name: "notify-window", Cases: func(t rig.Tier) int { return map[rig.Tier]int{rig.Quick: 160, rig.Thorough: 3000}[t] }, Run: c07Window, Procs: 4, Workers: 8, Quiet: 90 * time.Second},
			{Name: "read-feat", Cases: func(t rig.Tier) int { return map[rig.Tier]int{rig.Quick: 160, rig.Thorough: 2000}[t] }, Run: c07ReadFeat, Procs: 4, Workers: 8, Quiet: 90 * time.Second},
			{Name: "read-feat-race", Race: true, Cases: func(t rig.Tier) int { return map[rig.Tier]int{rig.Quick: 24, rig.Thorough: 400}[t] }, Run: c07ReadFeat, Procs: 4, Workers: 12, Chunk: 2, Quiet: 120 * time.Second},
			{Name: "entity-conc", Cases: func(t rig.Tier) int { return map[rig.Tier]int{rig.Quick: 48, rig.Thorough: 2000}[t] }, Run: c07EntConc, Procs: 4, Workers: 8, Quiet: 90 * time.Second},
			{Name: "entity-conc-race", Race: true, Cases: func(t rig.Tier) int { return map[rig.Tier]int{rig.Quick: 16, rig.Thorough: 400}[t] }, Run: c07EntConc, Procs: 4, Workers: 12, Chunk: 2, Quiet: 120 * time.Second},
			{Name: "notify-window-race", Race: true, Cases: func(t rig.Tier) int { return map[rig.Tier]int{rig.Quick: 32, rig.Thorough: 480}[t] }, Run: c07Window, Procs: 2, Workers: 16, Chunk: 2, Quiet: 120 * time.Second},
		},
	})
}

// ---- reference

type c07RF struct {
	obj  api.FeatureLocalInterface
	id   uint
	typ  model.FeatureTypeType
	role model.RoleType
	desc *string
	ops  map[model.FunctionType][2]bool
}

type c07RE struct {
	obj     *spine.EntityLocal
	addr    []uint
	typ     model.EntityTypeType
	feats   []*c07RF
	present bool
	handed  map[uint]bool // every feature number this entity ever handed out
	tag     string        // unique per entity OBJECT ("incarnation"): the device name its probe feature serves
	probe   *c07RF        // DeviceClassification server feature with readable manufacturer data (first feature of every entity object)
}

const c07ProbeFn = model.FunctionTypeDeviceClassificationManufacturerData

func c07Line(addr string, typ model.FeatureTypeType, role model.RoleType, desc *string, ops map[model.FunctionType][2]bool) string {
	var os []string
	for fn, o := range ops {
		os = append(os, c06OpStr(fn, o[0], o[1]))
	}
	sort.Strings(os)
	return fmt.Sprintf("F %s type=%s role=%s desc=%s ops={%s}", addr, typ, role, c06P(desc), strings.Join(os, ","))
}

func (f *c07RF) line(e *c07RE) string {
	return c07Line(rig.FA(rig.LocalAddr, e.addr, f.id).String(), f.typ, f.role, f.desc, f.ops)
}

// c07InfoLine renders one announced feature description; ok=false if it is structurally incomplete.
func c07InfoLine(d *model.NetworkManagementFeatureDescriptionDataType) (string, bool) {
	if d == nil || d.FeatureAddress == nil || d.FeatureAddress.Feature == nil || d.FeatureType == nil || d.Role == nil {
		return rig.JS(d), false
	}
	ops := map[model.FunctionType][2]bool{}
	for _, sf := range d.SupportedFunction {
		if sf.Function == nil {
			return rig.JS(d), false
		}
		if _, dup := ops[*sf.Function]; dup {
			return "function listed twice: " + rig.JS(d), false
		}
		ops[*sf.Function] = [2]bool{sf.PossibleOperations != nil && sf.PossibleOperations.Read != nil, sf.PossibleOperations != nil && sf.PossibleOperations.Write != nil}
	}
	var desc *string
	if d.Description != nil {
		desc = util.Ptr(string(*d.Description))
	}
	return c07Line(d.FeatureAddress.String(), *d.FeatureType, *d.Role, desc, ops), true
}

// c07ApiLine renders a feature as the API reports it (used for the stack-built entity [0]).
func c07ApiLine(f api.FeatureLocalInterface) string {
	ops := map[model.FunctionType][2]bool{}
	for fn, o := range f.Operations() {
		ops[fn] = [2]bool{o.Read(), o.Write()}
	}
	var desc *string
	if f.Description() != nil {
		desc = util.Ptr(string(*f.Description()))
	}
	return c07Line(f.Address().String(), f.Type(), f.Role(), desc, ops)
}

// c07E0 is what entity [0] of the local device (built by the stack itself, device created with the feature set "smart")
// consists of, as constants: NodeManagement (special) at [0]/0 with the node management functions, DeviceClassification
// (server) at [0]/1 with readable manufacturer data. Nothing in C07 changes entity [0].
var c07E0 = []struct {
	id   uint
	typ  model.FeatureTypeType
	role model.RoleType
	ops  map[model.FunctionType][2]bool
}{
	{0, model.FeatureTypeTypeNodeManagement, model.RoleTypeSpecial, map[model.FunctionType][2]bool{
		model.FunctionTypeNodeManagementDetailedDiscoveryData:   {true, false},
		model.FunctionTypeNodeManagementUseCaseData:             {true, false},
		model.FunctionTypeNodeManagementSubscriptionData:        {true, false},
		model.FunctionTypeNodeManagementSubscriptionRequestCall: {false, false},
		model.FunctionTypeNodeManagementSubscriptionDeleteCall:  {false, false},
		model.FunctionTypeNodeManagementBindingData:             {true, false},
		model.FunctionTypeNodeManagementBindingRequestCall:      {false, false},
		model.FunctionTypeNodeManagementBindingDeleteCall:       {false, false},
		model.FunctionTypeNodeManagementDestinationListData:     {true, false},
	}},
	{1, model.FeatureTypeTypeDeviceClassification, model.RoleTypeServer, map[model.FunctionType][2]bool{
		model.FunctionTypeDeviceClassificationManufacturerData: {true, false},
	}},
}

func c07E0Lines() []string {
	var ls []string
	for _, f := range c07E0 {
		ls = append(ls, c07Line(rig.FA(rig.LocalAddr, []uint{0}, f.id).String(), f.typ, f.role, nil, f.ops))
	}
	return ls
}

func c07DiffSig(want, got []string) string {
	w, g := map[string]int{}, map[string]int{}
	for _, x := range want {
		w[x]++
	}
	for _, x := range got {
		g[x]++
	}
	head := func(s string) string {
		if i := strings.Index(s, " type="); i > 0 {
			return s[:i]
		}
		return s
	}
	miss, surp := map[string]string{}, map[string]string{}
	for x, n := range w {
		if g[x] < n {
			miss[head(x)] = x
		}
	}
	for x, n := range g {
		if w[x] < n {
			surp[head(x)] = x
		}
	}
	cls := map[string]bool{}
	for h, x := range miss {
		if y, ok := surp[h]; ok {
			switch {
			case c06Field(x, " ops=") != c06Field(y, " ops="):
				cls["operations"] = true
			case c06Field(x, " desc=") != c06Field(y, " desc="):
				cls["description"] = true
			default:
				cls["type-or-role"] = true
			}
		} else {
			cls["feature-missing"] = true
		}
	}
	for h := range surp {
		if _, ok := miss[h]; !ok {
			cls["feature-surplus"] = true
		}
	}
	for _, k := range []string{"feature-missing", "feature-surplus", "type-or-role", "operations", "description"} {
		if cls[k] {
			return k
		}
	}
	return "other"
}

// ---- sequential part

func c07Seq(c *rig.Ctx) {
	r := c.Rand
	w := rig.NewWorld(c.Tag())
	defer w.Close()
	local := w.Local

	var trace, kinds []string
	fail := func(sig, format string, a ...any) {
		c.Violate(sig, "%s\n history so far (last is the failing step):\n   %s", fmt.Sprintf(format, a...), strings.Join(trace, "\n   "))
		c.Witness(map[string]any{"history": trace})
	}

	// peers: 0 subscribed to NodeManagement, 1 subscribed to another local feature only, 2 toggles
	clientDC := rig.FS{Ent: []uint{1}, Id: 1, Typ: model.FeatureTypeTypeDeviceClassification, Role: model.RoleTypeClient}
	// peer2 subscribes to the local NodeManagement feature with a NodeManagement-typed CLIENT feature of its entity [1]
	// (not with its own [0]/0): the notification goes from the local NodeManagement feature to the subscribed feature
	clientNM := rig.FS{Ent: []uint{1}, Id: 2, Typ: model.FeatureTypeTypeNodeManagement, Role: model.RoleTypeClient}
	var peers []*rig.Peer
	var subAddr []*model.FeatureAddressType // the client feature a peer subscribes to NodeManagement with
	for i := 0; i < 3; i++ {
		p := w.AddPeer(i)
		p.Ctr = uint64(i+1) * 100000
		p.Announce([]rig.FS{rig.NMFS, clientDC, clientNM})
		peers = append(peers, p)
		subAddr = append(subAddr, p.NM())
	}
	subAddr[2] = rig.FA(peers[2].Addr, clientNM.Ent, clientNM.Id)
	// in every second case a "mute" peer (connection without write handler: every send to it fails) subscribed to
	// NodeManagement BEFORE everybody else; a send fault on its connection must not cost the others their notification
	mute := c.Index%2 == 1
	if mute {
		mp := addMutePeer(w, 0)
		defer w.Local.RemoveRemoteDeviceConnection(mp.Ski)
		if why := muteSubscribeFirst(w, mp, []rig.FS{rig.NMFS, clientDC}, []muteSub{{mp.NM(), rig.LNM, model.FeatureTypeTypeNodeManagement}}); why != "" {
			c.Inconclusive("setup of the mute peer: %s", why)
			return
		}
		w.Core.Take()
		trace = append(trace, "peer 'mute0' (its connection has no write handler) subscribed to NodeManagement before peer0")
		c.Count("cases_with_a_mute_first_subscriber", 1)
	}
	subscribedNM := []bool{true, false, false}
	mc := peers[0].Subscribe(peers[0].NM(), rig.LNM, model.FeatureTypeTypeNodeManagement)
	if res := rig.Classify(peers[0].Tap.Take(), mc); res.Success != 1 {
		c.Inconclusive("setup: NodeManagement subscription of peer0 was not acknowledged (%s)", res)
		return
	}
	mc = peers[1].Subscribe(rig.FA(peers[1].Addr, []uint{1}, 1), rig.FA(rig.LocalAddr, []uint{0}, 1), model.FeatureTypeTypeDeviceClassification)
	if res := rig.Classify(peers[1].Tap.Take(), mc); res.Success != 1 {
		c.Inconclusive("setup: DeviceClassification subscription of peer1 was not acknowledged (%s)", res)
		return
	}
	for _, p := range peers {
		p.Tap.Take()
	}

	var ents []*c07RE // every entity object ever created
	present := func() []*c07RE {
		var ps []*c07RE
		for _, e := range ents {
			if e.present {
				ps = append(ps, e)
			}
		}
		return ps
	}
	absent := func() []*c07RE {
		var ps []*c07RE
		for _, e := range ents {
			if !e.present {
				ps = append(ps, e)
			}
		}
		return ps
	}
	addrInUse := func(a []uint) bool {
		for _, e := range ents {
			if e.present && c06Key(e.addr) == c06Key(a) {
				return true
			}
		}
		return false
	}
	usedPair := func(e *c07RE, t model.FeatureTypeType, ro model.RoleType) *c07RF {
		for _, f := range e.feats {
			if f.typ == t && f.role == ro {
				return f
			}
		}
		return nil
	}

	// (d) bookkeeping of handed out feature numbers
	hand := func(e *c07RE, id uint, how string) {
		if e.handed[id] {
			fail("numbering/"+how+"/feature-number-reused", "entity %s: feature number %d was handed out before (%s)", c06Key(e.addr), id, how)
		}
		e.handed[id] = true
	}
	checkFeatures := func(e *c07RE) {
		ids, pairs := map[uint]bool{}, map[string]bool{}
		fs := e.obj.Features()
		for _, f := range fs {
			id := uint(*f.Address().Feature)
			if ids[id] {
				fail("numbering/two-features-share-a-number", "entity %s: two features share number %d", c06Key(e.addr), id)
			}
			ids[id] = true
			k := string(f.Type()) + "/" + string(f.Role())
			if pairs[k] {
				fail("features/two-of-one-type-and-role", "entity %s: Features() holds two features %s", c06Key(e.addr), k)
			}
			pairs[k] = true
		}
		if len(fs) != len(e.feats) {
			fail("features/count", "entity %s: Features() holds %d features, %d were created through the API", c06Key(e.addr), len(fs), len(e.feats))
		}
	}

	var addFunctionsR func(rr *rand.Rand, e *c07RE, f *c07RF, max int) string
	addFunctions := func(e *c07RE, f *c07RF, max int) string { return addFunctionsR(r, e, f, max) }
	addFunctionsR = func(r *rand.Rand, e *c07RE, f *c07RF, max int) string {
		if f.role != model.RoleTypeServer && f.role != model.RoleTypeSpecial {
			return ""
		}
		fns := c06FnsOf(f.typ)
		var added []string
		for _, i := range r.Perm(len(fns)) {
			if len(added) >= max {
				break
			}
			fn := fns[i].Fn
			if _, ok := f.ops[fn]; ok || fn == model.FunctionTypeDeviceDiagnosisHeartbeatData {
				continue
			}
			rd, wr := r.Intn(3) > 0, r.Intn(2) == 0
			f.obj.AddFunctionType(fn, rd, wr)
			f.ops[fn] = [2]bool{rd, wr}
			added = append(added, c06OpStr(fn, rd, wr))
		}
		return strings.Join(added, ",")
	}

	newFeature := func(e *c07RE, t model.FeatureTypeType, ro model.RoleType) *c07RF {
		f := &c07RF{typ: t, role: ro, ops: map[model.FunctionType][2]bool{}}
		how := ""
		if r.Intn(4) == 0 {
			// the explicit path: NextFeatureId + NewFeatureLocal + AddFeature (no default description)
			id := e.obj.NextFeatureId()
			fl := spine.NewFeatureLocal(id, e.obj, t, ro)
			e.obj.AddFeature(fl)
			f.obj, how = fl, "AddFeature"
			if got := uint(*fl.Address().Feature); got != id {
				fail("numbering/address!=number", "NewFeatureLocal(%d) has feature address %d", id, got)
			}
		} else {
			f.obj, how = e.obj.GetOrAddFeature(t, ro), "GetOrAddFeature"
		}
		f.id = uint(*f.obj.Address().Feature)
		hand(e, f.id, how)
		if f.obj.Type() != t || f.obj.Role() != ro {
			fail("features/created-with-other-type-or-role", "%s(%s,%s) returned a feature %s/%s", how, t, ro, f.obj.Type(), f.obj.Role())
		}
		switch r.Intn(3) {
		case 0: // keep whatever description the API gave it
			if d := f.obj.Description(); d != nil {
				f.desc = util.Ptr(string(*d))
			}
		default:
			s := fmt.Sprintf("desc-%d", r.Intn(10000))
			f.obj.SetDescriptionString(s)
			f.desc = &s
		}
		e.feats = append(e.feats, f)
		fnInfo := addFunctions(e, f, r.Intn(5))
		trace = append(trace, fmt.Sprintf("  %s %s: %s(%s,%s) -> number %d desc=%s functions{%s}", "entity", c06Key(e.addr), how, t, ro, f.id, c06P(f.desc), fnInfo))
		return f
	}
	freshPair := func(e *c07RE) (model.FeatureTypeType, model.RoleType, bool) {
		for try := 0; try < 20; try++ {
			t := c07Types[r.Intn(len(c07Types))]
			ro := []model.RoleType{model.RoleTypeClient, model.RoleTypeServer}[r.Intn(2)]
			if usedPair(e, t, ro) == nil {
				return t, ro, true
			}
		}
		return "", "", false
	}

	aux := c10Aux(c, 7)
	outOfOrder, dupAdds, highIds, emptyEnts, specials := 0, 0, 0, 0, 0
	// ---- features added out of the order of their numbers, and a second object for an existing (type, role) (drawn from the second PRNG)
	//
	// The order in which an application adds the features it has built is its own business: explicitFeature adds one
	// feature through NewFeatureLocal(id)+AddFeature under a number the caller got earlier from NextFeatureId (or chose
	// itself), outOfOrderGroup takes n numbers first and adds the features in descending / seeded order of these numbers.
	// The oracles are the ordinary ones: every feature is announced with its number, and every announced address
	// resolves back to that feature.
	freshPairR := func(rr *rand.Rand, e *c07RE) (model.FeatureTypeType, model.RoleType, bool) {
		for try := 0; try < 20; try++ {
			t := c07Types[rr.Intn(len(c07Types))]
			ro := []model.RoleType{model.RoleTypeClient, model.RoleTypeServer}[rr.Intn(2)]
			if usedPair(e, t, ro) == nil {
				return t, ro, true
			}
		}
		return "", "", false
	}
	explicitFeature := func(e *c07RE, id uint, t model.FeatureTypeType, ro model.RoleType, how string) *c07RF {
		f := &c07RF{typ: t, role: ro, id: id, ops: map[model.FunctionType][2]bool{}}
		fl := spine.NewFeatureLocal(id, e.obj, t, ro)
		e.obj.AddFeature(fl)
		f.obj = fl
		if got := uint(*fl.Address().Feature); got != id {
			fail("numbering/address!=number", "NewFeatureLocal(%d) has feature address %d", id, got)
		}
		if aux.Intn(3) > 0 {
			s := fmt.Sprintf("desc-x%d", aux.Intn(10000))
			fl.SetDescriptionString(s)
			f.desc = &s
		}
		e.feats = append(e.feats, f)
		fnInfo := addFunctionsR(aux, e, f, aux.Intn(4))
		trace = append(trace, fmt.Sprintf("  entity %s: NewFeatureLocal(%d,%s,%s)+AddFeature (%s) desc=%s functions{%s}", c06Key(e.addr), id, t, ro, how, c06P(f.desc), fnInfo))
		return f
	}
	outOfOrderGroup := func(e *c07RE, n int) int {
		type pr struct {
			t  model.FeatureTypeType
			ro model.RoleType
		}
		var prs []pr
		for len(prs) < n {
			t, ro, ok := freshPairR(aux, e)
			if !ok {
				break
			}
			dup := false
			for _, x := range prs {
				dup = dup || (x.t == t && x.ro == ro)
			}
			if !dup {
				prs = append(prs, pr{t, ro})
			}
		}
		if len(prs) < 2 {
			return 0
		}
		ids := make([]uint, len(prs))
		for i := range prs {
			ids[i] = e.obj.NextFeatureId()
			hand(e, ids[i], "NextFeatureId")
		}
		order := make([]int, len(prs))
		for i := range order {
			order[i] = len(prs) - 1 - i
		}
		how := "numbers taken first, added in descending order"
		if len(prs) > 2 && aux.Intn(2) == 0 {
			how = "numbers taken first, added in seeded order"
			order = aux.Perm(len(prs))
			if sort.IntsAreSorted(order) {
				order[0], order[1] = order[1], order[0]
			}
		}
		for _, i := range order {
			explicitFeature(e, ids[i], prs[i].t, prs[i].ro, how)
		}
		outOfOrder++
		return len(prs)
	}
	// addDuplicate hands AddFeature a SECOND feature object for a (type, role) pair the entity already has (under a
	// fresh number): the entity keeps having one feature of that type and role, and asking for it yields the first one
	addDuplicate := func(e *c07RE) {
		if len(e.feats) == 0 {
			return
		}
		f := e.feats[aux.Intn(len(e.feats))]
		id := e.obj.NextFeatureId()
		hand(e, id, "NextFeatureId")
		fl := spine.NewFeatureLocal(id, e.obj, f.typ, f.role)
		fl.SetDescriptionString("second object of an existing type and role")
		if f.role == model.RoleTypeServer {
			for _, fi := range c06FnsOf(f.typ) {
				if fi.Fn != model.FunctionTypeDeviceDiagnosisHeartbeatData {
					fl.AddFunctionType(fi.Fn, true, true)
					break
				}
			}
		}
		e.obj.AddFeature(fl)
		dupAdds++
		trace = append(trace, fmt.Sprintf("entity %s: NextFeatureId() = %d, NewFeatureLocal(%d,%s,%s)+AddFeature: a second object for the type and role of feature %d", c06Key(e.addr), id, id, f.typ, f.role, f.id))
		c.Events(3)
		if got := e.obj.FeatureOfTypeAndRole(f.typ, f.role); got != f.obj {
			fail("features/asking-again-yields-other-feature", "after AddFeature of a second object for (%s,%s) FeatureOfTypeAndRole does not return the feature created first (number %d)", f.typ, f.role, f.id)
		}
		if got := e.obj.GetOrAddFeature(f.typ, f.role); got != f.obj {
			fail("features/asking-again-yields-other-feature", "after AddFeature of a second object for (%s,%s) GetOrAddFeature does not return the feature created first (number %d)", f.typ, f.role, f.id)
		}
		if got := e.obj.FeatureOfAddress(util.Ptr(model.AddressFeatureType(f.id))); got != f.obj {
			fail("resolve/announced-address-resolves-to-other-feature", "after AddFeature of a second object for (%s,%s) the number %d does not resolve to the feature created first", f.typ, f.role, f.id)
		}
		checkFeatures(e)
	}

	// ---- addressing across removals and re-additions (second PRNG: the histories drawn from c.Rand stay what they were)
	//
	// Every entity OBJECT ("incarnation") carries as its first feature a DeviceClassification server feature whose
	// readable manufacturer data names the incarnation. After every AddEntity / RemoveEntity / re-addition (of the same
	// object, or of a NEW object with the same entity address and the same feature numbers) every feature address the
	// case has ever announced is resolved through DeviceLocal.FeatureByAddress with AND without the (optional) device
	// part: it must be the feature object of the entity that is CURRENTLY part of the device, nil if there is none.
	// The same is asked through the message path: a read of the manufacturer data whose addressDestination carries resp.
	// omits the device part is answered with the data of the current incarnation, resp. with one error result (and no
	// reply) if no entity with that address is part of the device.
	incarnations := 0
	addProbe := func(e *c07RE) {
		incarnations++
		e.tag = fmt.Sprintf("incarnation-%d-of-%s", incarnations, c06Key(e.addr))
		f := &c07RF{typ: model.FeatureTypeTypeDeviceClassification, role: model.RoleTypeServer, ops: map[model.FunctionType][2]bool{}}
		f.obj = e.obj.GetOrAddFeature(f.typ, f.role)
		f.id = uint(*f.obj.Address().Feature)
		hand(e, f.id, "GetOrAddFeature")
		s := "probe of " + e.tag
		f.obj.SetDescriptionString(s)
		f.desc = &s
		f.obj.AddFunctionType(c07ProbeFn, true, false)
		f.ops[c07ProbeFn] = [2]bool{true, false}
		f.obj.SetData(c07ProbeFn, &model.DeviceClassificationManufacturerDataType{DeviceName: util.Ptr(model.DeviceClassificationStringType(e.tag))})
		e.feats = append(e.feats, f)
		e.probe = f
		trace = append(trace, fmt.Sprintf("  entity %s: GetOrAddFeature(DeviceClassification,server) -> number %d, manufacturer data deviceName=%q", c06Key(e.addr), f.id, e.tag))
	}
	// makeTwin builds a NEW entity object with the address of old: the same (type, role) pairs under the same feature
	// numbers with the same functions, but other descriptions and other probe data.
	makeTwin := func(old *c07RE) *c07RE {
		t := &c07RE{addr: old.addr, typ: old.typ, handed: map[uint]bool{}}
		if aux.Intn(3) == 0 {
			t.typ = c07EntTypes[aux.Intn(len(c07EntTypes))]
		}
		t.obj = spine.NewEntityLocal(local, t.typ, spine.NewAddressEntityType(t.addr), 4*time.Second)
		incarnations++
		t.tag = fmt.Sprintf("incarnation-%d-of-%s", incarnations, c06Key(t.addr))
		trace = append(trace, fmt.Sprintf("new entity OBJECT for the address %s (type %s), features with the numbers of the removed one:", c06Key(t.addr), t.typ))
		ofs := append([]*c07RF(nil), old.feats...)
		sort.Slice(ofs, func(i, j int) bool { return ofs[i].id < ofs[j].id })
		// the numbers are taken first (in ascending order, as the generator hands them out) ...
		for _, of := range ofs {
			var id uint
			for n := 0; n < 64; n++ {
				id = t.obj.NextFeatureId()
				hand(t, id, "NextFeatureId")
				if id >= of.id {
					break
				}
			}
			if id != of.id {
				panic(fmt.Sprintf("harness: NextFeatureId of a fresh entity skipped number %d (got %d)", of.id, id))
			}
		}
		// ... and the features are then added in ascending, descending or seeded order of their numbers: the order of the
		// AddFeature calls is the application's business
		order := make([]int, len(ofs))
		for i := range order {
			order[i] = i
		}
		how := "ascending"
		switch aux.Intn(4) {
		case 0:
			how = "descending"
			for i := range order {
				order[i] = len(ofs) - 1 - i
			}
		case 1:
			how = "seeded"
			order = aux.Perm(len(ofs))
		}
		if how != "ascending" && len(ofs) > 1 {
			outOfOrder++
		}
		trace = append(trace, fmt.Sprintf("  AddFeature calls in %s order of the feature numbers:", how))
		for _, oi := range order {
			of := ofs[oi]
			id := of.id
			fl := spine.NewFeatureLocal(id, t.obj, of.typ, of.role)
			t.obj.AddFeature(fl)
			nf := &c07RF{obj: fl, id: id, typ: of.typ, role: of.role, ops: map[model.FunctionType][2]bool{}}
			s := fmt.Sprintf("desc-of-%s-%d", t.tag, id)
			fl.SetDescriptionString(s)
			nf.desc = &s
			var fns []model.FunctionType
			for fn := range of.ops {
				fns = append(fns, fn)
			}
			sort.Slice(fns, func(i, j int) bool { return fns[i] < fns[j] })
			for _, fn := range fns {
				fl.AddFunctionType(fn, of.ops[fn][0], of.ops[fn][1])
				nf.ops[fn] = of.ops[fn]
			}
			if of == old.probe {
				fl.SetData(c07ProbeFn, &model.DeviceClassificationManufacturerDataType{DeviceName: util.Ptr(model.DeviceClassificationStringType(t.tag))})
				t.probe = nf
			}
			t.feats = append(t.feats, nf)
			trace = append(trace, fmt.Sprintf("  entity %s: NewFeatureLocal(%d,%s,%s)+AddFeature desc=%s", c06Key(t.addr), id, of.typ, of.role, s))
		}
		return t
	}
	// current returns the entity that is part of the device under that entity address (nil: none) and its feature
	// with that number (nil: none)
	current := func(addrKey string, id uint) (*c07RE, *c07RF) {
		for _, e := range ents {
			if e.present && c06Key(e.addr) == addrKey {
				for _, f := range e.feats {
					if f.id == id {
						return e, f
					}
				}
				return e, nil
			}
		}
		return nil, nil
	}
	ownerOf := func(obj api.FeatureLocalInterface) string {
		for _, e := range ents {
			for _, f := range e.feats {
				if f.obj == obj {
					st := "REMOVED"
					if e.present {
						st = "current"
					}
					return fmt.Sprintf("feature %d (%s/%s, desc=%s) of the %s entity object %q", f.id, f.typ, f.role, c06P(f.desc), st, e.tag)
				}
			}
		}
		return "a feature the harness did not create"
	}
	forms := []struct{ name, dev string }{{"with-device", rig.LocalAddr}, {"without-device", ""}}
	resolutions, probeReads := 0, 0
	// resolveAPI: DeviceLocal.FeatureByAddress for every address ever used, with and without device part
	resolveAPI := func(when string) {
		seen := map[string]bool{}
		for _, e0 := range ents {
			for _, f0 := range e0.feats {
				k := fmt.Sprintf("%s/%d", c06Key(e0.addr), f0.id)
				if seen[k] {
					continue
				}
				seen[k] = true
				ce, cf := current(c06Key(e0.addr), f0.id)
				for _, fo := range forms {
					a := rig.FA(fo.dev, e0.addr, f0.id)
					got := local.FeatureByAddress(a)
					resolutions++
					c.Events(1)
					switch {
					case cf == nil && !rig.IsNil(got) && ce == nil:
						fail("resolve/"+fo.name+"/address-of-a-removed-entity-still-resolves", "%s: FeatureByAddress(%s) returns %s; no entity %s is part of the device", when, rkKey(a), ownerOf(got), c06Key(e0.addr))
					case cf == nil && !rig.IsNil(got):
						fail("resolve/"+fo.name+"/number-the-current-entity-never-handed-out-resolves", "%s: FeatureByAddress(%s) returns %s; the current entity object %q has no feature %d", when, rkKey(a), ownerOf(got), ce.tag, f0.id)
					case cf != nil && rig.IsNil(got):
						fail("resolve/"+fo.name+"/announced-address-does-not-resolve", "%s: FeatureByAddress(%s) is nil; the address is announced for %s", when, rkKey(a), ownerOf(cf.obj))
					case cf != nil && got != cf.obj:
						fail("resolve/"+fo.name+"/announced-address-resolves-to-other-feature", "%s: FeatureByAddress(%s) returns %s; the address is announced for %s", when, rkKey(a), ownerOf(got), ownerOf(cf.obj))
					}
				}
			}
		}
		// the stack-built entity [0] (pinned: c07E0)
		for _, f0 := range c07E0 {
			var first api.FeatureLocalInterface
			for _, fo := range forms {
				a := rig.FA(fo.dev, []uint{0}, f0.id)
				resolutions++
				c.Events(1)
				got := local.FeatureByAddress(a)
				switch {
				case rig.IsNil(got):
					fail("resolve/"+fo.name+"/announced-address-does-not-resolve", "%s: FeatureByAddress(%s) is nil; entity [0] has the %s feature there", when, rkKey(a), f0.typ)
				case got.Type() != f0.typ || got.Role() != f0.role || got.Address().Feature == nil || uint(*got.Address().Feature) != f0.id || (first != nil && got != first):
					fail("resolve/"+fo.name+"/announced-address-resolves-to-other-feature", "%s: FeatureByAddress(%s) returns %s %s/%s; entity [0] has the %s feature there", when, rkKey(a), got.Address().String(), got.Type(), got.Role(), f0.typ)
				}
				if first == nil {
					first = got
				}
			}
		}
	}
	// resolveMsg: the same question through the message path, for the probe feature of every entity address ever used
	resolveMsg := func(when string) {
		seen := map[string]bool{}
		for _, e0 := range ents {
			if e0.probe == nil {
				continue
			}
			k := fmt.Sprintf("%s/%d", c06Key(e0.addr), e0.probe.id)
			if seen[k] {
				continue
			}
			seen[k] = true
			ce, cf := current(c06Key(e0.addr), e0.probe.id)
			if ce != nil && ce.probe != cf {
				continue // the entity object under that address now was built without a probe feature (or has another feature under that number)
			}
			p := peers[aux.Intn(len(peers))]
			for _, fo := range forms {
				a := rig.FA(fo.dev, e0.addr, e0.probe.id)
				p.Tap.Take()
				mc := p.Send(model.CmdClassifierTypeRead, p.NM(), a, false, nil, model.CmdType{DeviceClassificationManufacturerData: &model.DeviceClassificationManufacturerDataType{}})
				res := rig.Classify(p.Tap.Take(), mc)
				probeReads++
				c.Events(int64(1 + len(res.All)))
				name := "(no deviceName)"
				if res.Replies == 1 && len(res.All) == 1 && len(res.All[0].Payload.Cmd) == 1 {
					if md := res.All[0].Payload.Cmd[0].DeviceClassificationManufacturerData; md != nil && md.DeviceName != nil {
						name = string(*md.DeviceName)
					}
				}
				what := fmt.Sprintf("%s: read of %s with addressDestination %s", when, c07ProbeFn, rig.JS(a))
				switch {
				case cf == nil && res.Replies > 0:
					fail("message/"+fo.name+"/read-to-a-removed-entity-is-answered-with-data", "%s is answered with a reply (deviceName %q); no entity %s is part of the device", what, name, c06Key(e0.addr))
				case cf == nil && (res.Errors != 1 || len(res.All) != 1):
					fail("message/"+fo.name+"/read-to-a-removed-entity-not-rejected-once", "%s: %s; no entity %s is part of the device, expected exactly one error result", what, c07RespClass(res), c06Key(e0.addr))
				case cf != nil && (res.Replies != 1 || len(res.All) != 1):
					fail("message/"+fo.name+"/read-to-an-announced-feature-not-answered", "%s: %s; the address is announced for the entity object %q", what, c07RespClass(res), ce.tag)
				case cf != nil && name != ce.tag:
					fail("message/"+fo.name+"/read-answered-by-a-feature-of-a-removed-entity-object", "%s is answered with deviceName %q; the entity object that is part of the device serves %q", what, name, ce.tag)
				}
			}
		}
	}
	checkResolve := func(when string) {
		if c.Failed() {
			return
		}
		resolveAPI(when)
		if !c.Failed() {
			resolveMsg(when)
		}
	}
	twins := 0
	var addTwin func(old *c07RE, how string) // defined below (needs checkNotify)

	// (c) notifications after AddEntity / RemoveEntity
	var notesAdd, notesRem, reads int
	checkNotify := func(e *c07RE, state model.NetworkManagementStateChangeType) {
		if mute {
			c.Count("entity_notifications_judged_behind_a_mute_subscriber", 1)
		}
		for i, p := range peers {
			outs := p.Tap.Take()
			var disc []model.DatagramType
			for _, d := range outs {
				if len(d.Payload.Cmd) > 0 && d.Payload.Cmd[0].NodeManagementDetailedDiscoveryData != nil {
					disc = append(disc, d)
				} else {
					c.Count("other_datagrams_with_entity_change", 1)
				}
			}
			c.Events(int64(len(outs)))
			if !subscribedNM[i] {
				if len(disc) != 0 {
					fail("notify/"+string(state)+"/sent-to-unsubscribed-peer", "peer%d is not subscribed to NodeManagement and received %d discovery datagrams: %s", i, len(disc), rig.JS(disc))
				}
				continue
			}
			if len(disc) != 1 {
				fail(fmt.Sprintf("notify/%s/subscribed-peer-got-%d", state, len(disc)), "peer%d is subscribed to NodeManagement and received %d discovery datagrams: %s", i, len(disc), rig.JS(disc))
				continue
			}
			d := disc[0]
			cmd := d.Payload.Cmd[0]
			dd := cmd.NodeManagementDetailedDiscoveryData
			fp, _ := cmd.ExtractFilter()
			if d.Header.CmdClassifier == nil || *d.Header.CmdClassifier != model.CmdClassifierTypeNotify || fp == nil || fp.CmdControl == nil || fp.CmdControl.Partial == nil {
				fail("notify/"+string(state)+"/not-a-partial-notify", "peer%d: %s", i, rig.JS(d))
				continue
			}
			if len(dd.EntityInformation) != 1 || dd.EntityInformation[0].Description == nil || dd.EntityInformation[0].Description.EntityAddress == nil {
				fail("notify/"+string(state)+"/entity-count", "peer%d: notification does not describe exactly one entity: %s", i, rig.JS(dd.EntityInformation))
				continue
			}
			// it comes from the local NodeManagement feature, goes to the client feature that holds the subscription, and names its function
			if why := c07NotifyHeader(d, subAddr[i]); why != "" {
				fail("notify/"+string(state)+"/addressing", "peer%d subscribed with its feature %s: %s; header %s", i, rkKey(subAddr[i]), why, rig.JS(d.Header))
			}
			ed := dd.EntityInformation[0].Description
			if c06KeyM(ed.EntityAddress.Entity) != c06Key(e.addr) || ed.EntityAddress.Device == nil || string(*ed.EntityAddress.Device) != rig.LocalAddr {
				fail("notify/"+string(state)+"/other-entity", "peer%d: notification describes %s, expected %s of %s", i, rig.JS(ed.EntityAddress), c06Key(e.addr), rig.LocalAddr)
			}
			if ed.LastStateChange == nil || *ed.LastStateChange != state {
				fail("notify/"+string(state)+"/lastStateChange", "peer%d: lastStateChange is %s", i, rig.JS(ed.LastStateChange))
			}
			if state == model.NetworkManagementStateChangeTypeAdded {
				if ed.EntityType == nil || *ed.EntityType != e.typ {
					fail("notify/added/entity-type", "peer%d: entity type %s, expected %s", i, rig.JS(ed.EntityType), e.typ)
				}
				var want, got []string
				for _, f := range e.feats {
					want = append(want, f.line(e))
				}
				for _, fi := range dd.FeatureInformation {
					l, ok := c07InfoLine(fi.Description)
					if !ok {
						fail("notify/added/incomplete-feature-description", "peer%d: %s", i, l)
					}
					got = append(got, l)
				}
				sort.Strings(want)
				sort.Strings(got)
				if strings.Join(want, "\n") != strings.Join(got, "\n") {
					fail("notify/added/features/"+c07DiffSig(want, got), "peer%d: the features of the added entity %s are not announced as built:\n%s", i, c06Key(e.addr), c06Diff(want, got))
				}
				c.Events(int64(len(got)))
			}
		}
	}

	// (a)+(b) discovery read
	checkRead := func(pi int) {
		p := peers[pi]
		p.Tap.Take()
		mc := p.Send(model.CmdClassifierTypeRead, p.NM(), rig.LNM, false, nil, model.CmdType{NodeManagementDetailedDiscoveryData: &model.NodeManagementDetailedDiscoveryDataType{}})
		res := rig.Classify(p.Tap.Take(), mc)
		c.Events(int64(len(res.All)))
		if res.Replies != 1 || res.Errors != 0 {
			fail("read/not-one-reply", "discovery read of peer%d: %s", pi, res)
			return
		}
		reads++
		var dd *model.NodeManagementDetailedDiscoveryDataType
		for _, d := range res.All {
			if len(d.Payload.Cmd) == 1 && d.Payload.Cmd[0].NodeManagementDetailedDiscoveryData != nil {
				dd = d.Payload.Cmd[0].NodeManagementDetailedDiscoveryData
			}
		}
		if dd == nil {
			fail("read/reply-without-discovery-data", "discovery read of peer%d: %s", pi, rig.JS(res.All))
			return
		}
		// entities
		var wantE, gotE []string
		wantE = append(wantE, fmt.Sprintf("%s:[0] type=%s", rig.LocalAddr, model.EntityTypeTypeDeviceInformation))
		for _, e := range present() {
			wantE = append(wantE, fmt.Sprintf("%s:%s type=%s", rig.LocalAddr, c06Key(e.addr), e.typ))
		}
		for _, ei := range dd.EntityInformation {
			if ei.Description == nil || ei.Description.EntityAddress == nil || ei.Description.EntityAddress.Device == nil || ei.Description.EntityType == nil {
				fail("read/incomplete-entity-description", "%s", rig.JS(ei))
				continue
			}
			gotE = append(gotE, fmt.Sprintf("%s:%s type=%s", *ei.Description.EntityAddress.Device, c06KeyM(ei.Description.EntityAddress.Entity), *ei.Description.EntityType))
		}
		sort.Strings(wantE)
		sort.Strings(gotE)
		if strings.Join(wantE, "\n") != strings.Join(gotE, "\n") {
			fail("read/entities", "announced entities differ from the local entities:\n%s", c06Diff(wantE, gotE))
		}
		// features
		byAddr := map[string]api.FeatureLocalInterface{}
		var want, got []string
		want = append(want, c07E0Lines()...)
		if e0 := local.Entity(spine.DeviceInformationAddressEntity); e0 != nil {
			for _, f := range e0.Features() {
				byAddr[f.Address().String()] = f
			}
		}
		for _, e := range present() {
			for _, f := range e.feats {
				want = append(want, f.line(e))
				byAddr[rig.FA(rig.LocalAddr, e.addr, f.id).String()] = f.obj
			}
		}
		for _, fi := range dd.FeatureInformation {
			l, ok := c07InfoLine(fi.Description)
			if !ok {
				fail("read/incomplete-feature-description", "%s", l)
				continue
			}
			got = append(got, l)
			// (b) the announced address resolves to that feature
			a := fi.Description.FeatureAddress
			res := local.FeatureByAddress(a)
			wantObj, known := byAddr[a.String()]
			switch {
			case rig.IsNil(res):
				fail("resolve/announced-address-does-not-resolve", "FeatureByAddress(%s) is nil", a.String())
			case known && res != wantObj:
				fail("resolve/announced-address-resolves-to-other-feature", "FeatureByAddress(%s) returns the feature %s %s/%s", a.String(), res.Address().String(), res.Type(), res.Role())
			case res.Type() != *fi.Description.FeatureType || res.Role() != *fi.Description.Role:
				fail("resolve/announced-address-resolves-to-other-feature", "FeatureByAddress(%s) is %s/%s, announced as %s/%s", a.String(), res.Type(), res.Role(), *fi.Description.FeatureType, *fi.Description.Role)
			}
		}
		sort.Strings(want)
		sort.Strings(got)
		c.Events(int64(len(got) + len(gotE)))
		if strings.Join(want, "\n") != strings.Join(got, "\n") {
			fail("read/features/"+c07DiffSig(want, got), "announced features differ from the tree built through the API:\n%s", c06Diff(want, got))
		}
		if !c.Failed() {
			resolveAPI(fmt.Sprintf("after the discovery read of peer%d", pi))
		}
	}

	addTwin = func(old *c07RE, how string) {
		e := makeTwin(old)
		ents = append(ents, e)
		twins++
		for _, p := range peers {
			p.Tap.Take()
		}
		local.AddEntity(e.obj)
		e.present = true
		trace = append(trace, fmt.Sprintf("AddEntity %s (the new object %q)", c06Key(e.addr), e.tag))
		kinds = append(kinds, fmt.Sprintf("%s%d", how, len(e.feats)))
		checkNotify(e, model.NetworkManagementStateChangeTypeAdded)
		checkFeatures(e)
		notesAdd++
		checkResolve("after AddEntity of a new object for " + c06Key(e.addr))
	}

	nOps := 12 + r.Intn(9)
	for step := 0; step < nOps && !c.Failed(); step++ {
		ps, ab := present(), absent()
		if len(ents) > 0 && aux.Intn(10) == 0 {
			addDuplicate(ents[aux.Intn(len(ents))])
			kinds = append(kinds, "second-object")
			continue
		}
		op := r.Intn(20)
		switch {
		case (op < 4 || len(ps) == 0) && len(ps) < 4: // new entity, built completely, then added
			var addr []uint
			for _, i := range r.Perm(len(c07EntDom)) {
				if !addrInUse(c07EntDom[i]) {
					addr = c07EntDom[i]
					break
				}
			}
			e := &c07RE{addr: addr, typ: c07EntTypes[r.Intn(len(c07EntTypes))], handed: map[uint]bool{}}
			e.obj = spine.NewEntityLocal(local, e.typ, spine.NewAddressEntityType(addr), 4*time.Second)
			for _, x := range ents {
				if c06Key(x.addr) == c06Key(addr) {
					c.Count("new_entities_built_for_the_address_of_a_removed_entity_(other_features_under_the_same_numbers)", 1)
					break
				}
			}
			ents = append(ents, e)
			trace = append(trace, fmt.Sprintf("new entity %s type %s", c06Key(addr), e.typ))
			if aux.Intn(8) == 0 {
				// an entity WITHOUT any feature: announced (added notification, discovery reply) like every other entity
				for _, p := range peers {
					p.Tap.Take()
				}
				local.AddEntity(e.obj)
				e.present = true
				emptyEnts++
				trace = append(trace, fmt.Sprintf("AddEntity %s (an entity without features)", c06Key(addr)))
				kinds = append(kinds, "add0")
				checkNotify(e, model.NetworkManagementStateChangeTypeAdded)
				checkFeatures(e)
				notesAdd++
				checkResolve("after AddEntity " + c06Key(e.addr))
				continue
			}
			addProbe(e)
			if aux.Intn(5) == 0 {
				// a feature with the role "special" (functions allowed, like a server feature), built by the application itself
				id := e.obj.NextFeatureId()
				hand(e, id, "NextFeatureId")
				explicitFeature(e, id, c07Types[aux.Intn(len(c07Types))], model.RoleTypeSpecial, "role special")
				specials++
			}
			if aux.Intn(6) == 0 {
				// a feature under a number the application chose itself (far above what the generator reaches in a case),
				// added BEFORE the features GetOrAddFeature creates under the generator's numbers
				if t, ro, ok := freshPairR(aux, e); ok {
					id := uint(40 + aux.Intn(10))
					hand(e, id, "chosen by the application")
					explicitFeature(e, id, t, ro, "number chosen by the application")
					highIds++
				}
			}
			for n := 1 + r.Intn(5); n > 0; n-- {
				if t, ro, ok := freshPair(e); ok {
					newFeature(e, t, ro)
				}
			}
			if aux.Intn(3) == 0 {
				outOfOrderGroup(e, 2+aux.Intn(2))
			}
			if r.Intn(3) == 0 {
				e.obj.AddUseCaseSupport(model.UseCaseActorTypeCEM, model.UseCaseNameTypeLimitationOfPowerConsumption, "1.0.0", "release", true, []model.UseCaseScenarioSupportType{1, 2})
				trace = append(trace, "  use case support added")
			}
			for _, p := range peers {
				p.Tap.Take()
			}
			local.AddEntity(e.obj)
			e.present = true
			trace = append(trace, fmt.Sprintf("AddEntity %s", c06Key(addr)))
			kinds = append(kinds, fmt.Sprintf("add%d", len(e.feats)))
			checkNotify(e, model.NetworkManagementStateChangeTypeAdded)
			checkFeatures(e)
			notesAdd++
			checkResolve("after AddEntity " + c06Key(e.addr))
		case op < 7 && len(ps) > 0: // remove entity
			e := ps[r.Intn(len(ps))]
			// three removals in four are preceded by a lookup of every address in both forms (features added since the
			// last entity change have not been looked up yet), the fourth is not (whatever was looked up earlier)
			if aux.Intn(4) > 0 {
				resolveAPI("before RemoveEntity " + c06Key(e.addr))
				c.Count("removals_preceded_by_lookups_of_every_address_in_both_forms", 1)
			}
			for _, p := range peers {
				p.Tap.Take()
			}
			local.RemoveEntity(e.obj)
			e.present = false
			trace = append(trace, fmt.Sprintf("RemoveEntity %s (entity object %q)", c06Key(e.addr), e.tag))
			kinds = append(kinds, "remove")
			checkNotify(e, model.NetworkManagementStateChangeTypeRemoved)
			notesRem++
			checkResolve("after RemoveEntity " + c06Key(e.addr))
			// one removal in four is followed at once by the addition of a NEW entity object with the same address and
			// feature numbers (a device that is unplugged and plugged in again)
			if aux.Intn(4) == 0 && !c.Failed() {
				addTwin(e, "replug-new-object")
			}
		case op < 8 && len(ab) > 0: // re-add a removed entity object (its numbering continues)
			e := ab[r.Intn(len(ab))]
			if addrInUse(e.addr) || len(ps) >= 4 {
				continue
			}
			if aux.Intn(2) == 0 {
				// not the removed object again, but a NEW entity object with the same address and feature numbers
				addTwin(e, "readd-new-object")
				continue
			}
			for _, p := range peers {
				p.Tap.Take()
			}
			local.AddEntity(e.obj)
			e.present = true
			trace = append(trace, fmt.Sprintf("AddEntity %s (again, entity object %q)", c06Key(e.addr), e.tag))
			kinds = append(kinds, "readd")
			checkNotify(e, model.NetworkManagementStateChangeTypeAdded)
			notesAdd++
			checkResolve("after AddEntity (again) " + c06Key(e.addr))
		case op < 10 && len(ents) > 0: // a further feature on an existing entity (added or not)
			e := ents[r.Intn(len(ents))]
			if t, ro, ok := freshPair(e); ok && len(e.feats) < 8 { // 7 + the probe feature
				if aux.Intn(4) == 0 && outOfOrderGroup(e, 2) > 0 {
					kinds = append(kinds, "features-out-of-order")
				} else {
					newFeature(e, t, ro)
					kinds = append(kinds, "feature")
				}
				checkFeatures(e)
			}
		case op < 11 && len(ents) > 0: // asking again yields the same feature
			e := ents[r.Intn(len(ents))]
			if len(e.feats) > 0 {
				f := e.feats[r.Intn(len(e.feats))]
				got := e.obj.GetOrAddFeature(f.typ, f.role)
				trace = append(trace, fmt.Sprintf("entity %s: GetOrAddFeature(%s,%s) again", c06Key(e.addr), f.typ, f.role))
				kinds = append(kinds, "again")
				if got != f.obj {
					fail("features/asking-again-yields-other-feature", "GetOrAddFeature(%s,%s) returned feature number %d, first call returned number %d", f.typ, f.role, uint(*got.Address().Feature), f.id)
				}
				if got2 := e.obj.FeatureOfTypeAndRole(f.typ, f.role); got2 != f.obj {
					fail("features/asking-again-yields-other-feature", "FeatureOfTypeAndRole(%s,%s) does not return the feature created first", f.typ, f.role)
				}
				checkFeatures(e)
				c.Events(1)
			}
		case op < 12 && len(ents) > 0: // a further function on an existing server feature
			e := ents[r.Intn(len(ents))]
			for _, i := range r.Perm(len(e.feats)) {
				if f := e.feats[i]; f.role == model.RoleTypeServer {
					if s := addFunctions(e, f, 1+r.Intn(2)); s != "" {
						trace = append(trace, fmt.Sprintf("entity %s feature %d: AddFunctionType %s", c06Key(e.addr), f.id, s))
						kinds = append(kinds, "function")
					}
					break
				}
			}
		case op < 13 && len(ents) > 0: // description change
			e := ents[r.Intn(len(ents))]
			if len(e.feats) > 0 {
				f := e.feats[r.Intn(len(e.feats))]
				s := fmt.Sprintf("desc-%d", r.Intn(10000))
				f.obj.SetDescriptionString(s)
				f.desc = &s
				trace = append(trace, fmt.Sprintf("entity %s feature %d: SetDescriptionString(%q)", c06Key(e.addr), f.id, s))
				kinds = append(kinds, "describe")
			}
		case op < 14 && len(ents) > 0: // a feature number taken without creating a feature
			e := ents[r.Intn(len(ents))]
			id := e.obj.NextFeatureId()
			trace = append(trace, fmt.Sprintf("entity %s: NextFeatureId() = %d", c06Key(e.addr), id))
			kinds = append(kinds, "nextid")
			hand(e, id, "NextFeatureId")
			c.Events(1)
		case op < 15: // peer2 toggles its NodeManagement subscription
			p := peers[2]
			p.Tap.Take()
			var mc model.MsgCounterType
			if subscribedNM[2] {
				mc = p.Unsubscribe(subAddr[2], rig.LNM)
			} else {
				mc = p.Subscribe(subAddr[2], rig.LNM, model.FeatureTypeTypeNodeManagement)
			}
			if res := rig.Classify(p.Tap.Take(), mc); res.Success != 1 {
				c.Inconclusive("NodeManagement (un)subscription of peer2 was not acknowledged (%s)", res)
				return
			}
			subscribedNM[2] = !subscribedNM[2]
			trace = append(trace, fmt.Sprintf("peer2 NodeManagement subscription (client feature %s) -> %v", rkKey(subAddr[2]), subscribedNM[2]))
			kinds = append(kinds, "toggle")
		default:
			pi := r.Intn(3)
			trace = append(trace, fmt.Sprintf("peer%d reads nodeManagementDetailedDiscoveryData", pi))
			kinds = append(kinds, "read")
			checkRead(pi)
		}
	}
	if !c.Failed() {
		trace = append(trace, "final read")
		checkRead(0)
	}

	h := fnv.New64a()
	h.Write([]byte(strings.Join(kinds, ";")))
	c.Shape(fmt.Sprintf("%x mute=%v", h.Sum64(), mute))
	c.NonTrivial(reads >= 2 && notesAdd >= 1 && notesRem >= 1)
	c.Count("discovery_reads", int64(reads))
	c.Count("AddEntity_notifications_checked", int64(notesAdd))
	c.Count("RemoveEntity_notifications_checked", int64(notesRem))
	nf := 0
	for _, e := range ents {
		nf += len(e.feats)
	}
	c.Count("features_created", int64(nf))
	c.Count("entities_created", int64(len(ents)))
	c.Count("re_additions_as_a_new_entity_object_with_the_same_address_and_feature_numbers", int64(twins))
	c.Count("entities_added_without_any_feature", int64(emptyEnts))
	c.Count("features_with_the_role_special_(with_functions)", int64(specials))
	c.Count("feature_groups_added_out_of_the_order_of_their_numbers", int64(outOfOrder))
	c.Count("features_under_a_number_chosen_by_the_application_added_before_generated_ones", int64(highIds))
	c.Count("AddFeature_calls_with_a_second_object_of_an_existing_type_and_role", int64(dupAdds))
	c.Count("FeatureByAddress_resolutions_judged_(with_and_without_device_part)", int64(resolutions))
	c.Count("probe_reads_judged_(addressDestination_with_and_without_device_part)", int64(probeReads))
	if len(trace) > 30 {
		trace = trace[:30]
	}
	c.Sample(map[string]any{"first_steps": trace, "operation_kinds": kinds, "mute_first_subscriber": mute})
}

// ---- concurrent part

func c07Conc(c *rig.Ctx) {
	r := c.Rand
	w := rig.NewWorld(c.Tag())
	defer w.Close()
	const G = 8
	point := "GetOrAddFeature.afterMiss"

	e := spine.NewEntityLocal(w.Local, model.EntityTypeTypeCEM, spine.NewAddressEntityType([]uint{1}), 4*time.Second)
	added := r.Intn(2) == 0
	if added {
		w.Local.AddEntity(e)
	}
	type pair struct {
		t  model.FeatureTypeType
		ro model.RoleType
	}
	nPairs := 2 + r.Intn(2)
	var pairs []pair
	for _, i := range r.Perm(len(c07Types))[:nPairs] {
		pairs = append(pairs, pair{c07Types[i], []model.RoleType{model.RoleTypeClient, model.RoleTypeServer}[r.Intn(2)]})
	}
	if r.Intn(3) == 0 { // same type in both roles
		pairs[1] = pair{pairs[0].t, model.RoleTypeServer}
		pairs[0].ro = model.RoleTypeClient
	}
	// some pairs may exist beforehand (their callers never reach the window)
	pre := 0
	if r.Intn(4) == 0 {
		pre = 1
	}
	before := map[pair]api.FeatureLocalInterface{}
	for _, p := range pairs[:pre] {
		before[p] = e.GetOrAddFeature(p.t, p.ro)
	}
	// every goroutine starts with a pair that does not exist yet, so all of them reach the window
	missing := pairs[pre:]
	k := []int{2, 3, 4, G}[r.Intn(4)]

	h := rig.InstallHooks()
	defer h.Uninstall()
	h.SetMaxWait(10 * time.Second)
	h.Rendezvous(point, k)

	type res struct {
		p   pair
		obj api.FeatureLocalInterface
	}
	var mu sync.Mutex
	var results []res
	var ids []uint
	plan := make([][]int, G) // per goroutine: indexes into pairs, -1 = NextFeatureId
	for g := 0; g < G; g++ {
		// first call: a missing pair, half of the time the same one for everybody
		if r.Intn(2) == 0 {
			plan[g] = append(plan[g], pre)
		} else {
			plan[g] = append(plan[g], pre+(g+r.Intn(2))%len(missing))
		}
		for n := 2 + r.Intn(4); n > 0; n-- {
			if r.Intn(3) == 0 {
				plan[g] = append(plan[g], -1)
			} else {
				plan[g] = append(plan[g], r.Intn(len(pairs)))
			}
		}
		for i := range pairs { // finally everybody asks for every pair
			plan[g] = append(plan[g], i)
		}
	}
	// ---- the explicit path next to GetOrAddFeature (second PRNG; the plans drawn above stay what they were)
	//
	// explicit(p): id := NextFeatureId(); AddFeature(NewFeatureLocal(id, p)); FeatureOfTypeAndRole(p) - what an application
	// does that builds its features itself. (a) plan entries -2-x: the explicit path for the CONTESTED pair x, racing the
	// GetOrAddFeature calls of the others (AddFeature is handed a second, third ... object of one type and role);
	// (b) in one case in three the explicit path for the most contested pair is taken exactly once INSIDE the window, by
	// the k-th goroutine that arrives between its lookup miss and the creation (an observer at the hook: what another
	// goroutine would do at that moment; the k-1 others are released at the same moment); (c) every goroutine adds a feature of its OWN (type, role) through the explicit
	// path, so that the AddFeature calls arrive in an order that is not the order of the numbers; in every second case
	// goroutines 0 and 1 do that as a duel: both take their numbers, then the holder of the HIGHER number adds first.
	aux := c10Aux(c, 71)
	ownTypes := []model.FeatureTypeType{model.FeatureTypeTypeAlarm, model.FeatureTypeTypeDirectControl, model.FeatureTypeTypeMessaging, model.FeatureTypeTypeOperatingConstraints,
		model.FeatureTypeTypePowerSequences, model.FeatureTypeTypeSensing, model.FeatureTypeTypeTaskManagement, model.FeatureTypeTypeThreshold}
	own := make([]pair, G)
	for g, ti := range aux.Perm(len(ownTypes)) {
		own[g] = pair{ownTypes[ti], []model.RoleType{model.RoleTypeClient, model.RoleTypeServer}[aux.Intn(2)]}
	}
	ownAt := make([]int, G) // position in plan[g] (after the first call) at which goroutine g adds its own feature; -1: never
	nOwn := 0
	for g := range ownAt {
		ownAt[g] = -1
		if aux.Intn(4) > 0 {
			ownAt[g] = 1 + aux.Intn(len(plan[g])-1)
			nOwn++
		}
	}
	duel := aux.Intn(2) == 0
	if duel {
		for g := 0; g < 2; g++ {
			if ownAt[g] < 0 {
				nOwn++
			}
			ownAt[g] = 1
		}
	}
	explicitRacers := 0
	if aux.Intn(2) == 0 {
		for g := 0; g < G; g++ {
			if aux.Intn(3) == 0 {
				// replace one of the later GetOrAddFeature calls of g by the explicit path for the same pair
				for try := 0; try < 4; try++ {
					if i := 1 + aux.Intn(len(plan[g])-1-len(pairs)); plan[g][i] >= 0 {
						plan[g][i] = -2 - plan[g][i]
						explicitRacers++
						break
					}
				}
			}
		}
	}
	type explRec struct {
		p   pair
		id  uint
		obj api.FeatureLocalInterface
	}
	var expl []explRec
	explicit := func(p pair) {
		id := e.NextFeatureId()
		fl := spine.NewFeatureLocal(id, e, p.t, p.ro)
		e.AddFeature(fl)
		got := e.FeatureOfTypeAndRole(p.t, p.ro)
		mu.Lock()
		expl = append(expl, explRec{p, id, fl})
		results = append(results, res{p, got})
		mu.Unlock()
	}
	inWindow := aux.Intn(3) == 0
	var atHook atomic.Int32
	if inWindow {
		// the k-th arrival completes the rendezvous: k goroutines are between their lookup miss and the creation now
		h.On(point, func(any) {
			if int(atHook.Add(1)) == k {
				explicit(pairs[pre])
			}
		})
	}
	duelId := [2]chan uint{make(chan uint, 1), make(chan uint, 1)}
	higherAdded := make(chan struct{})
	duelOrder := ""
	ownFeature := func(g int) {
		if !duel || g > 1 {
			explicit(own[g])
			return
		}
		id := e.NextFeatureId()
		duelId[g] <- id
		var other uint
		select {
		case other = <-duelId[1-g]:
		case <-time.After(30 * time.Second): // watchdog only: the other party never took its number
			other = id + 1
		}
		if id > other {
			mu.Lock()
			duelOrder = fmt.Sprintf("g%d added number %d before g%d added number %d", g, id, 1-g, other)
			mu.Unlock()
		} else {
			select {
			case <-higherAdded:
			case <-time.After(30 * time.Second):
			}
		}
		fl := spine.NewFeatureLocal(id, e, own[g].t, own[g].ro)
		e.AddFeature(fl)
		if id > other {
			close(higherAdded)
		}
		got := e.FeatureOfTypeAndRole(own[g].t, own[g].ro)
		mu.Lock()
		expl = append(expl, explRec{own[g], id, fl})
		results = append(results, res{own[g], got})
		mu.Unlock()
	}

	// (d) storms: after its plan every goroutine waits at a spinning barrier and then all of them ask for one NEW (type,
	// role) at the same moment, a seeded subset through the explicit path, the others through GetOrAddFeature
	stormTypes := []model.FeatureTypeType{model.FeatureTypeTypeBill, model.FeatureTypeTypeStateInformation, model.FeatureTypeTypeSupplyCondition, model.FeatureTypeTypeTariffInformation}
	var storms []pair
	for _, ti := range aux.Perm(2 * len(stormTypes))[:4+aux.Intn(4)] {
		storms = append(storms, pair{stormTypes[ti/2], []model.RoleType{model.RoleTypeClient, model.RoleTypeServer}[ti%2]})
	}
	stormExplicit := make([][]bool, G)
	for g := range stormExplicit {
		for range storms {
			stormExplicit[g] = append(stormExplicit[g], aux.Intn(3) > 0)
		}
	}
	barrier := make([]atomic.Int32, len(storms))

	start := make(chan struct{})
	ok, panicked := rig.Guard(60*time.Second, func() {
		var wg sync.WaitGroup
		for g := 0; g < G; g++ {
			wg.Add(1)
			go func(g int) {
				defer wg.Done()
				h.Role(fmt.Sprintf("g%d", g))
				<-start
				defer func() {
					for si, sp := range storms {
						barrier[si].Add(1)
						for spin := 0; barrier[si].Load() < G && spin < 50_000_000; spin++ {
							runtime.Gosched()
						}
						if stormExplicit[g][si] {
							explicit(sp)
						} else {
							f := e.GetOrAddFeature(sp.t, sp.ro)
							mu.Lock()
							results = append(results, res{sp, f})
							mu.Unlock()
						}
					}
				}()
				for i, x := range plan[g] {
					if i == ownAt[g] {
						ownFeature(g)
					}
					if x == -1 {
						id := e.NextFeatureId()
						mu.Lock()
						ids = append(ids, id)
						mu.Unlock()
						continue
					}
					if x < -1 {
						explicit(pairs[-2-x])
						continue
					}
					f := e.GetOrAddFeature(pairs[x].t, pairs[x].ro)
					mu.Lock()
					results = append(results, res{pairs[x], f})
					mu.Unlock()
				}
			}(g)
		}
		close(start)
		wg.Wait()
	})
	if panicked != "" {
		c.Violate("conc/panic", "%s", panicked)
		return
	}
	if !ok {
		c.Inconclusive("concurrent GetOrAddFeature calls did not return within 60s")
		return
	}
	forced := h.Forced(point)
	tr := h.Trace()

	desc := fmt.Sprintf("pairs=%v existing-before=%d rendezvous k=%d forced=%v; explicit path (NextFeatureId+NewFeatureLocal+AddFeature): %d goroutines add a feature of their own (type, role)%s, %d calls for a contested pair%s; then %d storms (all 8 goroutines ask for one new pair at once, explicit path or GetOrAddFeature)",
		pairs, pre, k, forced, nOwn, map[bool]string{true: " (goroutines 0 and 1: higher number first: " + duelOrder + ")", false: ""}[duel], explicitRacers,
		map[bool]string{true: ", one more by the k-th goroutine inside the window", false: ""}[inWindow], len(storms))
	// same object for the same (type, role) to all callers
	first := map[pair]api.FeatureLocalInterface{}
	for p, f := range before {
		first[p] = f
	}
	for _, x := range results {
		c.Events(1)
		if rig.IsNil(x.obj) {
			c.Violate("conc/nil-feature", "%s: GetOrAddFeature(%s,%s) returned nil", desc, x.p.t, x.p.ro)
			continue
		}
		if x.obj.Type() != x.p.t || x.obj.Role() != x.p.ro {
			c.Violate("conc/feature-of-other-type-or-role", "%s: GetOrAddFeature(%s,%s) returned %s/%s", desc, x.p.t, x.p.ro, x.obj.Type(), x.obj.Role())
		}
		if f0, seen := first[x.p]; !seen {
			first[x.p] = x.obj
		} else if f0 != x.obj {
			c.Violate("conc/different-objects-for-one-type-and-role", "%s: callers of GetOrAddFeature(%s,%s) received different features (numbers %d and %d)", desc, x.p.t, x.p.ro,
				uint(*f0.Address().Feature), uint(*x.obj.Address().Feature))
		}
	}
	// every feature handed to a caller is a feature of the entity (not an orphan)
	for _, x := range results {
		if rig.IsNil(x.obj) {
			continue
		}
		if got := e.FeatureOfAddress(x.obj.Address().Feature); got != x.obj {
			c.Violate("conc/returned-feature-is-not-in-the-entity", "%s: the feature number %d returned by GetOrAddFeature(%s,%s) does not resolve to that feature through the entity", desc, uint(*x.obj.Address().Feature), x.p.t, x.p.ro)
			break
		}
	}
	// Features() holds one per (type, role), numbers are unique, also against NextFeatureId results
	seenPair := map[pair]int{}
	seenId := map[uint]string{}
	fs := e.Features()
	for _, f := range fs {
		p := pair{f.Type(), f.Role()}
		seenPair[p]++
		id := uint(*f.Address().Feature)
		if prev, dup := seenId[id]; dup {
			c.Violate("conc/two-features-share-a-number", "%s: number %d is used by %s and %s/%s", desc, id, prev, f.Type(), f.Role())
		}
		seenId[id] = string(f.Type()) + "/" + string(f.Role())
		if got := e.FeatureOfAddress(f.Address().Feature); got != f {
			c.Violate("conc/number-resolves-to-other-feature", "%s: FeatureOfAddress(%d) does not return the feature carrying that number", desc, id)
		}
	}
	for p, n := range seenPair {
		if n != 1 {
			c.Violate("conc/two-features-of-one-type-and-role", "%s: Features() holds %d features %s/%s", desc, n, p.t, p.ro)
		}
	}
	if len(fs) != len(pairs)+nOwn+len(storms) {
		c.Violate("conc/feature-count", "%s: Features() holds %d features for %d distinct (type, role) pairs", desc, len(fs), len(pairs)+nOwn+len(storms))
	}
	// every feature of the entity resolves through the device as well, with and without device part (if the entity is part of it)
	if added {
		for _, f := range fs {
			for _, a := range []*model.FeatureAddressType{f.Address(), rkStripDevice(f.Address())} {
				c.Events(1)
				if got := w.Local.FeatureByAddress(a); got != f {
					c.Violate("conc/announced-address-does-not-resolve", "%s: DeviceLocal.FeatureByAddress(%s) does not return the feature %s/%s carrying that number (features in the order of Features(): %s)", desc, rkKey(a), f.Type(), f.Role(), c07Numbers(fs))
					break
				}
			}
		}
	}
	// the explicit path: a number taken for an object that AddFeature did not keep is not the number of another feature
	inEntity := map[api.FeatureLocalInterface]bool{}
	for _, f := range fs {
		inEntity[f] = true
	}
	for _, x := range expl {
		c.Events(1)
		if prev, dup := seenId[x.id]; dup && !inEntity[x.obj] {
			c.Violate("conc/feature-number-handed-out-twice", "%s: NextFeatureId returned %d for a second object of %s/%s (not kept by AddFeature); the number is also used by %s", desc, x.id, x.p.t, x.p.ro, prev)
		}
		if !inEntity[x.obj] {
			seenId[x.id] = "NextFeatureId (explicit path, object not kept)"
		}
	}
	for _, id := range ids {
		c.Events(1)
		if prev, dup := seenId[id]; dup {
			c.Violate("conc/feature-number-handed-out-twice", "%s: NextFeatureId returned %d which is also used by %s", desc, id, prev)
		}
		seenId[id] = "NextFeatureId"
	}
	c.Events(int64(len(fs)))
	if c.Failed() {
		c.Witness(map[string]any{"config": desc, "plan": plan, "hook_trace": tr})
	}

	if forced {
		c.Count("windows_forced", 1)
	} else {
		c.Count("windows_not_forced", 1)
	}
	var arrivals []string
	for _, t := range tr {
		if strings.HasSuffix(t, "@"+point) {
			arrivals = append(arrivals, strings.TrimSuffix(t, "@"+point))
		}
	}
	// the window is only interesting if two of the k goroutines held in it want the same (type, role)
	same := false
	if forced && len(arrivals) >= k {
		seen := map[int]bool{}
		for _, role := range arrivals[:k] {
			var g int
			fmt.Sscanf(role, "g%d", &g)
			if seen[plan[g][0]] {
				same = true
			}
			seen[plan[g][0]] = true
		}
	}
	if same {
		c.Count("windows_forced_with_two_callers_of_one_pair", 1)
	}
	hh := fnv.New64a()
	hh.Write([]byte(strings.Join(arrivals, ",")))
	c.Seen("arrival_orders", fmt.Sprintf("%x", hh.Sum64()))
	c.Count("goroutines_inside_window", int64(len(arrivals)))
	c.Shape(fmt.Sprintf("k=%d pairs=%d pre=%d order=%x", k, nPairs, pre, hh.Sum64()))
	c.NonTrivial(same)
	c.Sample(map[string]any{"config": desc, "arrivals_at_hook": arrivals, "features_after": len(fs), "next_feature_ids": ids})
}

// c07LineFields splits a line of c07Line into its description and its operations part.
func c07LineFields(l string) (desc, ops string) {
	i, j := strings.Index(l, " desc="), strings.LastIndex(l, " ops={")
	if i < 0 || j < i {
		return l, l
	}
	return l[i+len(" desc=") : j], l[j+len(" ops="):]
}

// c07NotifyHeader judges the addressing of an entity notification: source = the local NodeManagement feature,
// destination = the subscribed client feature, cmd.function = nodeManagementDetailedDiscoveryData.
func c07NotifyHeader(d model.DatagramType, client *model.FeatureAddressType) string {
	switch {
	case d.Header.AddressSource == nil || d.Header.AddressSource.String() != rig.LNM.String():
		return "addressSource is not the local NodeManagement feature " + rkKey(rig.LNM)
	case d.Header.AddressDestination == nil || d.Header.AddressDestination.String() != client.String():
		return "addressDestination is not the subscribed client feature"
	case len(d.Payload.Cmd) != 1 || d.Payload.Cmd[0].Function == nil || *d.Payload.Cmd[0].Function != model.FunctionTypeNodeManagementDetailedDiscoveryData:
		return "cmd.function is not nodeManagementDetailedDiscoveryData"
	}
	return ""
}

func c07Numbers(fs []api.FeatureLocalInterface) string {
	var ns []string
	for _, f := range fs {
		ns = append(ns, fmt.Sprint(uint(*f.Address().Feature)))
	}
	return strings.Join(ns, ",")
}

// ---- discovery reads concurrent with entity removal / addition

// c07ReadConc: "at every moment the reply lists exactly the current entities". A peer goroutine reads the
// detailed discovery data in a loop while the application removes and re-adds entities; the calls are
// stamped with the rig's logical clock and every reply must equal one of the entity sets that were
// current at some point between the call and the return of its read.
func c07ReadConc(c *rig.Ctx) {
	r := c.Rand
	w := rig.NewWorld(c.Tag())
	defer w.Close()
	local := w.Local
	nEnt := 4 + r.Intn(3)
	type ent struct {
		obj   *spine.EntityLocal
		key   string
		feats []string // announced lines of its features (static during the case)
	}
	var ents []*ent
	for i := 0; i < nEnt; i++ {
		addr := []uint{uint(i + 1)}
		e := &ent{obj: spine.NewEntityLocal(local, c07EntTypes[r.Intn(len(c07EntTypes))], spine.NewAddressEntityType(addr), 4*time.Second), key: c06Key(addr)}
		for _, ti := range r.Perm(len(c07Types))[:1+r.Intn(2)] {
			f := e.obj.GetOrAddFeature(c07Types[ti], model.RoleTypeServer)
			if fns := c06FnsOf(c07Types[ti]); len(fns) > 0 && fns[0].Fn != model.FunctionTypeDeviceDiagnosisHeartbeatData {
				f.AddFunctionType(fns[0].Fn, true, r.Intn(2) == 0)
			}
			e.feats = append(e.feats, c07ApiLine(f))
		}
		sort.Strings(e.feats)
		local.AddEntity(e.obj)
		ents = append(ents, e)
	}
	p := w.AddPeer(0)
	p.Ctr = 100000
	p.Announce([]rig.FS{rig.NMFS})
	p.Tap.Take()

	// the sequence of entity sets: state i is current after i operations have taken effect
	present := map[string]bool{}
	for _, e := range ents {
		present[e.key] = true
	}
	render := func() string {
		var ks []string
		for k, v := range present {
			if v {
				ks = append(ks, k)
			}
		}
		sort.Strings(ks)
		return strings.Join(ks, " ")
	}
	type opRec struct {
		desc       string
		start, end int64
	}
	nOps := 60 + r.Intn(80)
	states := []string{render()}
	type planned struct {
		e      *ent
		remove bool
	}
	var plan []planned
	order := append([]*ent(nil), ents...) // order of the stack's list, to avoid removing the last one
	for len(plan) < nOps {
		// candidates: present entities that are not the last of the list; absent entities to re-add
		var rm, add []*ent
		for i, e := range order {
			if i < len(order)-1 {
				rm = append(rm, e)
			}
		}
		for _, e := range ents {
			if !present[e.key] {
				add = append(add, e)
			}
		}
		if len(rm) > 0 && (len(add) == 0 || len(order) > 3 && r.Intn(2) == 0) {
			e := rm[r.Intn(len(rm))]
			plan = append(plan, planned{e, true})
			present[e.key] = false
			for i, x := range order {
				if x == e {
					order = append(append([]*ent(nil), order[:i]...), order[i+1:]...)
					break
				}
			}
		} else if len(add) > 0 {
			e := add[r.Intn(len(add))]
			plan = append(plan, planned{e, false})
			present[e.key] = true
			order = append(order, e)
		} else {
			break
		}
		states = append(states, render())
	}
	ops := make([]opRec, len(plan))

	const nReads = 40
	type readRec struct {
		start, end int64
		mc         model.MsgCounterType
	}
	reads := make([]readRec, nReads)
	startC := make(chan struct{})
	var wg sync.WaitGroup
	ok, panicked := rig.Guard(60*time.Second, func() {
		wg.Add(2)
		go func() { // the application
			defer wg.Done()
			<-startC
			for i, pl := range plan {
				ops[i].start = rig.Seq()
				if pl.remove {
					ops[i].desc = "RemoveEntity " + pl.e.key
					local.RemoveEntity(pl.e.obj)
				} else {
					ops[i].desc = "AddEntity " + pl.e.key
					local.AddEntity(pl.e.obj)
				}
				ops[i].end = rig.Seq()
				runtime.Gosched()
			}
		}()
		go func() { // the peer
			defer wg.Done()
			<-startC
			for i := range reads {
				reads[i].start = rig.Seq()
				reads[i].mc = p.Send(model.CmdClassifierTypeRead, p.NM(), rig.LNM, false, nil, model.CmdType{NodeManagementDetailedDiscoveryData: &model.NodeManagementDetailedDiscoveryDataType{}})
				reads[i].end = rig.Seq()
			}
		}()
		close(startC)
		wg.Wait()
	})
	if panicked != "" {
		c.Violate("read-conc/panic", "%s", panicked)
		return
	}
	if !ok {
		c.Inconclusive("concurrent reads / entity changes did not return within 60s")
		return
	}
	if n := p.PanicCount(); n > 0 {
		c.Violate("read-conc/panic", "%s", p.Panics[n-1])
		return
	}
	outs := p.Tap.Take()
	featsOf := map[string][]string{}
	for _, e := range ents {
		featsOf[e.key] = e.feats
	}
	overlapped := 0
	for i, rd := range reads {
		res := rig.Classify(outs, rd.mc)
		c.Events(1)
		if res.Replies != 1 || res.Errors != 0 || len(res.All[0].Payload.Cmd) != 1 || res.All[0].Payload.Cmd[0].NodeManagementDetailedDiscoveryData == nil {
			c.Violate("read-conc/not-one-reply", "read %d: %s", i, res)
			continue
		}
		dd := res.All[0].Payload.Cmd[0].NodeManagementDetailedDiscoveryData
		// states that were current at some point of [start, end]: operations that ended before the read
		// started have taken effect, operations that started after it ended have not
		lo, hi := 0, 0
		for _, o := range ops {
			if o.end < rd.start {
				lo++
			}
			if o.start < rd.end {
				hi++
			}
		}
		if hi > lo {
			overlapped++
		}
		var got []string
		gotFeats := map[string][]string{}
		for _, ei := range dd.EntityInformation {
			if ei.Description == nil || ei.Description.EntityAddress == nil {
				c.Violate("read-conc/incomplete-entity-description", "%s", rig.JS(ei))
				continue
			}
			if k := c06KeyM(ei.Description.EntityAddress.Entity); k != "[0]" {
				got = append(got, k)
			}
		}
		for _, fi := range dd.FeatureInformation {
			if l, okL := c07InfoLine(fi.Description); okL {
				k := c06KeyM(fi.Description.FeatureAddress.Entity)
				gotFeats[k] = append(gotFeats[k], l)
			}
		}
		sort.Strings(got)
		g := strings.Join(got, " ")
		match := false
		for s := lo; s <= hi && s < len(states); s++ {
			if states[s] == g {
				match = true
			}
		}
		if !match {
			var during []string
			for _, o := range ops {
				if !(o.end < rd.start) && o.start < rd.end {
					during = append(during, o.desc)
				}
			}
			dup := ""
			for j := 1; j < len(got); j++ {
				if got[j] == got[j-1] {
					dup = " (an entity is listed twice)"
				}
			}
			c.Violate("read-conc/reply-matches-no-state-of-the-device", "read %d announced the entities {%s}%s; the device had, between the call and the return of that read, one of %q (operations overlapping the read: %v)",
				i, g, dup, states[lo:min(hi+1, len(states))], during)
			c.Witness(map[string]any{"operations": ops, "states": states, "read": i})
			continue
		}
		for _, k := range got {
			fs := gotFeats[k]
			sort.Strings(fs)
			if strings.Join(fs, "\n") != strings.Join(featsOf[k], "\n") {
				c.Violate("read-conc/features-of-announced-entity", "read %d: entity %s announced with\n%s", i, k, c06Diff(featsOf[k], fs))
			}
		}
	}
	c.Count("concurrent_reads", nReads)
	c.Count("reads_overlapping_an_entity_change", int64(overlapped))
	c.Count("entity_changes_during_reads", int64(len(plan)))
	var kinds []string
	for _, pl := range plan {
		if pl.remove {
			kinds = append(kinds, "r"+pl.e.key)
		} else {
			kinds = append(kinds, "a"+pl.e.key)
		}
	}
	h := fnv.New64a()
	h.Write([]byte(strings.Join(kinds, "")))
	c.Shape(fmt.Sprintf("n=%d ops=%x overlapped=%d", nEnt, h.Sum64(), overlapped))
	c.NonTrivial(overlapped > 0)
	c.Sample(map[string]any{"entities": nEnt, "operations": kinds, "reads": nReads, "reads_overlapping_an_operation": overlapped})
}

// ---- reads placed between an entity notification and the return of AddEntity / RemoveEntity

// c07WinPlan is what the reader goroutine of a reactive peer does once it has seen an entity notification
// (drawn by the case's goroutine from c.Rand before the call, so the reader draws nothing itself).
type c07WinPlan struct {
	featAddr *model.FeatureAddressType // a feature of the entity that is about to be added (nil: no feature read)
	featFn   model.FunctionType
}

// c07WinEv is one entity notification as the slow writer saw it.
type c07WinEv struct {
	state model.NetworkManagementStateChangeType
	ent   string                      // "[1,1]"
	seq   int64                       // logical stamp taken after the notification was handed to the connection
	anns  []*model.FeatureAddressType // the feature addresses it announces
	done  chan struct{}
}

// c07Reaction is what the reader goroutine did and saw inside one window.
type c07Reaction struct {
	ev                *c07WinEv
	discMc, featMc    model.MsgCounterType
	discCall, discRet int64
	feat              *c07WinPlan
	unresolved        []string // announced addresses that FeatureByAddress did not resolve to a feature with that address
	resolved          int
}

// c07ReactWriter is the connection writer of a "reactive" peer. Every datagram is handed to the peer's ordinary
// rig.Tap first. If the datagram is a detailed discovery notification describing one entity as added or
// removed and the writer is armed, the write then stays parked (as a socket write under back-pressure does)
// until the peer's reader goroutine has finished its reaction, bounded by max. An expired wait is counted and
// never judged.
type c07ReactWriter struct {
	tap  *rig.Tap
	max  time.Duration
	ev   chan *c07WinEv
	quit chan struct{}
	gone chan struct{}

	mu                   sync.Mutex
	armed                bool
	plan                 c07WinPlan
	dispatched, finished int
	expired              int
	recs                 []*c07Reaction
}

func newC07ReactWriter() *c07ReactWriter {
	return &c07ReactWriter{max: 20 * time.Second, ev: make(chan *c07WinEv, 1), quit: make(chan struct{}), gone: make(chan struct{})}
}

func (x *c07ReactWriter) WriteShipMessageWithPayload(m []byte) {
	x.tap.WriteShipMessageWithPayload(m) // the notification is on the connection from here on
	x.mu.Lock()
	armed := x.armed
	x.mu.Unlock()
	if !armed {
		return
	}
	var d model.Datagram
	if json.Unmarshal(m, &d) != nil {
		return
	}
	h, pl := d.Datagram.Header, d.Datagram.Payload
	if h.CmdClassifier == nil || *h.CmdClassifier != model.CmdClassifierTypeNotify || len(pl.Cmd) != 1 || pl.Cmd[0].NodeManagementDetailedDiscoveryData == nil {
		return
	}
	dd := pl.Cmd[0].NodeManagementDetailedDiscoveryData
	if len(dd.EntityInformation) != 1 || dd.EntityInformation[0].Description == nil || dd.EntityInformation[0].Description.EntityAddress == nil || dd.EntityInformation[0].Description.LastStateChange == nil {
		return
	}
	ed := dd.EntityInformation[0].Description
	if *ed.LastStateChange != model.NetworkManagementStateChangeTypeAdded && *ed.LastStateChange != model.NetworkManagementStateChangeTypeRemoved {
		return
	}
	ev := &c07WinEv{state: *ed.LastStateChange, ent: c06KeyM(ed.EntityAddress.Entity), seq: rig.Seq(), done: make(chan struct{})}
	for _, fi := range dd.FeatureInformation {
		if fi.Description != nil && fi.Description.FeatureAddress != nil {
			ev.anns = append(ev.anns, fi.Description.FeatureAddress)
		}
	}
	x.mu.Lock()
	x.dispatched++
	x.mu.Unlock()
	t := time.NewTimer(x.max)
	defer t.Stop()
	select {
	case x.ev <- ev:
	case <-t.C:
		x.mu.Lock()
		x.expired++
		x.finished++ // nobody will react to this one
		x.mu.Unlock()
		return
	}
	select {
	case <-ev.done:
	case <-t.C:
		x.mu.Lock()
		x.expired++
		x.mu.Unlock()
	}
}

func (x *c07ReactWriter) arm(pl c07WinPlan) {
	x.mu.Lock()
	x.armed, x.plan = true, pl
	x.mu.Unlock()
}

func (x *c07ReactWriter) disarm() { x.mu.Lock(); x.armed = false; x.mu.Unlock() }

func (x *c07ReactWriter) idle() bool {
	x.mu.Lock()
	defer x.mu.Unlock()
	return x.dispatched == x.finished
}

func (x *c07ReactWriter) take() (recs []*c07Reaction, expired int) {
	x.mu.Lock()
	defer x.mu.Unlock()
	recs, expired = x.recs, x.expired
	x.recs, x.expired = nil, 0
	return
}

// reader is the peer's connection-reader goroutine: messages of this connection are delivered by it (inside a
// window) or by the case's goroutine (outside of any window), never by both at once.
func (x *c07ReactWriter) reader(p *rig.Peer, local *spine.DeviceLocal) {
	defer close(x.gone)
	for {
		select {
		case <-x.quit:
			return
		case ev := <-x.ev:
			x.mu.Lock()
			pl := x.plan
			x.mu.Unlock()
			rec := &c07Reaction{ev: ev}
			// 1. the complete detailed discovery data
			rec.discCall = rig.Seq()
			rec.discMc = p.Send(model.CmdClassifierTypeRead, p.NM(), rig.LNM, false, nil, model.CmdType{NodeManagementDetailedDiscoveryData: &model.NodeManagementDetailedDiscoveryDataType{}})
			rec.discRet = rig.Seq()
			if ev.state == model.NetworkManagementStateChangeTypeAdded {
				// 2. every announced address resolves
				for _, a := range ev.anns {
					f := local.FeatureByAddress(a)
					if rig.IsNil(f) {
						rec.unresolved = append(rec.unresolved, a.String()+" -> nil")
					} else if f.Address().String() != a.String() {
						rec.unresolved = append(rec.unresolved, a.String()+" -> "+f.Address().String())
					} else {
						rec.resolved++
					}
					// the same address without its (optional) device part is the same feature
					if f2 := local.FeatureByAddress(rkStripDevice(a)); !rig.IsNil(f) && f2 != f {
						if rig.IsNil(f2) {
							rec.unresolved = append(rec.unresolved, a.String()+" without device part -> nil")
						} else {
							rec.unresolved = append(rec.unresolved, a.String()+" without device part -> another feature object ("+f2.Address().String()+")")
						}
					}
				}
				// 3. a read addressed to a feature of the announced entity
				if pl.featAddr != nil {
					cp := pl
					rec.feat = &cp
					rec.featMc = p.Send(model.CmdClassifierTypeRead, p.NM(), pl.featAddr, false, nil, c07ReadCmd(pl.featFn))
				}
			}
			x.mu.Lock()
			x.recs = append(x.recs, rec)
			x.finished++
			x.mu.Unlock()
			close(ev.done)
		}
	}
}

func c07ReadCmd(fn model.FunctionType) model.CmdType {
	for _, fi := range rig.CmdFields() {
		if fi.Fn == fn {
			return rig.CmdFor(fn, reflect.New(fi.T).Interface())
		}
	}
	panic("harness: no command field for function " + string(fn))
}

// c07RespClass renders how a request was answered: reply / success / error:<number> / none / several.
func c07RespClass(res rig.Resp) string {
	switch {
	case len(res.All) == 0:
		return "none"
	case len(res.All) > 1:
		return fmt.Sprintf("several(%d)", len(res.All))
	case res.Replies == 1:
		return "reply"
	case res.Success == 1:
		return "success"
	case res.Errors == 1:
		d := res.All[0]
		if len(d.Payload.Cmd) == 1 && d.Payload.Cmd[0].ResultData != nil && d.Payload.Cmd[0].ResultData.ErrorNumber != nil {
			s := fmt.Sprintf("error:%d", *d.Payload.Cmd[0].ResultData.ErrorNumber)
			if d.Payload.Cmd[0].ResultData.Description != nil {
				s += fmt.Sprintf("(%s)", *d.Payload.Cmd[0].ResultData.Description)
			}
			return s
		}
		return "error:?"
	}
	return "other"
}

func c07Window(c *rig.Ctx) {
	r := c.Rand
	w := rig.NewWorld(c.Tag())
	defer w.Close()
	local := w.Local

	type ent struct {
		obj     *spine.EntityLocal
		addr    []uint
		key     string
		typ     model.EntityTypeType
		feats   []api.FeatureLocalInterface
		fallbk  map[uint]model.FunctionType // per feature number: a function of its type (used when it has none added)
		present bool
	}
	var ents []*ent
	var trace, kinds []string
	newEntity := func() *ent {
		var addr []uint
		for _, i := range r.Perm(len(c07EntDom)) {
			used := false
			for _, e := range ents {
				if e.key == c06Key(c07EntDom[i]) {
					used = true
				}
			}
			if !used {
				addr = c07EntDom[i]
				break
			}
		}
		if addr == nil {
			return nil
		}
		e := &ent{addr: addr, key: c06Key(addr), typ: c07EntTypes[r.Intn(len(c07EntTypes))], fallbk: map[uint]model.FunctionType{}}
		e.obj = spine.NewEntityLocal(local, e.typ, spine.NewAddressEntityType(addr), 4*time.Second)
		for _, ti := range r.Perm(len(c07Types))[:1+r.Intn(3)] {
			ro := model.RoleTypeServer
			if r.Intn(4) == 0 {
				ro = model.RoleTypeClient
			}
			f := e.obj.GetOrAddFeature(c07Types[ti], ro)
			fns := c06FnsOf(c07Types[ti])
			if len(fns) > 0 {
				e.fallbk[uint(*f.Address().Feature)] = fns[0].Fn
			}
			if ro == model.RoleTypeServer {
				for _, fi := range r.Perm(len(fns)) {
					if len(f.Operations()) >= 2 || r.Intn(3) == 0 {
						break
					}
					if fns[fi].Fn != model.FunctionTypeDeviceDiagnosisHeartbeatData {
						f.AddFunctionType(fns[fi].Fn, r.Intn(3) > 0, r.Intn(2) == 0)
					}
				}
			}
			e.feats = append(e.feats, f)
		}
		ents = append(ents, e)
		return e
	}
	for n := r.Intn(3); n > 0; n-- { // entities that exist before anybody subscribes
		e := newEntity()
		local.AddEntity(e.obj)
		e.present = true
		trace = append(trace, fmt.Sprintf("AddEntity %s (%d features) before the peers connect", e.key, len(e.feats)))
	}

	// peers, all subscribed to NodeManagement; a seeded subset (at least one) is reactive
	nSub := 1 + r.Intn(3)
	forced := r.Intn(nSub)
	writers := make([]*c07ReactWriter, nSub)
	mask := ""
	for i := 0; i < nSub; i++ {
		var p *rig.Peer
		if i == forced || r.Intn(3) > 0 {
			x := newC07ReactWriter()
			p = xAddPeer(w, i, func(tap *rig.Tap) xWriter { x.tap = tap; return x })
			writers[i] = x
			go x.reader(p, local)
			defer func() { x.disarm(); close(x.quit); <-x.gone }()
			mask += "R"
		} else {
			p = w.AddPeer(i)
			mask += "p"
		}
		p.Ctr = uint64(i+1) * 100000
		p.Announce([]rig.FS{rig.NMFS})
		mc := p.Subscribe(p.NM(), rig.LNM, model.FeatureTypeTypeNodeManagement)
		if res := rig.Classify(p.Tap.Take(), mc); res.Success != 1 {
			c.Inconclusive("setup: NodeManagement subscription of peer%d was not acknowledged (%s)", i, res)
			return
		}
	}
	trace = append(trace, fmt.Sprintf("%d peers subscribed to NodeManagement (R = slow writer + reader goroutine, p = plain): %s", nSub, mask))

	fail := func(sig, format string, a ...any) {
		c.Violate(sig, "%s\n history so far (last is the failing step):\n   %s", fmt.Sprintf(format, a...), strings.Join(trace, "\n   "))
		c.Witness(map[string]any{"history": trace})
	}

	// reference rendering of the device tree
	wantTree := func() (wantE, wantF []string) {
		wantE = append(wantE, "[0]")
		wantF = append(wantF, c07E0Lines()...)
		for _, e := range ents {
			if e.present {
				wantE = append(wantE, e.key)
				for _, f := range e.feats {
					wantF = append(wantF, c07ApiLine(f))
				}
			}
		}
		sort.Strings(wantE)
		sort.Strings(wantF)
		return
	}
	replyTree := func(dd *model.NodeManagementDetailedDiscoveryDataType) (gotE, gotF []string) {
		for _, ei := range dd.EntityInformation {
			if ei.Description != nil && ei.Description.EntityAddress != nil {
				gotE = append(gotE, c06KeyM(ei.Description.EntityAddress.Entity))
			}
		}
		for _, fi := range dd.FeatureInformation {
			l, _ := c07InfoLine(fi.Description)
			gotF = append(gotF, l)
		}
		sort.Strings(gotE)
		sort.Strings(gotF)
		return
	}
	has := func(ks []string, k string) bool {
		for _, x := range ks {
			if x == k {
				return true
			}
		}
		return false
	}

	winAdded, winRemoved := 0, 0
	nOps := 5 + r.Intn(4)
	for step := 0; step < nOps && !c.Failed(); step++ {
		var ps, ab []*ent
		for _, e := range ents {
			if e.present {
				ps = append(ps, e)
			} else {
				ab = append(ab, e)
			}
		}
		var e *ent
		add := false
		switch op := r.Intn(10); {
		case op < 3 && len(ab) > 0 && len(ps) < 4:
			e, add = ab[r.Intn(len(ab))], true
			kinds = append(kinds, fmt.Sprintf("readd%d", len(e.feats)))
		case (op < 6 || len(ps) == 0) && len(ps) < 4 && len(ents) < len(c07EntDom):
			e, add = newEntity(), true
			kinds = append(kinds, fmt.Sprintf("add%d", len(e.feats)))
		case len(ps) > 0:
			e = ps[r.Intn(len(ps))]
			kinds = append(kinds, "remove")
		default:
			continue
		}
		// the planned reaction of every reactive peer
		for i, x := range writers {
			w.Peers[i].Tap.Take()
			if x == nil {
				continue
			}
			pl := c07WinPlan{}
			if add && len(e.feats) > 0 {
				f := e.feats[r.Intn(len(e.feats))]
				id := uint(*f.Address().Feature)
				var fns []model.FunctionType
				for fn := range f.Operations() {
					fns = append(fns, fn)
				}
				sort.Slice(fns, func(i, j int) bool { return fns[i] < fns[j] })
				if len(fns) > 0 {
					pl = c07WinPlan{rig.FA(rig.LocalAddr, e.addr, id), fns[r.Intn(len(fns))]}
				} else if fb, ok := e.fallbk[id]; ok {
					pl = c07WinPlan{rig.FA(rig.LocalAddr, e.addr, id), fb}
				}
			}
			x.arm(pl)
		}
		what := "RemoveEntity " + e.key
		state := model.NetworkManagementStateChangeTypeRemoved
		if add {
			what, state = fmt.Sprintf("AddEntity %s (%d features)", e.key, len(e.feats)), model.NetworkManagementStateChangeTypeAdded
		}
		callSeq := rig.Seq()
		ok, panicked := rig.Guard(90*time.Second, func() {
			if add {
				local.AddEntity(e.obj)
			} else {
				local.RemoveEntity(e.obj)
			}
		})
		retSeq := rig.Seq()
		e.present = add
		trace = append(trace, fmt.Sprintf("[%d,%d] %s", callSeq, retSeq, what))
		if panicked != "" {
			fail("window/panic", "%s: %s", what, panicked)
			return
		}
		if !ok {
			c.Inconclusive("%s did not return within 90s", what)
			return
		}
		for i, x := range writers {
			if x == nil {
				continue
			}
			if !rig.WaitFor(60*time.Second, x.idle) {
				c.Inconclusive("%s: the reader goroutine of peer%d did not finish its reaction within 60s", what, i)
				return
			}
			x.disarm()
		}
		wantE, wantF := wantTree()
		for i, x := range writers {
			p := w.Peers[i]
			if n := p.PanicCount(); n > 0 {
				fail("window/panic", "%s: the stack panicked while handling a message of peer%d: %s", what, i, p.Panics[n-1])
				return
			}
			if x == nil {
				continue
			}
			recs, expired := x.take()
			if expired > 0 {
				c.Count("window_waits_expired", int64(expired))
				c.Inconclusive("%s: the write of the notification to peer%d was released by the watchdog (%v) before the peer's reads had been answered", what, i, x.max)
				return
			}
			if len(recs) == 0 {
				c.Count("windows_not_forced:no_entity_notification_reached_the_reactive_peer", 1)
				continue
			}
			// the control: the same reads once more, now that the call has returned (this goroutine delivers; the reader is idle)
			ctlMc := map[*c07Reaction]model.MsgCounterType{}
			for _, rec := range recs {
				if rec.feat != nil {
					ctlMc[rec] = p.Send(model.CmdClassifierTypeRead, p.NM(), rec.feat.featAddr, false, nil, c07ReadCmd(rec.feat.featFn))
				}
			}
			outs := p.Tap.Take()
			for _, rec := range recs {
				ev := rec.ev
				if ev.ent != e.key || ev.state != state {
					c.Count("windows_on_another_entity_notification", 1)
					continue
				}
				c.Count("windows_forced:"+string(state), 1)
				wd := fmt.Sprintf("peer%d was handed the '%s %s' notification at stamp %d (inside the call [%d,%d]) and sent a discovery read at [%d,%d]", i, state, ev.ent, ev.seq, callSeq, retSeq, rec.discCall, rec.discRet)
				res := rig.Classify(outs, rec.discMc)
				var dd *model.NodeManagementDetailedDiscoveryDataType
				if res.Replies == 1 && res.Errors == 0 && len(res.All) == 1 && len(res.All[0].Payload.Cmd) == 1 {
					dd = res.All[0].Payload.Cmd[0].NodeManagementDetailedDiscoveryData
				}
				if dd == nil {
					fail("window/"+string(state)+"/discovery-read-not-answered-with-one-reply", "%s: %s", wd, c07RespClass(res))
					continue
				}
				gotE, gotF := replyTree(dd)
				c.Events(int64(1 + len(gotE) + len(gotF)))
				switch {
				case add && !has(gotE, e.key):
					fail("window/added/discovery-reply-lacks-the-announced-entity", "%s; the reply lists the entities %v, the device has %v", wd, gotE, wantE)
				case !add && has(gotE, e.key):
					fail("window/removed/discovery-reply-still-lists-the-removed-entity", "%s; the reply lists the entities %v, the device has %v", wd, gotE, wantE)
				case strings.Join(gotE, " ") != strings.Join(wantE, " "):
					fail("window/"+string(state)+"/discovery-reply-entities-differ", "%s; the reply lists the entities %v, the device has %v", wd, gotE, wantE)
				case strings.Join(gotF, "\n") != strings.Join(wantF, "\n"):
					fail("window/"+string(state)+"/discovery-reply-features/"+c07DiffSig(wantF, gotF), "%s; the announced features differ from the tree:\n%s", wd, c06Diff(wantF, gotF))
				}
				if add {
					winAdded++
					c.Events(int64(rec.resolved + len(rec.unresolved)))
					if len(rec.unresolved) > 0 {
						fail("window/added/announced-address-does-not-resolve", "%s; FeatureByAddress inside the window: %v", wd, rec.unresolved)
					}
					if len(ev.anns) != len(e.feats) {
						c.Count("windows_where_the_notification_announced_another_feature_count", 1)
					}
					if rec.feat != nil {
						in, ctl := c07RespClass(rig.Classify(outs, rec.featMc)), c07RespClass(rig.Classify(outs, ctlMc[rec]))
						c.Events(2)
						c.Count("window_feature_reads:"+strings.SplitN(in, "(", 2)[0], 1)
						if strings.SplitN(in, "(", 2)[0] != strings.SplitN(ctl, "(", 2)[0] {
							sig := "window/added/read-to-announced-feature-answered-differently-than-after-the-call"
							if strings.HasPrefix(in, "error") && ctl == "reply" {
								sig = "window/added/read-to-announced-feature-rejected"
							}
							fail(sig, "%s and a read of %s to the announced feature %s: answered with %s inside the window, with %s after AddEntity returned", wd, rec.feat.featFn, rkKey(rec.feat.featAddr), in, ctl)
						}
					}
				} else {
					winRemoved++
				}
			}
		}
	}
	h := fnv.New64a()
	h.Write([]byte(strings.Join(kinds, ";")))
	c.Shape(fmt.Sprintf("%s %x", mask, h.Sum64()))
	c.NonTrivial(winAdded >= 1 && winRemoved >= 1)
	c.Count("window_reactions_judged:added", int64(winAdded))
	c.Count("window_reactions_judged:removed", int64(winRemoved))
	c.Sample(map[string]any{"peers": mask, "history": trace, "operation_kinds": kinds, "windows_added": winAdded, "windows_removed": winRemoved})
}

// ---- AddEntity / RemoveEntity of DIFFERENT entities at the same time

// c07StageWriter is the connection writer of the peer whose server features the local client features subscribe and
// bind to. RemoveEntity unsubscribes / unbinds them (one call per subscription / binding) while it cleans the entity
// up. Free flavour: the writer yields the processor a few times per write (a connection that is not instantaneous).
// Staged flavour: the first subscription / binding delete call whose client address lies in the entity `key` is parked
// (bounded by max) until the harness releases it: the other calls of the round run and return in between.
type c07StageWriter struct {
	tap   *rig.Tap
	max   time.Duration
	yield int

	mu      sync.Mutex
	key     string // "" = not armed
	parked  chan struct{}
	release chan struct{}
	expired bool
}

func (x *c07StageWriter) arm(key string) (parked, release chan struct{}) {
	x.mu.Lock()
	defer x.mu.Unlock()
	x.key, x.parked, x.release, x.expired = key, make(chan struct{}), make(chan struct{}), false
	return x.parked, x.release
}

func (x *c07StageWriter) disarm() (expired bool) {
	x.mu.Lock()
	defer x.mu.Unlock()
	x.key = ""
	return x.expired
}

func (x *c07StageWriter) WriteShipMessageWithPayload(m []byte) {
	x.mu.Lock()
	key, parked, release := x.key, x.parked, x.release
	x.mu.Unlock()
	if key != "" {
		var d model.Datagram
		if json.Unmarshal(m, &d) == nil && len(d.Datagram.Payload.Cmd) == 1 {
			cmd := d.Datagram.Payload.Cmd[0]
			var cl *model.FeatureAddressType
			if cmd.NodeManagementSubscriptionDeleteCall != nil && cmd.NodeManagementSubscriptionDeleteCall.SubscriptionDelete != nil {
				cl = cmd.NodeManagementSubscriptionDeleteCall.SubscriptionDelete.ClientAddress
			}
			if cmd.NodeManagementBindingDeleteCall != nil && cmd.NodeManagementBindingDeleteCall.BindingDelete != nil {
				cl = cmd.NodeManagementBindingDeleteCall.BindingDelete.ClientAddress
			}
			if cl != nil && c06KeyM(cl.Entity) == key {
				x.mu.Lock()
				mine := x.key == key
				if mine {
					x.key = ""
				}
				x.mu.Unlock()
				if mine {
					close(parked)
					select {
					case <-release:
					case <-time.After(x.max):
						x.mu.Lock()
						x.expired = true
						x.mu.Unlock()
					}
				}
			}
		}
	} else {
		for i := 0; i < x.yield; i++ {
			runtime.Gosched()
		}
	}
	x.tap.WriteShipMessageWithPayload(m)
}

// c07EntConc: several goroutines add and remove DIFFERENT entities of one local device at the same time. Operations on
// different entity addresses commute, so at the quiescent point after every round the device is what the last
// acknowledged (returned) call per entity address made it: Entities(), the detailed discovery reply and
// FeatureByAddress agree with that, and every peer subscribed to NodeManagement got exactly one "added" (with the
// features) resp. "removed" notification per call.
func c07EntConc(c *rig.Ctx) {
	r := c.Rand
	w := rig.NewWorld(c.Tag())
	defer w.Close()
	local := w.Local

	var trace []string
	fail := func(sig, format string, a ...any) {
		c.Violate(sig, "%s\n history so far (last is the failing round):\n   %s", fmt.Sprintf(format, a...), strings.Join(trace, "\n   "))
		c.Witness(map[string]any{"history": trace})
	}

	// peers: 0 and 1 offer server features (the local client features subscribe / bind to them); peer 0 has the staged /
	// yielding writer. A seeded subset (at least one) of the 2-3 peers is subscribed to NodeManagement.
	nPeers := 2 + r.Intn(2)
	sw := &c07StageWriter{max: 15 * time.Second, yield: r.Intn(4)}
	srvFeats := []rig.FS{rig.NMFS,
		{Ent: []uint{1}, Id: 1, Typ: model.FeatureTypeTypeLoadControl, Role: model.RoleTypeServer},
		{Ent: []uint{1}, Id: 2, Typ: model.FeatureTypeTypeMeasurement, Role: model.RoleTypeServer},
		{Ent: []uint{2}, Id: 1, Typ: model.FeatureTypeTypeLoadControl, Role: model.RoleTypeServer},
		{Ent: []uint{1, 1}, Id: 1, Typ: model.FeatureTypeTypeMeasurement, Role: model.RoleTypeServer}}
	var peers []*rig.Peer
	subscribed := make([]bool, nPeers)
	forcedSub := r.Intn(nPeers)
	mask := ""
	for i := 0; i < nPeers; i++ {
		var p *rig.Peer
		if i == 0 {
			p = xAddPeer(w, i, func(tap *rig.Tap) xWriter { sw.tap = tap; return sw })
		} else {
			p = w.AddPeer(i)
		}
		p.Ctr = uint64(i+1) * 100000
		p.Announce(srvFeats)
		subscribed[i] = i == forcedSub || r.Intn(3) > 0
		if subscribed[i] {
			mc := p.Subscribe(p.NM(), rig.LNM, model.FeatureTypeTypeNodeManagement)
			if res := rig.Classify(p.Tap.Take(), mc); res.Success != 1 {
				c.Inconclusive("setup: NodeManagement subscription of peer%d was not acknowledged (%s)", i, res)
				return
			}
			mask += "S"
		} else {
			mask += "-"
		}
		peers = append(peers, p)
	}
	trace = append(trace, fmt.Sprintf("%d peers (S = subscribed to NodeManagement): %s; peer0's writer yields %d times per write", nPeers, mask, sw.yield))

	// the entities: every one has a LoadControl and a Measurement client feature (they subscribe / bind to the peers'
	// server features before a removal, so that the clean-up inside RemoveEntity has calls to send), 1-3 server
	// features with functions, and (two in three) a use case
	type slot struct {
		obj     *spine.EntityLocal
		addr    []uint
		key     string
		typ     model.EntityTypeType
		feats   []*c07RF
		lines   []string
		cli     []api.FeatureLocalInterface
		useCase bool
		present bool
	}
	nSlots := 4 + r.Intn(3)
	var slots []*slot
	for i := 0; i < nSlots; i++ {
		sl := &slot{addr: c07EntDom[i], key: c06Key(c07EntDom[i]), typ: c07EntTypes[r.Intn(len(c07EntTypes))], useCase: r.Intn(3) > 0}
		sl.obj = spine.NewEntityLocal(local, sl.typ, spine.NewAddressEntityType(sl.addr), 4*time.Second)
		re := &c07RE{addr: sl.addr}
		add := func(t model.FeatureTypeType, ro model.RoleType) *c07RF {
			f := &c07RF{typ: t, role: ro, ops: map[model.FunctionType][2]bool{}}
			f.obj = sl.obj.GetOrAddFeature(t, ro)
			f.id = uint(*f.obj.Address().Feature)
			s := fmt.Sprintf("%s-%d", sl.key, f.id)
			f.obj.SetDescriptionString(s)
			f.desc = &s
			if ro == model.RoleTypeServer {
				for n, fi := range c06FnsOf(t) {
					if n >= 2 || fi.Fn == model.FunctionTypeDeviceDiagnosisHeartbeatData {
						break
					}
					rd, wr := r.Intn(3) > 0, r.Intn(2) == 0
					f.obj.AddFunctionType(fi.Fn, rd, wr)
					f.ops[fi.Fn] = [2]bool{rd, wr}
				}
			}
			sl.feats = append(sl.feats, f)
			sl.lines = append(sl.lines, f.line(re))
			return f
		}
		sl.cli = append(sl.cli, add(model.FeatureTypeTypeLoadControl, model.RoleTypeClient).obj, add(model.FeatureTypeTypeMeasurement, model.RoleTypeClient).obj)
		for _, ti := range r.Perm(len(c07Types))[:1+r.Intn(3)] {
			add(c07Types[ti], model.RoleTypeServer)
		}
		sort.Strings(sl.lines)
		slots = append(slots, sl)
		if r.Intn(2) == 0 {
			local.AddEntity(sl.obj)
			sl.present = true
		}
	}
	for _, p := range peers {
		p.Tap.Take()
	}
	{
		var ks []string
		for _, sl := range slots {
			ks = append(ks, fmt.Sprintf("%s(%d features, present=%v)", sl.key, len(sl.feats), sl.present))
		}
		trace = append(trace, "entities: "+strings.Join(ks, " "))
	}
	// prepare lets the client features of sl subscribe and bind to server features of peer pi
	prepare := func(sl *slot, pi int) int {
		p := peers[pi]
		n := 0
		for _, sf := range srvFeats[1:] {
			for _, cf := range sl.cli {
				if cf.Type() != sf.Typ {
					continue
				}
				ra := rig.FA(p.Addr, sf.Ent, sf.Id)
				if _, err := cf.SubscribeToRemote(ra); err == nil {
					n++
				}
				if _, err := cf.BindToRemote(ra); err == nil {
					n++
				}
			}
		}
		return n
	}

	// answer lets a peer acknowledge the calls it received (an unanswered request stays in the sender's cache of open
	// requests, and an identical later call - the same entity removed a second time - would not be sent again)
	answer := func(p *rig.Peer, outs []model.DatagramType) {
		for _, d := range outs {
			if d.Header.CmdClassifier != nil && *d.Header.CmdClassifier == model.CmdClassifierTypeCall && d.Header.MsgCounter != nil {
				p.Send(model.CmdClassifierTypeResult, p.NM(), rig.LNM, false, d.Header.MsgCounter, model.CmdType{ResultData: &model.ResultDataType{ErrorNumber: util.Ptr(model.ErrorNumberType(0))}})
			}
		}
	}
	type opRec struct {
		sl     *slot
		add    bool
		staged bool // the call whose clean-up is parked while the others run
	}
	rounds, stagedForced, stagedNot, opsDone := 0, 0, 0, 0
	var kinds []string
	nRounds := 4 + r.Intn(4)
	for round := 0; round < nRounds && !c.Failed(); round++ {
		// the operations of this round: 2-4 different entities, each toggled (present -> RemoveEntity, absent -> AddEntity);
		// one goroutine per entity, in one round in three a goroutine toggles its entity twice (the last call decides)
		perm := r.Perm(nSlots)
		m := 2 + r.Intn(3)
		if m > nSlots {
			m = nSlots
		}
		var ops [][]opRec
		staged := r.Intn(2) == 0
		var stagedOp *opRec
		for _, si := range perm[:m] {
			sl := slots[si]
			seq := []opRec{{sl: sl, add: !sl.present}}
			if !staged && r.Intn(3) == 0 {
				seq = append(seq, opRec{sl: sl, add: sl.present})
			}
			ops = append(ops, seq)
		}
		if staged {
			// the staged call is a RemoveEntity (of an entity that is present); without one the round is a free one
			staged = false
			for i := range ops {
				if !ops[i][0].add {
					ops[i][0].staged = true
					stagedOp = &ops[i][0]
					staged = true
					break
				}
			}
		}
		// preparation (sequential): use case and client-side subscriptions / bindings of the entities about to be removed
		for i := range ops {
			for _, o := range ops[i] {
				if o.add {
					continue
				}
				if o.sl.useCase {
					o.sl.obj.AddUseCaseSupport(model.UseCaseActorTypeCEM, model.UseCaseNameTypeLimitationOfPowerConsumption, "1.0.0", "release", true, []model.UseCaseScenarioSupportType{1, 2})
				}
				if staged && !o.staged {
					continue // its clean-up must not need the connection on which the staged call is parked
				}
				if o.staged {
					prepare(o.sl, 0)
				} else {
					prepare(o.sl, r.Intn(2))
				}
				break
			}
		}
		for _, p := range peers {
			answer(p, p.Tap.Take())
			p.Tap.Take()
		}
		var rd []string
		for i := range ops {
			for _, o := range ops[i] {
				s := "RemoveEntity " + o.sl.key
				if o.add {
					s = "AddEntity " + o.sl.key
				}
				if o.staged {
					s += " (staged: its first unsubscribe/unbind call to peer0 stays parked in the connection writer until the other calls of the round have returned)"
				}
				rd = append(rd, fmt.Sprintf("g%d: %s", i, s))
			}
		}
		trace = append(trace, fmt.Sprintf("round %d, concurrently: %s", round, strings.Join(rd, "; ")))

		call := func(o opRec) {
			if o.add {
				local.AddEntity(o.sl.obj)
			} else {
				local.RemoveEntity(o.sl.obj)
			}
		}
		var parked, release chan struct{}
		if staged {
			parked, release = sw.arm(stagedOp.sl.key)
		}
		var arrive atomic.Int32
		stagedDone := make(chan struct{})
		ok, panicked := rig.Guard(90*time.Second, func() {
			var wg, others sync.WaitGroup
			for i := range ops {
				wg.Add(1)
				isStaged := staged && ops[i][0].staged
				if staged && !isStaged {
					others.Add(1)
				}
				go func(seq []opRec, isStaged bool) {
					defer wg.Done()
					switch {
					case !staged:
						arrive.Add(1)
						for spin := 0; int(arrive.Load()) < len(ops) && spin < 50_000_000; spin++ {
							runtime.Gosched()
						}
					case isStaged:
						defer close(stagedDone)
					default:
						defer others.Done()
						select { // the others start once the staged call is inside its clean-up (or, watchdog, has returned)
						case <-parked:
						case <-stagedDone:
						}
					}
					for _, o := range seq {
						call(o)
					}
				}(ops[i], isStaged)
			}
			if staged {
				others.Wait()
				close(release)
			}
			wg.Wait()
		})
		if panicked != "" {
			fail("entity-conc/panic", "%s", panicked)
			return
		}
		if !ok {
			c.Inconclusive("round %d: concurrent AddEntity / RemoveEntity calls did not return within 90s", round)
			return
		}
		if staged {
			forcedNow := false
			select {
			case <-parked:
				forcedNow = true
			default:
			}
			if sw.disarm() {
				c.Count("staged_rounds_released_by_the_watchdog", 1)
				forcedNow = false
			}
			if forcedNow {
				stagedForced++
			} else {
				stagedNot++
			}
		}
		rounds++
		// the last acknowledged call per entity address decides
		changed := map[*slot]bool{}
		for i := range ops {
			for _, o := range ops[i] {
				o.sl.present = o.add
				changed[o.sl] = true
				opsDone++
			}
		}
		kinds = append(kinds, fmt.Sprintf("%d%v", len(ops), staged))

		// (1) Entities()
		var wantE, gotE []string
		wantE = append(wantE, "[0]")
		for _, sl := range slots {
			if sl.present {
				wantE = append(wantE, sl.key)
			}
		}
		for _, e := range local.Entities() {
			gotE = append(gotE, c06KeyM(e.Address().Entity))
		}
		sort.Strings(wantE)
		sort.Strings(gotE)
		c.Events(int64(len(gotE)))
		lostOrBack := func(got []string) string {
			g := map[string]int{}
			for _, k := range got {
				g[k]++
			}
			for _, sl := range slots {
				switch {
				case sl.present && g[sl.key] == 0 && changed[sl]:
					return "entity-added-in-this-round-is-missing"
				case sl.present && g[sl.key] == 0:
					return "untouched-entity-is-missing"
				case !sl.present && g[sl.key] > 0 && changed[sl]:
					return "entity-removed-in-this-round-is-still-there"
				case !sl.present && g[sl.key] > 0:
					return "entity-removed-earlier-is-back"
				case g[sl.key] > 1:
					return "entity-listed-twice"
				}
			}
			return "other"
		}
		if strings.Join(wantE, " ") != strings.Join(gotE, " ") {
			fail("entity-conc/entities/"+lostOrBack(gotE), "after all calls of round %d returned, Entities() holds %v; the last acknowledged call per entity address leaves %v", round, gotE, wantE)
			break
		}
		for _, sl := range slots {
			got := local.Entity(spine.NewAddressEntityType(sl.addr))
			if sl.present && got != api.EntityLocalInterface(sl.obj) || !sl.present && got != nil {
				fail("entity-conc/entity-lookup", "after round %d: Entity(%s) = %v, present=%v", round, sl.key, got != nil, sl.present)
			}
		}
		// (2) the discovery reply, read by a seeded peer
		p := peers[r.Intn(nPeers)]
		mc := p.Send(model.CmdClassifierTypeRead, p.NM(), rig.LNM, false, nil, model.CmdType{NodeManagementDetailedDiscoveryData: &model.NodeManagementDetailedDiscoveryDataType{}})
		// (the notifications of the round are in the taps as well: Classify picks the reply by its reference)
		var outsAll [][]model.DatagramType
		for _, q := range peers {
			outsAll = append(outsAll, q.Tap.Take())
		}
		var pOuts []model.DatagramType
		for i, q := range peers {
			if q == p {
				pOuts = outsAll[i]
			}
			answer(q, outsAll[i])
			q.Tap.Take()
		}
		res := rig.Classify(pOuts, mc)
		var dd *model.NodeManagementDetailedDiscoveryDataType
		if res.Replies == 1 && res.Errors == 0 && len(res.All) == 1 && len(res.All[0].Payload.Cmd) == 1 {
			dd = res.All[0].Payload.Cmd[0].NodeManagementDetailedDiscoveryData
		}
		if dd == nil {
			fail("entity-conc/read/not-one-reply", "discovery read after round %d: %s", round, c07RespClass(res))
			break
		}
		var gotR []string
		gotF := map[string][]string{}
		for _, ei := range dd.EntityInformation {
			if ei.Description != nil && ei.Description.EntityAddress != nil {
				gotR = append(gotR, c06KeyM(ei.Description.EntityAddress.Entity))
			}
		}
		for _, fi := range dd.FeatureInformation {
			if l, okL := c07InfoLine(fi.Description); okL {
				k := c06KeyM(fi.Description.FeatureAddress.Entity)
				gotF[k] = append(gotF[k], l)
			} else {
				fail("entity-conc/read/incomplete-feature-description", "%s", l)
			}
		}
		sort.Strings(gotR)
		c.Events(int64(len(gotR) + len(dd.FeatureInformation)))
		if strings.Join(wantE, " ") != strings.Join(gotR, " ") {
			fail("entity-conc/read/"+lostOrBack(gotR), "the discovery reply after round %d lists the entities %v; the last acknowledged call per entity address leaves %v", round, gotR, wantE)
			break
		}
		{
			fs, want0 := gotF["[0]"], c07E0Lines()
			sort.Strings(fs)
			sort.Strings(want0)
			if strings.Join(fs, "\n") != strings.Join(want0, "\n") {
				fail("entity-conc/read/features/"+c07DiffSig(want0, fs), "the discovery reply after round %d announces entity [0] with\n%s", round, c06Diff(want0, fs))
			}
		}
		for _, sl := range slots {
			if !sl.present {
				continue
			}
			fs := gotF[sl.key]
			sort.Strings(fs)
			if strings.Join(fs, "\n") != strings.Join(sl.lines, "\n") {
				fail("entity-conc/read/features/"+c07DiffSig(sl.lines, fs), "the discovery reply after round %d announces entity %s with\n%s", round, sl.key, c06Diff(sl.lines, fs))
			}
		}
		// (3) every feature address resolves to the feature (present entity) or to nothing (absent entity), in both forms
		for _, sl := range slots {
			for _, f := range sl.feats {
				for _, dev := range []string{rig.LocalAddr, ""} {
					a := rig.FA(dev, sl.addr, f.id)
					got := local.FeatureByAddress(a)
					c.Events(1)
					switch {
					case sl.present && got != f.obj:
						fail("entity-conc/resolve/announced-address-does-not-resolve", "after round %d: FeatureByAddress(%s) does not return the feature; entity %s is part of the device (last acknowledged call: AddEntity)", round, rkKey(a), sl.key)
					case !sl.present && !rig.IsNil(got):
						fail("entity-conc/resolve/address-of-a-removed-entity-still-resolves", "after round %d: FeatureByAddress(%s) returns a feature; the last acknowledged call for %s is RemoveEntity", round, rkKey(a), sl.key)
					}
				}
			}
			if c.Failed() {
				break
			}
		}
		// (4) one notification per call for every subscribed peer, none for the others
		for i := range peers {
			var got []string
			for _, d := range outsAll[i] {
				if len(d.Payload.Cmd) != 1 || d.Payload.Cmd[0].NodeManagementDetailedDiscoveryData == nil || d.Header.CmdClassifier == nil || *d.Header.CmdClassifier != model.CmdClassifierTypeNotify {
					continue
				}
				nd := d.Payload.Cmd[0].NodeManagementDetailedDiscoveryData
				fp, _ := d.Payload.Cmd[0].ExtractFilter()
				if fp == nil || fp.CmdControl == nil || fp.CmdControl.Partial == nil {
					fail("entity-conc/notify/not-a-partial-notify", "peer%d: %s", i, rig.JS(d))
					continue
				}
				if len(nd.EntityInformation) != 1 || nd.EntityInformation[0].Description == nil || nd.EntityInformation[0].Description.EntityAddress == nil || nd.EntityInformation[0].Description.LastStateChange == nil {
					fail("entity-conc/notify/entity-count", "peer%d: notification does not describe exactly one entity with its state change: %s", i, rig.JS(nd.EntityInformation))
					continue
				}
				ed := nd.EntityInformation[0].Description
				k := c06KeyM(ed.EntityAddress.Entity)
				got = append(got, fmt.Sprintf("%s %s", *ed.LastStateChange, k))
				if why := c07NotifyHeader(d, peers[i].NM()); why != "" {
					fail("entity-conc/notify/addressing", "peer%d subscribed with its feature [0]/0: %s; header %s", i, why, rig.JS(d.Header))
				}
				if *ed.LastStateChange == model.NetworkManagementStateChangeTypeAdded {
					var fl []string
					for _, fi := range nd.FeatureInformation {
						l, _ := c07InfoLine(fi.Description)
						fl = append(fl, l)
					}
					sort.Strings(fl)
					for _, sl := range slots {
						if sl.key == k && strings.Join(fl, "\n") != strings.Join(sl.lines, "\n") {
							fail("entity-conc/notify/added/features/"+c07DiffSig(sl.lines, fl), "peer%d: the 'added %s' notification of round %d announces\n%s", i, k, round, c06Diff(sl.lines, fl))
						}
					}
				}
			}
			c.Events(int64(len(got)))
			var want []string
			if subscribed[i] {
				for j := range ops {
					for _, o := range ops[j] {
						st := model.NetworkManagementStateChangeTypeRemoved
						if o.add {
							st = model.NetworkManagementStateChangeTypeAdded
						}
						want = append(want, fmt.Sprintf("%s %s", st, o.sl.key))
					}
				}
			}
			// per entity address the notifications follow the order of the calls (one goroutine per address); across addresses any order
			perAddr := func(xs []string) map[string]string {
				m := map[string]string{}
				for _, x := range xs {
					k := x[strings.Index(x, " ")+1:]
					m[k] += x[:strings.Index(x, " ")] + ","
				}
				return m
			}
			wm, gm := perAddr(want), perAddr(got)
			if !reflect.DeepEqual(wm, gm) {
				sig := "entity-conc/notify/subscribed-peer-not-one-per-call"
				if !subscribed[i] {
					sig = "entity-conc/notify/sent-to-unsubscribed-peer"
				}
				sort.Strings(want)
				sort.Strings(got)
				fail(sig, "round %d: peer%d (subscribed to NodeManagement: %v) received the entity notifications %v; the calls of the round were %v", round, i, subscribed[i], got, want)
			}
		}
	}
	h := fnv.New64a()
	h.Write([]byte(strings.Join(kinds, ";")))
	c.Shape(fmt.Sprintf("%s slots=%d %x forced=%d", mask, nSlots, h.Sum64(), stagedForced))
	c.NonTrivial(rounds >= 3 && stagedForced >= 1)
	c.Count("rounds_judged", int64(rounds))
	c.Count("concurrent_entity_calls", int64(opsDone))
	c.Count("staged_rounds:other_calls_ran_inside_the_clean-up_of_a_RemoveEntity", int64(stagedForced))
	c.Count("staged_rounds:not_forced", int64(stagedNot))
	if len(trace) > 14 {
		trace = trace[:14]
	}
	c.Sample(map[string]any{"history": trace, "peers": mask})
}

// ---- discovery reads concurrent with feature-level changes

// c07ReadFeat: "at every moment the reply lists ... its features with their type, role, description and the read/write
// operations of every function added to them". One goroutine (a peer) sends detailed discovery reads while the
// application adds functions (AddFunctionType), changes descriptions (SetDescriptionString) and creates further
// features (GetOrAddFeature) on entities that are part of the device. Every call is stamped with the rig's logical
// clock; the harness keeps, per feature, the sequence of its renderings (version k = after k calls concerning it).
// Every announced feature line must equal one of the versions that were current between the call and the return of
// that read; a read after quiescence must equal the final tree.
func c07ReadFeat(c *rig.Ctx) {
	r := c.Rand
	w := rig.NewWorld(c.Tag())
	defer w.Close()
	local := w.Local

	type feat struct {
		obj      api.FeatureLocalInterface
		addr     string
		ent      *spine.EntityLocal
		entAddr  []uint
		typ      model.FeatureTypeType
		desc     *string
		ops      map[model.FunctionType][2]bool
		versions []string // "" = the feature does not exist (yet)
		calls    [][2]int64
	}
	render := func(f *feat) string {
		return c07Line(f.addr, f.typ, model.RoleTypeServer, f.desc, f.ops)
	}
	var feats []*feat
	var ents []*spine.EntityLocal
	nEnt := 2 + r.Intn(2)
	used := map[string]bool{}
	for i := 0; i < nEnt; i++ {
		addr := []uint{uint(i + 1)}
		e := spine.NewEntityLocal(local, c07EntTypes[r.Intn(len(c07EntTypes))], spine.NewAddressEntityType(addr), 4*time.Second)
		for _, ti := range r.Perm(len(c07Types))[:2+r.Intn(2)] {
			t := c07Types[ti]
			fo := e.GetOrAddFeature(t, model.RoleTypeServer)
			s := fmt.Sprintf("initial-%d-%d", i, ti)
			fo.SetDescriptionString(s)
			f := &feat{obj: fo, addr: fo.Address().String(), ent: e, entAddr: addr, typ: t, desc: &s, ops: map[model.FunctionType][2]bool{}}
			f.versions = []string{render(f)}
			feats = append(feats, f)
			used[fmt.Sprintf("%d/%s", i, t)] = true
		}
		local.AddEntity(e)
		ents = append(ents, e)
	}
	p := w.AddPeer(0)
	p.Ctr = 100000
	p.Announce([]rig.FS{rig.NMFS})
	p.Tap.Take()

	// the plan of the application (drawn beforehand)
	type op struct {
		kind string // fn | desc | feature
		f    *feat
		fn   model.FunctionType
		rd   bool
		wr   bool
		s    string
		ei   int
	}
	var plan []op
	nOps := 40 + r.Intn(60)
	planned := map[*feat]map[model.FunctionType]bool{}
	var pending []*feat // features the plan creates (not yet in feats' initial set)
	for len(plan) < nOps {
		switch k := r.Intn(10); {
		case k < 6: // a further function
			all := append(append([]*feat(nil), feats...), pending...)
			f := all[r.Intn(len(all))]
			var cand []model.FunctionType
			for _, fi := range c06FnsOf(f.typ) {
				if fi.Fn != model.FunctionTypeDeviceDiagnosisHeartbeatData && !planned[f][fi.Fn] {
					cand = append(cand, fi.Fn)
				}
			}
			if len(cand) == 0 {
				plan = append(plan, op{kind: "desc", f: f, s: fmt.Sprintf("desc-%d", len(plan))})
				continue
			}
			fn := cand[r.Intn(len(cand))]
			if planned[f] == nil {
				planned[f] = map[model.FunctionType]bool{}
			}
			planned[f][fn] = true
			plan = append(plan, op{kind: "fn", f: f, fn: fn, rd: r.Intn(3) > 0, wr: r.Intn(2) == 0})
		case k < 9:
			all := append(append([]*feat(nil), feats...), pending...)
			plan = append(plan, op{kind: "desc", f: all[r.Intn(len(all))], s: fmt.Sprintf("desc-%d", len(plan))})
		default: // a further feature on an entity of the device
			ei := r.Intn(nEnt)
			t := c07Types[r.Intn(len(c07Types))]
			if used[fmt.Sprintf("%d/%s", ei, t)] {
				continue
			}
			used[fmt.Sprintf("%d/%s", ei, t)] = true
			f := &feat{ent: ents[ei], entAddr: []uint{uint(ei + 1)}, typ: t, ops: map[model.FunctionType][2]bool{}, versions: []string{""}}
			pending = append(pending, f)
			plan = append(plan, op{kind: "feature", f: f, ei: ei})
		}
	}
	all := append(append([]*feat(nil), feats...), pending...)
	delays := make([]int, len(plan))
	for i := range delays {
		delays[i] = r.Intn(120)
	}

	const nReads = 30
	type readRec struct {
		start, end int64
		mc         model.MsgCounterType
	}
	reads := make([]readRec, nReads)
	startC := make(chan struct{})
	var readsSent atomic.Int32
	ok, panicked := rig.Guard(60*time.Second, func() {
		var wg sync.WaitGroup
		wg.Add(2)
		go func() { // the application
			defer wg.Done()
			<-startC
			for oi, o := range plan {
				// pacing only: the calls are spread over the reads (call oi waits until read oi*nReads/len(plan) has been sent)
				for spin, target := 0, int32(oi*nReads/len(plan)); readsSent.Load() < target && spin < 2_000_000; spin++ {
					runtime.Gosched()
				}
				for k := 0; k < delays[oi]; k++ { // ... and lands somewhere inside the handling of that read
					runtime.Gosched()
				}
				f := o.f
				t0 := rig.Seq()
				switch o.kind {
				case "fn":
					f.obj.AddFunctionType(o.fn, o.rd, o.wr)
					f.ops[o.fn] = [2]bool{o.rd, o.wr}
				case "desc":
					f.obj.SetDescriptionString(o.s)
					s := o.s
					f.desc = &s
				case "feature":
					f.obj = f.ent.GetOrAddFeature(f.typ, model.RoleTypeServer)
					f.addr = f.obj.Address().String()
					if d := f.obj.Description(); d != nil { // whatever description the API gave it
						f.desc = util.Ptr(string(*d))
					}
				}
				t1 := rig.Seq()
				f.calls = append(f.calls, [2]int64{t0, t1})
				f.versions = append(f.versions, render(f))
			}
		}()
		go func() { // the peer
			defer wg.Done()
			<-startC
			for i := range reads {
				reads[i].start = rig.Seq()
				readsSent.Add(1)
				reads[i].mc = p.Send(model.CmdClassifierTypeRead, p.NM(), rig.LNM, false, nil, model.CmdType{NodeManagementDetailedDiscoveryData: &model.NodeManagementDetailedDiscoveryDataType{}})
				reads[i].end = rig.Seq()
			}
			readsSent.Add(1 << 20) // the remaining calls need not wait
		}()
		close(startC)
		wg.Wait()
	})
	if panicked != "" {
		c.Violate("read-feat/panic", "%s", panicked)
		return
	}
	if !ok {
		c.Inconclusive("concurrent reads / feature changes did not return within 60s")
		return
	}
	if n := p.PanicCount(); n > 0 {
		c.Violate("read-feat/panic", "%s", p.Panics[n-1])
		return
	}
	// (calls concerning a feature the plan creates are planned after its creation, and the application goroutine follows the plan in order)
	outs := p.Tap.Take()
	// the final read, after quiescence
	finalMc := p.Send(model.CmdClassifierTypeRead, p.NM(), rig.LNM, false, nil, model.CmdType{NodeManagementDetailedDiscoveryData: &model.NodeManagementDetailedDiscoveryDataType{}})
	outs = append(outs, p.Tap.Take()...)
	byAddr := map[string]*feat{}
	for _, f := range all {
		if f.addr != "" {
			byAddr[f.addr] = f
		}
	}
	overlapped := 0
	judge := func(i int, rd readRec, final bool) {
		res := rig.Classify(outs, rd.mc)
		c.Events(1)
		if res.Replies != 1 || res.Errors != 0 || len(res.All[0].Payload.Cmd) != 1 || res.All[0].Payload.Cmd[0].NodeManagementDetailedDiscoveryData == nil {
			c.Violate("read-feat/not-one-reply", "read %d: %s", i, res)
			return
		}
		dd := res.All[0].Payload.Cmd[0].NodeManagementDetailedDiscoveryData
		got := map[string]string{}
		for _, fi := range dd.FeatureInformation {
			l, okL := c07InfoLine(fi.Description)
			if !okL {
				c.Violate("read-feat/incomplete-feature-description", "read %d: %s", i, l)
				continue
			}
			a := fi.Description.FeatureAddress.String()
			if _, dup := got[a]; dup {
				c.Violate("read-feat/feature-announced-twice", "read %d announces %s twice", i, a)
			}
			got[a] = l
		}
		anyOverlap := false
		for _, f := range all {
			lo, hi := 0, 0
			for _, cl := range f.calls {
				if cl[1] < rd.start {
					lo++
				}
				if cl[0] < rd.end {
					hi++
				}
			}
			if final {
				lo, hi = len(f.calls), len(f.calls)
			}
			if hi > lo {
				anyOverlap = true
			}
			g := ""
			if f.addr != "" {
				g = got[f.addr]
			}
			match := false
			for v := lo; v <= hi; v++ {
				if f.versions[v] == g {
					match = true
				}
			}
			c.Events(1)
			if !match && !final && g != "" {
				// every FIELD of the line is one the feature had between call and return, but no state of the feature had
				// them together: the description of one state next to the operations of another
				gd, gops := c07LineFields(g)
				okD, okO := false, false
				for v := lo; v <= hi; v++ {
					if f.versions[v] == "" {
						continue
					}
					vd, vops := c07LineFields(f.versions[v])
					okD = okD || vd == gd
					okO = okO || vops == gops
				}
				if okD && okO {
					c.Violate("read-feat/torn-feature-line/description-and-operations-of-different-states", "a read overlapping feature changes (read %d, stamps [%d,%d]) announces\n   %s\n the feature was, between the call and the return of that read, one of\n   %s\n (calls concerning it, as [call,return] stamps: %v): the announced description and the announced operations were each current during the read, but never together",
						i, rd.start, rd.end, g, strings.Join(f.versions[lo:hi+1], "\n   "), f.calls)
					c.Witness(map[string]any{"feature": f.addr, "versions": f.versions, "calls": f.calls, "read": []int64{rd.start, rd.end}})
					c.Count("torn_feature_lines", 1)
					continue
				}
			}
			if !match {
				what := "a read overlapping feature changes"
				sig := "read-feat/feature-line-matches-no-state-of-the-feature"
				if final {
					what, sig = "the read after all calls had returned", "read-feat/final-read-differs-from-the-final-tree"
				}
				if g == "" {
					g = "(not announced)"
				}
				cls := "other"
				if len(f.versions[hi]) > 0 && g != "(not announced)" {
					cls = c07DiffSig([]string{f.versions[hi]}, []string{g})
				}
				c.Violate(sig+"/"+cls, "%s (read %d, stamps [%d,%d]) announces\n   %s\n the feature was, between the call and the return of that read, one of\n   %s\n (calls concerning it, as [call,return] stamps: %v)",
					what, i, rd.start, rd.end, g, strings.Join(f.versions[lo:hi+1], "\n   "), f.calls)
				c.Witness(map[string]any{"feature": f.addr, "versions": f.versions, "calls": f.calls, "read": []int64{rd.start, rd.end}})
				return
			}
		}
		// nothing else of the entities 1..n is announced
		for a := range got {
			if _, known := byAddr[a]; !known && !strings.Contains(a, ":[0]:") {
				c.Violate("read-feat/unknown-feature-announced", "read %d announces %s, which the application never created", i, a)
			}
		}
		if anyOverlap && !final {
			overlapped++
		}
	}
	for i, rd := range reads {
		if c.Failed() {
			break
		}
		judge(i, rd, false)
	}
	if !c.Failed() {
		judge(nReads, readRec{mc: finalMc}, true)
	}
	var kinds []string
	for _, o := range plan {
		kinds = append(kinds, o.kind[:2])
	}
	h := fnv.New64a()
	h.Write([]byte(strings.Join(kinds, "")))
	c.Shape(fmt.Sprintf("n=%d ops=%x overlapped=%d", nEnt, h.Sum64(), overlapped))
	c.NonTrivial(overlapped > 0)
	c.Count("reads_overlapping_a_feature_change", int64(overlapped))
	c.Count("feature_changes_during_reads", int64(len(plan)))
	c.Count("features_created_during_reads", int64(len(pending)))
	c.Sample(map[string]any{"entities": nEnt, "operations": kinds, "reads": nReads, "reads_overlapping_a_feature_change": overlapped})
}
