package checks

import (
	"fmt"
	"runtime"
	"sort"
	"strings"
	"sync"
	"time"

	"github.com/enbility/spine-go/api"
	"github.com/enbility/spine-go/model"
	"github.com/enbility/spine-go/spine"

	"verifharness/rig"
)

// C15, part "cross": two STACK operations on two different connections, each of which publishes an event, overlap in a
// forced way: the event of the first one is held at the core level (a harness core-level handler subscribed before the
// first connection, hence ahead of the local device in the handler list, stays inside HandleEvent) - the first publication
// holds the delivery lock and has not yet reached the stack's own core-level handler - while the second operation is
// started on another goroutine and runs as far as it gets (it publishes too, several of these operations publish from
// inside the subscription / binding manager). Then the held event is let go.
//
// Statement: "... without deadlock", "the stack's internal handlers have finished before publication returns", quantified
// over "publication from several goroutines at once". Verdicts:
//   - both operations return (no bound of its own: an operation that does not return parks the case for the parent's
//     hang monitor, hang@<frame>);
//   - every event of the case's connections that the core-level observer received reached the application-level handler
//     exactly once as well (both are subscribed for the whole case): multiset comparison after the process is quiet.
//
// Operations (first x second, always on different peers; the shape list is walked by the case index):
//   discovery   the first detailed discovery reply of a connected peer (DeviceChange/add, the local device reacts to it)
//   subscribe   a subscription request            bind     a binding request
//   unsubscribe a subscription delete call        unbind   a binding delete call
//   disconnect  the end of a connection that has a subscription and a binding
// Pacing only (never a verdict): the hold lasts until the second operation has returned, or a goroutine dump shows a
// second goroutine inside events.Publish, or 60 ms have passed.
type c15CrossOp struct {
	kind string
	peer int
}

func (o c15CrossOp) String() string { return fmt.Sprintf("%s(P%d)", o.kind, o.peer) }

var c15CrossShapes = func() (l [][2]c15CrossOp) {
	ops := []c15CrossOp{{"discovery", 2}, {"subscribe", 1}, {"bind", 1}, {"unsubscribe", 0}, {"unbind", 0}, {"disconnect", 0}}
	for _, a := range ops {
		for _, b := range ops {
			if a.peer != b.peer {
				l = append(l, [2]c15CrossOp{a, b})
			}
		}
	}
	return
}()

type c15CrossObserver struct {
	tag     string
	mu      sync.Mutex
	seen    map[string]int
	holdSki string
	held    bool
	entered chan struct{}
	gate    *eGate
}

func c15CrossKey(p api.EventPayload) string {
	return fmt.Sprintf("%s type=%d change=%d fn=%s", p.Ski, p.EventType, p.ChangeType, p.Function)
}

func (o *c15CrossObserver) HandleEvent(p api.EventPayload) {
	if !strings.HasPrefix(p.Ski, o.tag+"-ski") {
		return
	}
	o.mu.Lock()
	o.seen[c15CrossKey(p)]++
	hold := o.gate != nil && !o.held && p.Ski == o.holdSki
	if hold {
		o.held = true
	}
	o.mu.Unlock()
	if hold {
		close(o.entered)
		o.gate.wait()
	}
}

func (o *c15CrossObserver) snapshot() map[string]int {
	o.mu.Lock()
	defer o.mu.Unlock()
	m := map[string]int{}
	for k, v := range o.seen {
		m[k] = v
	}
	return m
}

func c15Cross(c *rig.Ctx) {
	r := c.Rand
	w := rig.NewWorld(c.Tag())
	defer w.Close()
	ent := w.AddEntity(model.EntityTypeTypeCEM, []uint{1}, 4*time.Second)
	feat := ent.GetOrAddFeature(model.FeatureTypeTypeMeasurement, model.RoleTypeServer)
	feat.AddFunctionType(model.FunctionTypeMeasurementListData, true, true)
	// a server feature accepts one binding: P1 addresses a second one
	ent2 := w.AddEntity(model.EntityTypeTypeCEM, []uint{2}, 4*time.Second)
	feat2 := ent2.GetOrAddFeature(model.FeatureTypeTypeMeasurement, model.RoleTypeServer)
	feat2.AddFunctionType(model.FunctionTypeMeasurementListData, true, true)

	shape := c15CrossShapes[c.Index%len(c15CrossShapes)]
	op1, op2 := shape[0], shape[1]

	// subscribed before the first connection: ahead of the local device in the handler list
	core := &c15CrossObserver{tag: c.Tag(), seen: map[string]int{}, entered: make(chan struct{}), gate: newEGate(90 * time.Second)}
	app := &c15CrossObserver{tag: c.Tag(), seen: map[string]int{}}
	_ = spine.VerifSubscribeCore(core)
	_ = spine.Events.Subscribe(app)
	defer func() {
		core.gate.open()
		_ = spine.VerifUnsubscribeCore(core)
		_ = spine.Events.Unsubscribe(app)
	}()

	feats := []rig.FS{rig.NMFS, {Ent: []uint{1}, Id: 1, Typ: model.FeatureTypeTypeMeasurement, Role: model.RoleTypeClient}}
	var peers []*rig.Peer
	for i := 0; i < 3; i++ {
		p := w.AddPeer(i)
		p.Ctr = uint64(i+1) * 100000
		peers = append(peers, p)
	}
	client := func(p *rig.Peer) *model.FeatureAddressType { return rig.FA(p.Addr, []uint{1}, 1) }
	// P0: announced, subscribed and bound; P1: announced; P2: connected only
	peers[0].Announce(feats)
	peers[0].Subscribe(client(peers[0]), feat.Address(), model.FeatureTypeTypeMeasurement)
	peers[0].Bind(client(peers[0]), feat.Address(), model.FeatureTypeTypeMeasurement)
	peers[1].Announce(feats)
	order := r.Intn(2) // which of the two is started first when nothing is held (control cases: one in six)
	control := r.Intn(6) == 0
	baseline := eStableGoroutines()
	c.Shape(fmt.Sprintf("cross held=%s other=%s control=%v", op1, op2, control))

	perform := func(o c15CrossOp) string {
		p := peers[o.peer]
		feat := feat
		if o.peer == 1 {
			feat = feat2
		}
		return eGuard(c, o.String(), func() {
			switch o.kind {
			case "discovery":
				p.Announce(feats)
			case "subscribe":
				p.Subscribe(client(p), feat.Address(), model.FeatureTypeTypeMeasurement)
			case "bind":
				p.Bind(client(p), feat.Address(), model.FeatureTypeTypeMeasurement)
			case "unsubscribe":
				p.Unsubscribe(client(p), feat.Address())
			case "unbind":
				p.Unbind(client(p), feat.Address())
			case "disconnect":
				w.Local.RemoveRemoteDeviceConnection(p.Ski)
			}
		})
	}
	before := core.snapshot()
	appBefore := app.snapshot()
	done1, done2 := make(chan string, 1), make(chan string, 1)
	isDone := func(ch chan string, into *string, flag *bool) bool {
		if *flag {
			return true
		}
		select {
		case s := <-ch:
			*into, *flag = s, true
		default:
		}
		return *flag
	}
	var pan1, pan2 string
	var fin1, fin2 bool
	heldForReal := false
	if control {
		core.mu.Lock()
		core.held = true // nothing is held
		core.mu.Unlock()
		first, second := op1, op2
		if order == 1 {
			first, second = op2, op1
		}
		go func() { done1 <- perform(first) }()
		go func() { done2 <- perform(second) }()
	} else {
		core.mu.Lock()
		core.holdSki = peers[op1.peer].Ski
		core.mu.Unlock()
		go func() { done1 <- perform(op1) }()
		select {
		case <-core.entered:
			heldForReal = true
		case pan1 = <-done1:
			fin1 = true
		}
		go func() { done2 <- perform(op2) }()
		if heldForReal {
			// pacing: let the second operation run as far as it gets
			waiting := false
			for i := 0; i < 60 && !isDone(done2, &pan2, &fin2) && !waiting; i++ {
				time.Sleep(time.Millisecond)
				runtime.Gosched()
				if i%3 == 2 {
					buf := make([]byte, 1<<18)
					buf = buf[:runtime.Stack(buf, true)]
					waiting = strings.Count(string(buf), "spine.(*events).Publish(") >= 2
				}
			}
			switch {
			case fin2:
				c.Count("cross:second_operation_returned_while_the_first_event_was_held", 1)
			case waiting:
				c.Count("cross:second_publication_seen_inside_Publish_while_the_first_event_was_held", 1)
				c.Seen("cross_forced_shapes", op1.kind+" held, "+op2.kind+" waiting inside Publish")
			default:
				c.Count("cross:second_operation_still_running_elsewhere_when_the_hold_ended", 1)
			}
			c.Count("cross:event_held_at_core_level:"+op1.kind, 1)
		} else {
			c.Count("cross:first_operation_published_nothing_for_its_peer:"+op1.kind, 1)
		}
		core.gate.open()
	}
	// both operations return: no bound here - a stuck operation parks the case for the parent's hang monitor
	if !fin1 {
		pan1 = <-done1
	}
	if !fin2 {
		pan2 = <-done2
	}
	for _, p := range []string{pan1, pan2} {
		if p != "" {
			c.Violate("cross/operation-panics", "%s and %s: %s", op1, op2, p)
			return
		}
	}
	if core.gate.expiries() > 0 {
		c.Inconclusive("the held event was not released within 90s")
		return
	}
	if !rig.WaitQuiet(baseline, 30*time.Second) {
		c.Inconclusive("goroutine count did not return to its baseline (%d, now %d) after %s and %s", baseline, runtime.NumGoroutine(), op1, op2)
		return
	}
	// every event the core-level observer received during the two operations reached the application handler exactly once
	// (the application-level deliveries run on goroutines of their own: should the end of a connection have lowered the
	// goroutine count below the baseline, the comparison waits for the stragglers - a watchdog that can only delay a verdict)
	same := func() bool {
		cs, as := core.snapshot(), app.snapshot()
		for k, v := range cs {
			if as[k]-appBefore[k] < v-before[k] {
				return false
			}
		}
		return true
	}
	if !rig.WaitFor(20*time.Second, same) {
		c.Count("cross:application_handler_behind_after_20s", 1)
	}
	coreSeen, appSeen := core.snapshot(), app.snapshot()
	var keys []string
	all := map[string]bool{}
	for k := range coreSeen {
		all[k] = true
	}
	for k := range appSeen {
		all[k] = true
	}
	for k := range all {
		keys = append(keys, k)
	}
	sort.Strings(keys)
	n := 0
	var log []string
	for _, k := range keys {
		dc, da := coreSeen[k]-before[k], appSeen[k]-appBefore[k]
		if dc == 0 && da == 0 {
			continue
		}
		n += dc
		c.Events(1)
		log = append(log, fmt.Sprintf("%s: core %d, application %d", strings.TrimPrefix(k, c.Tag()+"-"), dc, da))
		kind := k[strings.Index(k, " ")+1:]
		c.Seen("cross_event_kinds", kind)
		if dc != da {
			sig := "cross/application-handler-missed-event"
			if da > dc {
				sig = "cross/application-handler-received-event-more-often-than-core-handler"
			}
			c.Violate(sig, "%s overlapping %s (held=%v control=%v): event %q was received %d time(s) by the core-level observer and %d time(s) by the application-level handler, both subscribed for the whole case\n%s", op1, op2, heldForReal, control, k, dc, da, strings.Join(log, "\n"))
		}
	}
	c.Count("cross:events_compared", int64(n))
	c.NonTrivial(n >= 2 && (control || heldForReal))
	c.Sample(map[string]any{"held": op1.String(), "other": op2.String(), "control": control, "held_for_real": heldForReal, "events": log})
	if c.Failed() {
		c.Witness(map[string]any{"held": op1.String(), "other": op2.String(), "events": log})
	}
}
