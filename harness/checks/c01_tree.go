package checks

import (
	"fmt"
	"reflect"
	"strings"
	"sync"
	"time"

	"github.com/enbility/spine-go/api"
	"github.com/enbility/spine-go/model"
	"github.com/enbility/spine-go/spine"
	"github.com/enbility/spine-go/util"

	"verifharness/rig"
)

// C01, part "local-tree": the dimension "destination known/unknown" as a HISTORY. The matrix part asks for destinations
// that have always or never existed; here the application changes the local tree while peers are connected — entities
// are added, removed, added again under the same address with another feature layout and other data, features are
// added to an entity after a peer has asked for them in vain — and after every change the request kinds of the
// statement are sent to the addresses concerned (and to untouched neighbours with the same feature numbers). The table
// is the statement's: a destination feature that does not exist (any more / yet) gets exactly one error result, a read
// of a server or special feature that exists (again) exactly one reply carrying the data of THAT feature, an
// acknowledged notify to an existing client feature its one success result, a result nothing.
//
// A removal or an addition is either sequential, or it overlaps inbound datagrams for the very entity:
//   - "window": the application's RemoveEntity runs to completion while one datagram for a feature of that entity is
//     between the lookup of the destination entity and the use of the looked-up feature. The window is opened at the
//     public seam the message path crosses there: the entity is handed to the device as an api.EntityLocalInterface
//     implementation that embeds the real *spine.EntityLocal and gives the harness a one-shot callback before / after
//     the real FeatureOfAddress. No verdict depends on the callback having fired (it is counted).
//   - "concurrent": all three connections deliver a datagram for the entity while the application's goroutine removes /
//     adds it, released together, unforced.
//
// The datagram in flight may be served by the state before or after the change (exactly one of the two response sets);
// every datagram sent after the change has returned is judged by the state after it. "cold" histories make the
// in-flight datagram the first one ever sent to that address, "warm" ones address it beforehand.
type c01GateEntity struct {
	*spine.EntityLocal
	mu        sync.Mutex
	pre, post func()
	fired     int
}

func (e *c01GateEntity) take(which *func()) func() {
	e.mu.Lock()
	defer e.mu.Unlock()
	f := *which
	*which = nil
	if f != nil {
		e.fired++
	}
	return f
}

func (e *c01GateEntity) FeatureOfAddress(a *model.AddressFeatureType) api.FeatureLocalInterface {
	if f := e.take(&e.pre); f != nil {
		f()
	}
	res := e.EntityLocal.FeatureOfAddress(a)
	if f := e.take(&e.post); f != nil {
		f()
	}
	return res
}

func (e *c01GateEntity) arm(post bool, f func()) {
	e.mu.Lock()
	if post {
		e.post = f
	} else {
		e.pre = f
	}
	e.mu.Unlock()
}

func (e *c01GateEntity) disarm() (fired int) {
	e.mu.Lock()
	defer e.mu.Unlock()
	e.pre, e.post = nil, nil
	return e.fired
}

type c01TFeat struct {
	id   uint
	role model.RoleType
	f    api.FeatureLocalInterface
	rec  map[model.FunctionType]any // the harness's record of SetData (after one JSON round trip)
}

type c01TEntity struct {
	addr  []uint
	ge    *c01GateEntity
	feats []*c01TFeat
	gen   int
}

func (e *c01TEntity) feat(id uint) *c01TFeat {
	if e == nil {
		return nil
	}
	for _, f := range e.feats {
		if f.id == id {
			return f
		}
	}
	return nil
}

var c01TreeLayouts = [][]model.RoleType{
	{model.RoleTypeServer, model.RoleTypeClient},
	{model.RoleTypeClient, model.RoleTypeServer},
	{model.RoleTypeSpecial, model.RoleTypeServer},
	{model.RoleTypeServer},
	{model.RoleTypeClient, model.RoleTypeSpecial},
}

const c01TreeWatchdog = 60 * time.Second

func c01Tree(c *rig.Ctx) {
	types := c01Types()
	T := types[c.Index%len(types)]
	fns := rig.FunctionsOf(T)
	r := c.Rand
	w := rig.NewWorld(c.Tag())
	defer w.Close()

	// the stable neighbour [1]: server /1, client /2, never touched
	e1 := w.AddEntity(model.EntityTypeTypeCEM, []uint{1}, 4*time.Second)
	gen := 0
	addFeat := func(te *c01TEntity, inner *spine.EntityLocal, role model.RoleType) *c01TFeat {
		f := inner.GetOrAddFeature(T, role)
		tf := &c01TFeat{role: role, f: f, rec: map[model.FunctionType]any{}}
		if f.Address().Feature != nil {
			tf.id = uint(*f.Address().Feature)
		}
		if role != model.RoleTypeClient {
			for i, fn := range fns {
				f.AddFunctionType(fn.Fn, true, i%2 == 0)
			}
			if hm := inner.HeartbeatManager(); hm != nil {
				hm.StopHeartbeat()
			}
			for _, fn := range fns {
				if r.Intn(4) != 0 {
					v := rig.GenVal(r, reflect.PtrTo(fn.T), 0).Interface()
					f.SetData(fn.Fn, v)
					tf.rec[fn.Fn] = c01RT(fn, v)
				}
			}
		}
		te.feats = append(te.feats, tf)
		return tf
	}
	stable := &c01TEntity{addr: []uint{1}}
	addFeat(stable, e1, model.RoleTypeServer)
	addFeat(stable, e1, model.RoleTypeClient)

	for i := 0; i < 3; i++ {
		p := w.AddPeer(i)
		p.Ctr = uint64(i+1) * 100000
		p.Announce(c01Feats(T))
		p.Tap.Take()
	}
	sender := r.Intn(3)
	p := w.Peers[sender]
	// a prior state of subscriptions: one peer follows the local tree (the announcements of the changes are C07's subject)
	if r.Intn(2) == 0 {
		q := w.Peers[r.Intn(3)]
		q.Subscribe(q.NM(), rig.LNM, model.FeatureTypeTypeNodeManagement)
		q.Tap.Take()
	}
	w.Core.Take()

	build := func(addr []uint, layout int) *c01TEntity {
		gen++
		et := model.EntityTypeTypeEVSE
		if len(addr) > 1 {
			et = model.EntityTypeTypeEV
		}
		inner := spine.NewEntityLocal(w.Local, et, spine.NewAddressEntityType(addr), 4*time.Second)
		te := &c01TEntity{addr: addr, ge: &c01GateEntity{EntityLocal: inner}, gen: gen}
		for _, role := range c01TreeLayouts[layout] {
			addFeat(te, inner, role)
		}
		return te
	}

	slots := [][]uint{{2}, {3}, {1, 1}}
	cur := make([]*c01TEntity, len(slots))
	var ops []string
	var replies, oks, errs, windows, overlaps int
	classes := map[string]bool{}

	const oneErr, oneReply, oneOk, nothing = "reply=0 ok=0 err=1", "reply=1 ok=0 err=0", "reply=0 ok=1 err=0", "reply=0 ok=0 err=0"
	type request struct {
		kind  string // read | write | notify | call | result | subscribe | bind
		cl    model.CmdClassifierType
		src   *model.FeatureAddressType
		dst   *model.FeatureAddressType
		ack   bool
		nodev bool
		fn    rig.FnInfo
		cmd   model.CmdType
		ref   *model.MsgCounterType
		// target as the harness knows it when the request is built
		te *c01TEntity
		id uint
		// hdr: which optional header elements the request carries (c01_header.go), drawn when the request is built
		hdr int
	}
	mkReq := func(q *rig.Peer, kind string, te *c01TEntity, addr []uint, id uint) request {
		rq := request{kind: kind, te: te, id: id, fn: fns[r.Intn(len(fns))], nodev: r.Intn(4) == 0}
		rq.dst = rig.FA(rig.LocalAddr, addr, id)
		rq.src = rig.FA(q.Addr, []uint{1}, 1) // the peer's client feature
		empty := rig.CmdFor(rq.fn.Fn, reflect.New(rq.fn.T).Interface())
		switch kind {
		case "read":
			rq.cl, rq.cmd = model.CmdClassifierTypeRead, empty
		case "write":
			rq.cl, rq.cmd, rq.ack = model.CmdClassifierTypeWrite, rig.CmdFor(rq.fn.Fn, rig.GenVal(r, reflect.PtrTo(rq.fn.T), 0).Interface()), r.Intn(2) == 0
		case "notify":
			rq.cl, rq.cmd, rq.ack = model.CmdClassifierTypeNotify, empty, true
			rq.src = rig.FA(q.Addr, []uint{1}, 2) // the peer's server feature
		case "call":
			rq.cl, rq.cmd, rq.ack = model.CmdClassifierTypeCall, empty, r.Intn(2) == 0
		case "result":
			rq.cl, rq.ref = model.CmdClassifierTypeResult, util.Ptr(model.MsgCounterType(77))
			rq.cmd = model.CmdType{ResultData: &model.ResultDataType{ErrorNumber: util.Ptr(model.ErrorNumberType(r.Intn(2)))}}
		case "subscribe":
			// the registry call goes to NodeManagement; the server address inside names the target
			rq.cl, rq.ack, rq.nodev = model.CmdClassifierTypeCall, r.Intn(2) == 0, false
			rq.cmd = model.CmdType{NodeManagementSubscriptionRequestCall: spine.NewNodeManagementSubscriptionRequestCallType(rq.src, rq.dst, T)}
			rq.src, rq.dst = q.NM(), rig.LNM
		case "bind":
			rq.cl, rq.ack, rq.nodev = model.CmdClassifierTypeCall, r.Intn(2) == 0, false
			rq.cmd = model.CmdType{NodeManagementBindingRequestCall: spine.NewNodeManagementBindingRequestCallType(rq.src, rq.dst, T)}
			rq.src, rq.dst = q.NM(), rig.LNM
		}
		if rq.nodev {
			nd := *rq.dst
			nd.Device = nil
			rq.dst = &nd
		}
		rq.hdr = c01PickHeaderDress(r)
		return rq
	}
	// want: the response sets the statement prescribes when the target is in state tf (nil = does not exist)
	want := func(rq request, tf *c01TFeat) (class string, sets []string) {
		okIfAck := nothing
		if rq.ack {
			okIfAck = oneOk
		}
		role := "absent"
		if tf != nil {
			role = string(tf.role)
		}
		class = rq.kind + "/" + role
		switch {
		case rq.kind == "result":
			return class, []string{nothing}
		case rq.kind == "subscribe" || rq.kind == "bind":
			if tf == nil {
				return class, []string{oneErr}
			}
			return class + "(shape)", []string{okIfAck, oneErr}
		case tf == nil:
			return class, []string{oneErr}
		case rq.kind == "read" && tf.role == model.RoleTypeClient:
			return class, []string{oneErr}
		case rq.kind == "read":
			return class, []string{oneReply}
		case rq.kind == "write":
			return class, []string{oneErr} // no binding was ever granted to this source
		case rq.kind == "notify" && tf.role == model.RoleTypeClient:
			return class, []string{okIfAck}
		case rq.kind == "notify":
			return class + "(shape)", []string{okIfAck, oneErr}
		default: // call on a data feature
			return class, []string{oneErr}
		}
	}
	deliver := func(q *rig.Peer, rq request) model.MsgCounterType {
		return c01SendDressed(w, q, rq.hdr, rq.cl, rq.src, rq.dst, rq.ack, rq.ref, rq.cmd)
	}
	// judge: the responses to rq on q's tap against the allowed states (one for a quiescent request, two for one in flight)
	judge := func(where string, q *rig.Peer, rq request, mc model.MsgCounterType, outs []model.DatagramType, states []*c01TFeat, quiescent bool) {
		res := rig.Classify(outs, mc)
		got := res.String()
		id := fmt.Sprintf("T=%s %s :: %s %s %s -> %s ack=%v header[%s] from peer %s; history: %s", T, where, rq.kind, rq.cl, rq.fn.Fn, rig.JS(rq.dst), rq.ack, c01HeaderDresses[rq.hdr], q.Addr, strings.Join(ops, " ; "))
		c.Count("header:"+c01HeaderDresses[rq.hdr], 1)
		c.Events(1 + int64(len(res.All)))
		match, class := false, ""
		var all []string
		for i, st := range states {
			cl, sets := want(rq, st)
			if i == 0 {
				class = cl
			}
			all = append(all, sets...)
			for _, s := range sets {
				if s == got {
					match = true
				}
			}
		}
		tag := "tree/"
		if !quiescent {
			tag = "tree/in-flight/"
		}
		classes[class] = true
		c.Count("tree-class:"+class, 1)
		replies += res.Replies
		oks += res.Success
		errs += res.Errors
		if !match || res.OtherRef > 0 {
			c.Violate(tag+class+"/got:"+strings.ReplaceAll(got, " ", ","), "%s\n want one of %v got %s (other referencing datagrams: %d)\n responses: %s", id, all, got, res.OtherRef, rig.JS(res.All))
		}
		for _, d := range res.All {
			if rig.JS(d.Header.AddressDestination) != rig.JS(rq.src) {
				c.Violate("tree/response-destination", "%s\n response destination %s != request source %s", id, rig.JS(d.Header.AddressDestination), rig.JS(rq.src))
			}
			wantSrc := *rq.dst
			wantSrc.Device = util.Ptr(model.AddressDeviceType(rig.LocalAddr))
			if rq.nodev && d.Header.AddressSource != nil && (len(states) > 1 || states[0] == nil) {
				// no local feature is (certainly) addressed and the request names no device: the statement does not fix the device part
				wantSrc.Device = d.Header.AddressSource.Device
			}
			if rig.JS(d.Header.AddressSource) != rig.JS(&wantSrc) {
				c.Violate("tree/response-source", "%s\n response source %s != addressed local feature %s", id, rig.JS(d.Header.AddressSource), rig.JS(&wantSrc))
			}
			if d.Header.MsgCounter == nil {
				c.Violate("tree/response-without-counter", "%s", id)
			}
		}
		// the reply carries the data of the feature that answered: in flight, of one of the two candidates
		if rq.kind == "read" && res.Replies == 1 && match && rq.fn.Fn != model.FunctionTypeDeviceDiagnosisHeartbeatData {
			for _, d := range res.All {
				if d.Header.CmdClassifier == nil || *d.Header.CmdClassifier != model.CmdClassifierTypeReply {
					continue
				}
				if len(d.Payload.Cmd) != 1 {
					c.Violate("tree/reply-cmd-count", "%s\n the reply carries %d cmds", id, len(d.Payload.Cmd))
					continue
				}
				cd, err := d.Payload.Cmd[0].Data()
				if err != nil || cd.Function == nil || *cd.Function != rq.fn.Fn {
					c.Violate("tree/reply-function", "%s\n reply payload is not recognised as %s: %s", id, rq.fn.Fn, rig.JS(d.Payload))
					continue
				}
				okData := false
				var wants []string
				for _, st := range states {
					if st == nil || st.role == model.RoleTypeClient {
						continue
					}
					wv, set := st.rec[rq.fn.Fn]
					if !set || rig.IsNil(wv) {
						wv = reflect.New(rq.fn.T).Interface()
					}
					wants = append(wants, rig.JS(wv))
					if rig.CanonAny(cd.Value) == rig.CanonAny(wv) {
						okData = true
					}
				}
				c.Count("tree-reply-content-compared", 1)
				if !okData {
					c.Violate(tag+"reply-data", "%s\n reply %s is not the data of the feature at that address: %s", id, rig.JS(cd.Value), wants)
				}
			}
		}
		// nothing else may be written because of a quiescent request (a rejected notify may be followed by the stack's re-read)
		if quiescent {
			for _, d := range res.Unref {
				cl := rkClassifier(d)
				if rq.kind == "notify" && res.Errors > 0 && states[0] != nil && cl == model.CmdClassifierTypeRead && rig.JS(d.Header.AddressDestination) == rig.JS(rq.src) {
					continue
				}
				c.Violate("tree/unreferenced/"+string(cl)+"/after-"+rq.kind, "%s\n a datagram that does not answer the request was written to the sender:\n %s", id, rig.JS(d))
			}
		}
	}
	drain := func() {
		for _, q := range w.Peers {
			q.Tap.Take()
		}
	}
	// probe: every request kind to feature numbers 1..3 of the address, from the sending peer, one after the other
	probe := func(where string, addr []uint, te *c01TEntity) {
		for id := uint(1); id <= 3; id++ {
			if te == nil && id == 3 {
				break // nothing has ever distinguished numbers 2 and 3 of an address without entity
			}
			tf := te.feat(id)
			kinds := []string{"read", "write", "call", "result", "read"}
			if tf == nil || tf.role == model.RoleTypeClient {
				kinds = append(kinds, "notify")
			}
			if tf == nil {
				kinds = append(kinds, "subscribe", "bind")
			}
			r.Shuffle(len(kinds), func(a, b int) { kinds[a], kinds[b] = kinds[b], kinds[a] })
			for _, k := range kinds {
				rq := mkReq(p, k, te, addr, id)
				drain()
				mc := deliver(p, rq)
				if n := p.PanicCount(); n > 0 {
					c.Violate("tree/panic/"+k, "%s :: %s", where, p.Panics[n-1])
					p.Panics = nil
					continue
				}
				for qi, q := range w.Peers {
					outs := q.Tap.Take()
					if q == p {
						judge(where, p, rq, mc, outs, []*c01TFeat{tf}, true)
						continue
					}
					for _, d := range outs {
						if d.Header.MsgCounterReference != nil && *d.Header.MsgCounterReference == mc {
							c.Violate("tree/response-on-other-peer", "%s\n peer %d received %s", where, qi, rig.JS(d))
						}
					}
				}
			}
		}
	}
	// inflight picks a request for an existing feature of te whose lookup is the one the change overlaps
	inflight := func(q *rig.Peer, te *c01TEntity) request {
		tf := te.feats[r.Intn(len(te.feats))]
		kinds := []string{"read", "read", "write", "call", "result"}
		if tf.role == model.RoleTypeClient {
			kinds = append(kinds, "notify", "notify")
		}
		return mkReq(q, kinds[r.Intn(len(kinds))], te, te.addr, tf.id)
	}
	removeEntity := func(te *c01TEntity) bool {
		ok, pan := rig.Guard(c01TreeWatchdog, func() { w.Local.RemoveEntity(te.ge) })
		if pan != "" {
			c.Violate("tree/panic/RemoveEntity", "history: %s\n%s", strings.Join(ops, " ; "), pan)
		}
		if !ok {
			c.Inconclusive("RemoveEntity did not return within %v (history: %s)", c01TreeWatchdog, strings.Join(ops, " ; "))
		}
		return ok
	}
	// after: what every address concerned answers now
	after := func(where string, si int) {
		probe(where, slots[si], cur[si])
		oi := (si + 1 + r.Intn(len(slots)-1)) % len(slots)
		probe(where+" (neighbour)", slots[oi], cur[oi])
		if r.Intn(2) == 0 {
			probe(where+" (stable entity)", stable.addr, stable)
		}
	}

	steps := 7
	if c.Thorough() {
		steps = 12
	}
	for step := 0; step < steps; step++ {
		si := r.Intn(len(slots))
		switch step {
		case 0, 1:
			si = 0 // every case starts with an entity that is added and then removed inside the window
		}
		te := cur[si]
		var op string
		switch {
		case te == nil && step == 0:
			op = "add"
		case te == nil:
			op = []string{"add", "add", "add-concurrent"}[r.Intn(3)]
		case step == 1:
			op = []string{"remove-window-post", "remove-window-pre"}[r.Intn(2)]
		default:
			op = []string{"remove", "remove", "remove-window-pre", "remove-window-post", "remove-window-post", "remove-concurrent", "add-feature", "add-feature"}[r.Intn(8)]
			if op == "add-feature" && len(te.feats) >= 3 {
				op = "remove"
			}
		}
		name := fmt.Sprintf("%s %v", op, slots[si])
		switch op {
		case "add", "add-concurrent":
			ne := build(slots[si], r.Intn(len(c01TreeLayouts)))
			roles := []string{}
			for _, f := range ne.feats {
				roles = append(roles, string(f.role))
			}
			name = fmt.Sprintf("%s %v roles=%v", op, slots[si], roles)
			if op == "add" {
				w.Local.AddEntity(ne.ge)
				cur[si] = ne
				ops = append(ops, name)
				drain()
			} else {
				// all three connections ask for the entity while the application adds it
				ops = append(ops, name)
				drain()
				reqs := make([]request, len(w.Peers))
				mcs := make([]model.MsgCounterType, len(w.Peers))
				for qi, q := range w.Peers {
					reqs[qi] = inflight(q, ne)
				}
				start := make(chan struct{})
				ok, pan := rig.Guard(c01TreeWatchdog, func() {
					var wg sync.WaitGroup
					for qi, q := range w.Peers {
						wg.Add(1)
						go func(qi int, q *rig.Peer) {
							defer wg.Done()
							<-start
							mcs[qi] = deliver(q, reqs[qi])
						}(qi, q)
					}
					wg.Add(1)
					go func() { defer wg.Done(); <-start; w.Local.AddEntity(ne.ge) }()
					close(start)
					wg.Wait()
				})
				if pan != "" {
					c.Violate("tree/panic/add-concurrent", "%s", pan)
				}
				if !ok {
					c.Inconclusive("concurrent AddEntity / delivery did not return within %v", c01TreeWatchdog)
					return
				}
				cur[si] = ne
				overlaps++
				for qi, q := range w.Peers {
					judge("in flight during "+name, q, reqs[qi], mcs[qi], q.Tap.Take(), []*c01TFeat{ne.feat(reqs[qi].id), nil}, false)
				}
			}
			// cold histories leave the new addresses unaddressed until the next change
			if r.Intn(2) == 0 {
				c.Count("tree-history:addressed-after-add (warm)", 1)
				after("after "+name, si)
				// a prior state of subscriptions and bindings on the new entity's server feature
				for _, f := range cur[si].feats {
					if f.role == model.RoleTypeServer && r.Intn(2) == 0 {
						q := w.Peers[r.Intn(3)]
						q.Subscribe(rig.FA(q.Addr, []uint{1}, 1), rig.FA(rig.LocalAddr, slots[si], f.id), T)
						if r.Intn(2) == 0 {
							q.Bind(rig.FA(q.Addr, []uint{1, 1}, 1), rig.FA(rig.LocalAddr, slots[si], f.id), T)
						}
						drain()
					}
				}
			} else {
				c.Count("tree-history:not-addressed-after-add (cold)", 1)
			}
		case "remove":
			ops = append(ops, name)
			if !removeEntity(te) {
				return
			}
			cur[si] = nil
			drain()
			after("after "+name, si)
		case "remove-window-pre", "remove-window-post":
			ops = append(ops, name)
			rq := inflight(p, te)
			timedOut := false
			te.ge.arm(op == "remove-window-post", func() {
				done := make(chan struct{})
				go func() {
					defer close(done)
					w.Local.RemoveEntity(te.ge)
				}()
				select {
				case <-done:
				case <-time.After(c01TreeWatchdog):
					timedOut = true
				}
			})
			drain()
			mc := deliver(p, rq)
			fired := te.ge.disarm()
			if timedOut {
				c.Inconclusive("RemoveEntity inside the lookup window did not return within %v (history: %s)", c01TreeWatchdog, strings.Join(ops, " ; "))
				return
			}
			if n := p.PanicCount(); n > 0 {
				c.Violate("tree/panic/in-flight", "%s :: %s", name, p.Panics[n-1])
				p.Panics = nil
			}
			if fired > 0 {
				windows++
				c.Count("tree-window-forced:"+op, 1)
			} else {
				// the lookup did not pass the seam: the removal follows sequentially
				c.Count("tree-window-not-reached:"+op, 1)
				if !removeEntity(te) {
					return
				}
			}
			cur[si] = nil
			judge("in flight during "+name, p, rq, mc, p.Tap.Take(), []*c01TFeat{te.feat(rq.id), nil}, false)
			drain()
			after("after "+name, si)
		case "remove-concurrent":
			ops = append(ops, name)
			drain()
			reqs := make([]request, len(w.Peers))
			mcs := make([]model.MsgCounterType, len(w.Peers))
			for qi, q := range w.Peers {
				reqs[qi] = inflight(q, te)
			}
			start := make(chan struct{})
			ok, pan := rig.Guard(c01TreeWatchdog, func() {
				var wg sync.WaitGroup
				for qi, q := range w.Peers {
					wg.Add(1)
					go func(qi int, q *rig.Peer) {
						defer wg.Done()
						<-start
						mcs[qi] = deliver(q, reqs[qi])
					}(qi, q)
				}
				wg.Add(1)
				go func() { defer wg.Done(); <-start; w.Local.RemoveEntity(te.ge) }()
				close(start)
				wg.Wait()
			})
			if pan != "" {
				c.Violate("tree/panic/remove-concurrent", "%s", pan)
			}
			if !ok {
				c.Inconclusive("concurrent RemoveEntity / delivery did not return within %v", c01TreeWatchdog)
				return
			}
			cur[si] = nil
			overlaps++
			for qi, q := range w.Peers {
				judge("in flight during "+name, q, reqs[qi], mcs[qi], q.Tap.Take(), []*c01TFeat{te.feat(reqs[qi].id), nil}, false)
			}
			after("after "+name, si)
		case "add-feature":
			// the peer asks for the next feature number in vain, then the application adds that feature
			have := map[model.RoleType]bool{}
			for _, f := range te.feats {
				have[f.role] = true
			}
			var role model.RoleType
			for _, ro := range []model.RoleType{model.RoleTypeServer, model.RoleTypeClient, model.RoleTypeSpecial} {
				if !have[ro] {
					role = ro
					break
				}
			}
			name += " role=" + string(role)
			probe("before "+name, slots[si], te)
			ops = append(ops, name)
			addFeat(te, te.ge.EntityLocal, role)
			drain()
			after("after "+name, si)
		}
		c.Count("tree-step:"+op, 1)
	}
	c.Shape(fmt.Sprintf("local-tree T=%s sender=%d %s", T, sender, strings.Join(ops, ";")))
	c.NonTrivial(replies > 0 && oks > 0 && errs > 0 && windows+overlaps > 0)
	var cl []string
	for k := range classes {
		cl = append(cl, k)
		c.Seen("tree_classes", k)
	}
	c.Sample(map[string]any{"feature_type": T, "sender": sender, "history": ops, "windows_forced": windows, "unforced_overlaps": overlaps, "replies": replies, "success_results": oks, "error_results": errs})
	if c.Failed() {
		c.Witness(map[string]any{"feature_type": T, "sender": sender, "history": ops})
	}
}
