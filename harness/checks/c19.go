package checks

import (
	"encoding/json"
	"fmt"
	"math"
	"regexp"
	"strconv"
	"strings"
	"time"

	"github.com/enbility/spine-go/model"

	"verifharness/rig"
)

// C19 — numeric and temporal conversions are exact within their declared precision.
//
// Oracles (DESIGN.md, C19): decimals k·10^-d are represented exactly (Number·10^Scale == k·10^-d as
// integers) and GetValue() equals v at the declared precision; random floats below 10^14 come back
// within 0.0001; durations n·100ms and instants with whole seconds round-trip exactly; a relative end
// time of a time period is read back to the second.
//
// The textual forms are judged by the harness itself, not only by the library's own parser: a date-time text must be
// an xs:dateTime WITH a zone designator that denotes the instant (c19ParseXsDateTime), a duration text must be in the
// lexical space of xs:duration (PnYnMnDTnHnMnS, no week designator) and denote the duration when evaluated with the
// harness's arithmetic (c19ParseXsDuration); hand-written and generated non-canonical xs:duration spellings are read
// through the library's parsers with expectations computed by the harness (part "texts").

func init() {
	const block = 20000
	rig.Register(&rig.Check{
		ID:    "C19",
		Floor: 20,
		Rule: "deterministic blocks of inputs per part: decimals k*10^-d (dense |k|<=200000 per d, thorough adds strided |k|<=5*10^7), random finite floats over 28 decades below 10^14, " +
			"durations n*100ms (dense to 5.5h plus log-uniform to 200 years, both signs, through DurationType and AbsoluteOrRelativeTimeType), instants with whole seconds in years 1-9999 (a fifth in non-UTC zones), " +
			"explicit boundary durations (every whole day to 3300 d, every whole hour to 3300 h, 7/30/365-day multiples to 200 y, each +-100 ms, both signs), " +
			"a fixed table of hand-written xs:duration texts plus generated non-canonical spellings (seconds only, minutes+seconds, unnormalised fields, zero fields, leading zeros) through DurationType, AbsoluteOrRelativeTimeType and {\"endTime\":...} JSON, " +
			"time periods with a relative end time of either sign through JSON, a sample of them read again after >= 1.5 s. " +
			"Placed inputs (c19_landmarks.go) next to the drawn ones: decimals at k = 10^p+-j, m*10^p+-1, 2^q+-1 and digit-string prefixes for every d, decimals with 1-15 digits over all magnitudes below 10^14, " +
			"each also in representations other than the library's (zeros appended or stripped, positive scale, no scale) through GetValue; floats as the cross product of integer-part patterns (0, 9..9, 10^p, d9..9, d0..0, random; 1-14 digits) x " +
			"patterns of the first four decimals (9999, 0000, x999, xx00, ...) x patterns of the digits behind them (none, 4, 5, 6, 49.., 50..1, 9.., random), both signs, plus the doubles within 2 ulp of m*10^p +- {0, 0.00005, 0.0001, 0.00015} and the ends of the domain; " +
			"instants at landmarks (both ends of years 1-9999, the zero value of time.Time, unix-second landmarks, years of every width, month/february/year ends, ends of every clock field) each -1 s, exact, +1 s in nine zones, instants carrying a monotonic reading, " +
			"and instants written by the harness with a fraction of zeros; relative end times of 0, around every field boundary of the text, and not whole seconds. A case is one block; it is non-trivial if at least 1000 conversions were compared; distinct = distinct (part, digits/decade/sign class) descriptors.",
		Assumptions: []string{
			"'the same number' for a decimal k*10^-d (d<=4, |k|<=5*10^7) is the double nearest to that decimal, i.e. the input itself: GetValue() must be == v (the 0.0001 tolerance of the statement belongs to its second clause, arbitrary numbers below 10^14); a difference only in the last binary digits gets the signature decimal/not-the-same-double, a difference at the fourth decimal decimal/declared-precision",
			"a relative end time moves with the wall clock: the remaining duration read back must lie within 1 s of d minus the wall time that passed, bracketed by the harness's own clock readings; a disagreement of wall and monotonic clock over the case makes the delayed read inconclusive",
			"the SPINE textual form of a duration is an xs:duration (PnYnMnDTnHnMnS: no week designator, 'T' only before at least one time field); a text that uses years or months has no decided length and does not denote a duration below 3277 days",
			"the SPINE textual form of an instant is an xs:dateTime with a zone designator (Z or +-hh:mm); a text without one does not denote an instant",
			"the value of P1M / P1Y (calendar units) is not decided by the statement: observed, not judged",
			"a scaled number is the pair (number, scale) and denotes number*10^scale: the harness evaluates the pair the library produced by itself (strconv), besides asking GetValue(), and feeds GetValue() equivalent pairs the library would not produce (what a peer may send); both must give the number",
			"an instant written as xs:dateTime with 'Z' and a fraction of zeros (…:05.000Z) is the same instant as without the fraction: such texts are read through GetTime() and judged; texts with a numeric zone offset or without zone designator, and instants outside the years 1-9999 (the lexical range of xs:dateTime 1.0 and of the four-digit year), are read and recorded, not judged",
			"a relative end time that is not a whole number of seconds passes one more rounding (the end time is an instant with whole seconds): its lower bound is one second lower",
			"durations >= 3277 days are the known-finding class D27; the signature duration/>=3277d/imprecise is given ONLY to the deviation recorded at design time (minutes and seconds dropped, whole days re-expressed as floor(days/365.2425) years, floor(days/30.4369)-12*years months and the truncated rest, read back with 365.2425 d/year and a twelfth of that per month, week designator for rest days that are a multiple of 7); any other deviation in that range gets its own signature",
		},
		Parts: []rig.Part{
			{Name: "decimals", Cases: func(t rig.Tier) int {
				n := 5*((400001+block-1)/block) + c19DecimalsExtra(t)
				if t == rig.Thorough {
					n += 5 * 100 // strided blocks
				}
				return n
			}, Run: c19Decimals, Procs: 1},
			{Name: "floats", Cases: func(t rig.Tier) int { return c19FloatsRandom(t) + c19FloatsStruct(t) }, Run: c19Floats, Procs: 1},
			{Name: "durations", Cases: func(t rig.Tier) int { return map[rig.Tier]int{rig.Quick: 33, rig.Thorough: 123}[t] }, Run: c19Durations, Procs: 1},
			{Name: "texts", Cases: func(t rig.Tier) int { return map[rig.Tier]int{rig.Quick: 4, rig.Thorough: 40}[t] }, Run: c19Texts, Procs: 1},
			{Name: "instants", Cases: func(t rig.Tier) int { return map[rig.Tier]int{rig.Quick: 10, rig.Thorough: 100}[t] + 2 }, Run: c19Instants, Procs: 1},
			{Name: "periods", Cases: func(t rig.Tier) int { return map[rig.Tier]int{rig.Quick: 4, rig.Thorough: 40}[t] + 1 }, Run: c19Periods, Procs: 1},
		},
	})
}

func c19CheckDecimal(c *rig.Ctx, k int64, d int) {
	v, _ := strconv.ParseFloat(fmt.Sprintf("%de-%d", k, d), 64)
	s := model.NewScaledNumberType(v)
	c.Count("decimals", 1)
	if s.Number == nil {
		c.Violate("decimal/nil-number", "NewScaledNumberType(%v) has no number", v)
		return
	}
	// exact representation: Number * 10^Scale == k * 10^-d as integers
	num, scale := int64(*s.Number), 0
	if s.Scale != nil {
		scale = int(*s.Scale)
	}
	// bring both to exponent -4
	lhs, okL := scaleTo(num, scale, -4)
	rhs, okR := scaleTo(k, -d, -4)
	if !okL || !okR || lhs != rhs {
		c.Violate("decimal/representation", "v=%s (k=%d d=%d): number=%d scale=%d does not represent the decimal", strconv.FormatFloat(v, 'f', -1, 64), k, d, num, scale)
	}
	g := s.GetValue()
	if math.Round(g*1e4) != math.Round(v*1e4) {
		c.Violate("decimal/declared-precision", "v=%s (k=%d d=%d): GetValue()=%s differs at the fourth decimal", strconv.FormatFloat(v, 'f', -1, 64), k, d, strconv.FormatFloat(g, 'f', -1, 64))
	}
	if g != v {
		// "returns the same number": v is the double nearest to k*10^-d, and so must be what comes back
		c.Count("decimals_bitwise_differing", 1)
		c.Violate("decimal/not-the-same-double", "v=%s (k=%d d=%d): number=%d scale=%d, GetValue()=%s is another number (bits %016x, want %016x)",
			strconv.FormatFloat(v, 'g', -1, 64), k, d, num, scale, strconv.FormatFloat(g, 'g', -1, 64), math.Float64bits(g), math.Float64bits(v))
	}
}

func scaleTo(n int64, exp, target int) (int64, bool) {
	for exp > target {
		if n > math.MaxInt64/10 || n < math.MinInt64/10 {
			return 0, false
		}
		n *= 10
		exp--
	}
	for exp < target {
		if n%10 != 0 {
			return 0, false
		}
		n /= 10
		exp++
	}
	return n, true
}

func c19Decimals(c *rig.Ctx) {
	const block = 20000
	perD := (400001 + block - 1) / block
	dense := 5 * perD
	n := 0
	if c.Index < dense {
		d := c.Index / perD
		start := int64(-200000) + int64(c.Index%perD)*block
		for k := start; k < start+block && k <= 200000; k++ {
			c19CheckDecimal(c, k, d)
			n++
		}
		c.Shape(fmt.Sprintf("dense d=%d sign=%v", d, start < 0))
		c.Sample(map[string]any{"d": d, "k_from": start, "k_to": start + block - 1, "example": fmt.Sprintf("%de-%d", start, d)})
	} else if extra := c19DecimalsExtra(c.Tier); c.Index < dense+extra {
		// placed values and the whole magnitude range (c19_landmarks.go); they report their own evidence
		if i := c.Index - dense; i == 0 {
			c19DecimalsLandmarks(c)
		} else {
			c19DecimalsWide(c, (i-1)%5, block)
		}
		return
	} else {
		// strided: |k| up to 5*10^7, stride drawn from the case PRNG
		i := c.Index - dense - extra
		d := i % 5
		for j := 0; j < block; j++ {
			k := c.Rand.Int63n(100000001) - 50000000
			c19CheckDecimal(c, k, d)
			n++
		}
		c.Shape(fmt.Sprintf("strided d=%d block=%d", d, i/5%4))
		c.Sample(map[string]any{"d": d, "random_k_in": "[-5e7,5e7]", "values": block})
	}
	c.Events(int64(n))
	c.NonTrivial(n >= 1000)
}

// case counts of the added dimensions (c19_landmarks.go)
func c19DecimalsExtra(t rig.Tier) int {
	return map[rig.Tier]int{rig.Quick: 1 + 5, rig.Thorough: 1 + 50}[t]
}
func c19FloatsRandom(t rig.Tier) int { return map[rig.Tier]int{rig.Quick: 12, rig.Thorough: 250}[t] }
func c19FloatsStruct(t rig.Tier) int { return map[rig.Tier]int{rig.Quick: 3, rig.Thorough: 30}[t] }

func c19Floats(c *rig.Ctx) {
	if c.Index >= c19FloatsRandom(c.Tier) {
		c19FloatsStructured(c)
		return
	}
	n := 0
	worst := 0.0
	decades := map[int]bool{}
	for i := 0; i < 20000; i++ {
		mag := c.Rand.Float64()*28 - 14
		v := math.Pow(10, mag) * (c.Rand.Float64()*2 - 1)
		if math.Abs(v) >= 1e14 || math.IsNaN(v) || math.IsInf(v, 0) {
			continue
		}
		n++
		decades[int(math.Floor(mag))] = true
		if e := c19CheckFloat(c, v); e > worst {
			worst = e
		}
	}
	c.Count("floats", int64(n))
	c.Events(int64(n))
	c.Shape(fmt.Sprintf("floats decades=%d block=%d", len(decades), c.Index%8))
	c.NonTrivial(n >= 1000 && len(decades) >= 20)
	c.Sample(map[string]any{"floats": n, "decades_covered": len(decades), "worst_abs_error": worst})
}

func deref[T any](p *T) any {
	if p == nil {
		return nil
	}
	return *p
}

const d27Class = 3277 * 24 * time.Hour

// ---- harness-side reading of duration texts ---------------------------------------------------------------
//
// c19ParseDuration accepts the ISO-8601 designator form with integer fields and an optional decimal fraction on the
// seconds: [-]P[nY][nM][nW][nD][T[nH][nM][n[.f]S]]. The lexical space of xs:duration (the SPINE DurationType) is the
// subset without the week designator; p.weeks tells which of the two a text is in. It is independent of the library and
// of the period package.

type c19Dur struct {
	neg                   bool
	y, mo, w, d, h, mi, s int64
	fracNs                int64 // fraction of the seconds field, in ns
	weeks                 bool  // a W designator occurred: ISO 8601, but not xs:duration
}

func c19ParseDuration(text string) (p c19Dur, ok bool) {
	s := text
	if strings.HasPrefix(s, "-") {
		p.neg = true
		s = s[1:]
	}
	if !strings.HasPrefix(s, "P") {
		return p, false
	}
	s = s[1:]
	inTime, order, fields, timeFields := false, -1, 0, 0
	for len(s) > 0 {
		if s[0] == 'T' {
			if inTime {
				return p, false
			}
			inTime, order = true, -1
			s = s[1:]
			continue
		}
		i := 0
		for i < len(s) && s[i] >= '0' && s[i] <= '9' {
			i++
		}
		if i == 0 || i > 10 {
			return p, false
		}
		n, _ := strconv.ParseInt(s[:i], 10, 64)
		s = s[i:]
		frac := ""
		if len(s) > 0 && s[0] == '.' {
			j := 1
			for j < len(s) && s[j] >= '0' && s[j] <= '9' {
				j++
			}
			if j == 1 || j > 10 {
				return p, false
			}
			frac, s = s[1:j], s[j:]
		}
		if len(s) == 0 {
			return p, false
		}
		des := s[0]
		s = s[1:]
		set := "YMWD"
		if inTime {
			set = "HMS"
		}
		k := strings.IndexByte(set, des)
		if k <= order { // unknown designator, repeated or out of order
			return p, false
		}
		order = k
		if frac != "" && !(inTime && des == 'S') {
			return p, false
		}
		fields++
		switch {
		case !inTime && des == 'Y':
			p.y = n
		case !inTime && des == 'M':
			p.mo = n
		case !inTime && des == 'W':
			p.w, p.weeks = n, true
		case !inTime && des == 'D':
			p.d = n
		case des == 'H':
			p.h = n
			timeFields++
		case des == 'M':
			p.mi = n
			timeFields++
		case des == 'S':
			p.s = n
			timeFields++
			for len(frac) < 9 {
				frac += "0"
			}
			p.fracNs, _ = strconv.ParseInt(frac, 10, 64)
		}
	}
	if fields == 0 || (inTime && timeFields == 0) {
		return p, false
	}
	return p, true
}

// value evaluates the text with the harness's arithmetic: 24 h days, weeks of 7 days. Years and months have no decided
// length: with avg=false a text that uses them is "undecided"; with avg=true they are taken as 365.2425 days and a
// twelfth of that (31 556 952 s and 2 629 746 s) - used only to recognise the known D27 deviation.
func (p c19Dur) value(avg bool) (v time.Duration, decided bool) {
	if (p.y != 0 || p.mo != 0) && !avg {
		return 0, false
	}
	secs := p.y*31556952 + p.mo*2629746 + (p.w*7+p.d)*86400 + p.h*3600 + p.mi*60 + p.s
	if secs < 0 || secs > 9000000000 { // beyond time.Duration
		return 0, false
	}
	v = time.Duration(secs)*time.Second + time.Duration(p.fracNs)
	if p.neg {
		v = -v
	}
	return v, true
}

// c19JudgeDurationText judges the text the library produced for d (|d| below the D27 class): it must be an xs:duration
// and denote d. sigPrefix is "duration" or "period".
func c19JudgeDurationText(c *rig.Ctx, sigPrefix, kind, text string, lo, hi time.Duration) {
	c.Count("duration_texts_judged_by_the_harness", 1)
	p, ok := c19ParseDuration(text)
	if !ok {
		c.Violate(sigPrefix+"/text/not-xs:duration", "%s: the text %q for a duration in [%v, %v] is not in the lexical space of xs:duration (PnYnMnDTnHnMnS)", kind, text, lo, hi)
		return
	}
	if p.weeks {
		c.Violate(sigPrefix+"/text/week-designator", "%s: the text %q for a duration in [%v, %v] uses the week designator, which ISO 8601 knows and xs:duration (the SPINE DurationType) does not", kind, text, lo, hi)
	}
	v, decided := p.value(false)
	if !decided {
		c.Violate(sigPrefix+"/text/calendar-units", "%s: the text %q for a duration in [%v, %v] uses years or months, whose length is not decided", kind, text, lo, hi)
		return
	}
	if v < lo || v > hi {
		c.Violate(sigPrefix+"/text/denotes-other-duration", "%s: the text %q denotes %v, want a duration in [%v, %v]", kind, text, v, lo, hi)
	}
}

// c19D27Known says whether (text, back) is exactly the deviation recorded as D27 for d (|d| >= 3277 days), and if not,
// what differs. The model is the recorded behaviour: hours kept, minutes and seconds dropped, whole days re-expressed
// with average year and month lengths, the rest truncated to whole days.
func c19D27Known(d time.Duration, text string, back time.Duration) (known bool, sub, why string) {
	p, ok := c19ParseDuration(text)
	if !ok {
		return false, "text-not-a-duration", "the text is not a duration text"
	}
	abs := d
	if abs < 0 {
		abs = -abs
	}
	totalHours := int64(abs / time.Hour)
	totalDays := totalHours / 24
	years := totalDays * 10000 / 3652425
	months := totalDays*10000/304369 - 12*years
	rest := (totalDays*10000 - 304369*months - 3652425*years) / 10000
	hours := totalHours - 24*totalDays
	var diffs []string
	if p.neg != (d < 0) {
		diffs = append(diffs, "sign")
	}
	if p.y != years {
		diffs = append(diffs, fmt.Sprintf("years %d (known deviation has %d)", p.y, years))
	}
	if p.mo != months {
		diffs = append(diffs, fmt.Sprintf("months %d (known %d)", p.mo, months))
	}
	if p.w*7+p.d != rest {
		diffs = append(diffs, fmt.Sprintf("days %d (known %d)", p.w*7+p.d, rest))
	}
	if p.h != hours {
		diffs = append(diffs, fmt.Sprintf("hours %d (known %d)", p.h, hours))
	}
	if p.mi != 0 || p.s != 0 || p.fracNs != 0 {
		diffs = append(diffs, fmt.Sprintf("minutes/seconds %dM%d.%09dS (known deviation drops them)", p.mi, p.s, p.fracNs))
	}
	if len(diffs) > 0 {
		return false, "text-not-the-known-averaging", "the text differs from the year/month averaging recorded as D27 in: " + strings.Join(diffs, ", ")
	}
	v, _ := p.value(true)
	if back != v {
		return false, "read-back-differs-from-text", fmt.Sprintf("the text is the known averaging, but it is read back as %v while it evaluates to %v with 365.2425 d/year and a twelfth of that per month", back, v)
	}
	return true, "", ""
}

func c19CheckDuration(c *rig.Ctx, d time.Duration) {
	c.Count("durations", 1)
	abs := d
	if abs < 0 {
		abs = -abs
	}
	malformed := false
	check := func(kind string, back time.Duration, err error, text string) {
		if abs < d27Class {
			c19JudgeDurationText(c, "duration", kind, text, d, d)
			if err != nil || back != d {
				c.Violate("duration/round-trip", "%s %v -> %q -> %v err=%v", kind, d, text, back, err)
			}
			return
		}
		// the class D27
		if p, ok := c19ParseDuration(text); !ok {
			// not even a duration text (mixed signs, garbage): neither D27's averaging nor readable by anybody
			malformed = true
			c.Violate("duration/>=3277d/text-not-a-duration", "%s %v -> %q, which is not a duration text (read back: %v err=%v)", kind, d, text, back, err)
			return
		} else if p.weeks {
			c.Violate("duration/text/week-designator", "%s: the text %q for %v uses the week designator, which ISO 8601 knows and xs:duration (the SPINE DurationType) does not", kind, text, d)
		}
		if err == nil && back == d {
			c.Count("durations_in_class_>=3277d_exact", 1)
			return
		}
		diff := back - d
		if diff < 0 {
			diff = -diff
		}
		if err != nil || diff >= 48*time.Hour {
			c.Violate("duration/>=3277d/gross", "%s %v -> %q -> %v err=%v (off by %v, in-class bound is 48h)", kind, d, text, back, err, diff)
			return
		}
		if known, sub, why := c19D27Known(d, text, back); known {
			c.Count("durations_in_class_>=3277d_with_exactly_the_known_deviation", 1)
			c.Violate("duration/>=3277d/imprecise", "%s %v -> %q -> %v (off by %v)", kind, d, text, back, diff)
		} else {
			c.Violate("duration/>=3277d/"+sub, "%s %v -> %q -> %v (off by %v): %s", kind, d, text, back, diff, why)
		}
	}
	dt := model.NewDurationType(d)
	back, err := dt.GetTimeDuration()
	check("DurationType", back, err, string(*dt))
	a := model.NewAbsoluteOrRelativeTimeTypeFromDuration(d)
	back2, err2 := a.GetTimeDuration()
	check("AbsoluteOrRelativeTimeType", back2, err2, string(*a))
	if !a.IsRelativeTime() && !malformed { // a malformed text is reported as such, once
		c.Violate("duration/not-relative", "IsRelativeTime() false for %q", string(*a))
	}
}

func c19Durations(c *rig.Ctx) {
	n := 0
	const tenth = 100 * time.Millisecond
	// around: d-100ms, d, d+100ms, each with both signs
	around := func(d time.Duration) {
		for _, x := range []time.Duration{d - tenth, d, d + tenth} {
			c19CheckDuration(c, x)
			c19CheckDuration(c, -x)
			n += 2
		}
	}
	switch {
	case c.Index < 20: // dense n <= 200000 (5.5h), 10000 per case, both signs
		start := int64(c.Index) * 10000
		for k := start; k < start+10000; k++ {
			d := time.Duration(k) * 100 * time.Millisecond
			c19CheckDuration(c, d)
			if k > 0 && k%7 == 0 {
				c19CheckDuration(c, -d)
			}
			n++
		}
		c.Shape(fmt.Sprintf("dense block=%d", c.Index))
		c.Sample(map[string]any{"n_from": start, "n_to": start + 9999, "unit": "100ms"})
	case c.Index == 20: // every whole day up to 3300 days (covers the 7/30/365-day multiples below the class and the class boundary)
		for k := int64(1); k <= 3300; k++ {
			around(time.Duration(k) * 24 * time.Hour)
		}
		c.Shape("boundary whole-days<=3300 +-100ms both signs")
		c.Sample(map[string]any{"whole_days": "1..3300", "each": "-100ms, exact, +100ms, both signs", "includes": "3276d23:59:59.9, 3277d"})
	case c.Index == 21: // every whole hour up to 3300 hours (the text changes its shape at 3277 h)
		for k := int64(1); k <= 3300; k++ {
			around(time.Duration(k) * time.Hour)
		}
		for k := int64(1); k <= 600; k++ { // whole minutes
			around(time.Duration(k) * time.Minute)
		}
		c.Shape("boundary whole-hours<=3300, whole-minutes<=600 +-100ms both signs")
		c.Sample(map[string]any{"whole_hours": "1..3300", "whole_minutes": "1..600", "each": "-100ms, exact, +100ms, both signs", "includes": "3276h59:59.9, 3277h"})
	case c.Index == 22: // multiples of 7, 30 and 365 days up to 200 years (mostly inside the class D27)
		for k := int64(1); k <= 200; k++ {
			around(time.Duration(k) * 365 * 24 * time.Hour)
		}
		for k := int64(1); k <= 2400; k += 1 + k/200 {
			around(time.Duration(k) * 30 * 24 * time.Hour)
		}
		for k := int64(1); k <= 10400; k += 1 + k/100 {
			around(time.Duration(k) * 7 * 24 * time.Hour)
		}
		c.Shape("boundary 7/30/365-day multiples to 200y +-100ms both signs")
		c.Sample(map[string]any{"multiples_of_days": []int{7, 30, 365}, "up_to": "200y", "each": "-100ms, exact, +100ms, both signs"})
	default: // log-uniform up to 200 years; the class >= 3277 days is D27
		inClass := 0
		for i := 0; i < 10000; i++ {
			maxN := 200.0 * 365 * 24 * 36000
			nn := int64(math.Exp(c.Rand.Float64() * math.Log(maxN)))
			d := time.Duration(nn) * 100 * time.Millisecond
			if d >= d27Class {
				inClass++
			}
			if c.Rand.Intn(2) == 0 {
				d = -d
			}
			c19CheckDuration(c, d)
			n++
		}
		c.Count("durations_in_class_>=3277d_drawn", int64(inClass))
		c.Shape(fmt.Sprintf("loguniform block=%d", c.Index%10))
		c.Sample(map[string]any{"log_uniform_up_to": "200y", "values": n})
	}
	c.Events(int64(n))
	c.NonTrivial(n >= 1000)
}

// ---- hand-written and generated duration texts (what a peer may send) --------------------------------------

// c19TextTable: xs:duration texts as other implementations write them, with the duration they denote. The expectation is
// written by hand AND recomputed by the harness's evaluator; none of them uses years or months.
var c19TextTable = []struct {
	text string
	want time.Duration
}{
	{"PT90M", 90 * time.Minute}, {"PT36H", 36 * time.Hour}, {"P1DT12H", 36 * time.Hour}, {"PT3600S", time.Hour},
	{"PT0.5S", 500 * time.Millisecond}, {"-PT5M", -5 * time.Minute}, {"P0DT0H0M10S", 10 * time.Second},
	{"PT0S", 0}, {"P0D", 0}, {"PT86400S", 24 * time.Hour}, {"PT1440M", 24 * time.Hour}, {"PT24H", 24 * time.Hour}, {"P1D", 24 * time.Hour},
	{"PT100H", 100 * time.Hour}, {"P7D", 7 * 24 * time.Hour}, {"P30D", 30 * 24 * time.Hour}, {"P365D", 365 * 24 * time.Hour}, {"P400D", 400 * 24 * time.Hour},
	{"PT5000H", 5000 * time.Hour}, {"PT100000M", 100000 * time.Minute}, {"-P1DT2H3M4.5S", -(26*time.Hour + 3*time.Minute + 4500*time.Millisecond)},
	{"PT00036H", 36 * time.Hour}, {"P0Y0M1DT0H0M0S", 24 * time.Hour}, {"PT10.0S", 10 * time.Second}, {"PT0.50S", 500 * time.Millisecond},
	{"PT59.9S", 59900 * time.Millisecond}, {"PT60S", time.Minute}, {"PT3276.7S", 3276700 * time.Millisecond}, {"PT3276.8S", 3276800 * time.Millisecond},
	{"PT32767S", 32767 * time.Second}, {"PT32768S", 32768 * time.Second}, {"PT65536S", 65536 * time.Second}, {"PT6553.6S", 6553600 * time.Millisecond},
	{"PT3276H59M59.9S", 3277*time.Hour - 100*time.Millisecond}, {"PT3277H", 3277 * time.Hour}, {"P136DT13H", 3277 * time.Hour},
	{"PT32767M", 32767 * time.Minute}, {"PT32768M", 32768 * time.Minute}, {"PT32767H", 32767 * time.Hour}, {"PT32768H", 32768 * time.Hour},
	{"PT40000H", 40000 * time.Hour}, {"PT78647H", 78647 * time.Hour}, {"P3276D", 3276 * 24 * time.Hour},
	{"P3276DT23H59M59.9S", 3277*24*time.Hour - 100*time.Millisecond}, {"P3276DT86399.9S", 3277*24*time.Hour - 100*time.Millisecond},
	{"PT10000000S", 10000000 * time.Second}, {"PT283115520S", 283115520 * time.Second}, {"PT4718592M", 4718592 * time.Minute},
	{"P100DT100H100M100S", 100*24*time.Hour + 100*time.Hour + 100*time.Minute + 100*time.Second}, {"-P1000D", -1000 * 24 * time.Hour},
	{"-PT0.1S", -100 * time.Millisecond}, {"PT1H0.5S", time.Hour + 500*time.Millisecond}, {"P1DT0.1S", 24*time.Hour + 100*time.Millisecond},
	// every spelling of the zero duration (the value that coincides with the zero value of time.Duration)
	{"-PT0S", 0}, {"PT0.0S", 0}, {"PT0.000S", 0}, {"P0DT0H0M0S", 0}, {"PT0H", 0}, {"PT0M", 0}, {"PT0H0M", 0}, {"-P0D", 0}, {"P0Y", 0}, {"P0M", 0}, {"P0Y0M0DT0H0M0.0S", 0},
}

// c19Spell renders d (a multiple of 100 ms, |d| below the class) in one of several valid xs:duration spellings that are
// not the library's own. Returns the style name and the text.
func c19Spell(c *rig.Ctx, d time.Duration) (style, text string) {
	neg := d < 0
	if neg {
		d = -d
	}
	tenths := int64(d / (100 * time.Millisecond))
	t := tenths % 10
	secs := tenths / 10
	pad := func(n int64) string { // sometimes with leading zeros, which xs:duration allows
		if c.Rand.Intn(6) == 0 {
			return fmt.Sprintf("%0*d", 2+c.Rand.Intn(4), n)
		}
		return strconv.FormatInt(n, 10)
	}
	sec := func(n int64) string {
		switch {
		case t != 0 && c.Rand.Intn(4) == 0:
			return pad(n) + fmt.Sprintf(".%d0S", t)
		case t != 0:
			return pad(n) + fmt.Sprintf(".%dS", t)
		case c.Rand.Intn(8) == 0:
			return pad(n) + ".0S"
		}
		return pad(n) + "S"
	}
	var b strings.Builder
	b.WriteString("P")
	switch c.Rand.Intn(7) {
	case 0:
		style = "seconds-only"
		b.WriteString("T" + sec(secs))
	case 1:
		style = "minutes+seconds"
		b.WriteString("T" + pad(secs/60) + "M" + sec(secs%60))
	case 2:
		style = "hours+minutes+seconds"
		b.WriteString("T" + pad(secs/3600) + "H" + pad(secs%3600/60) + "M" + sec(secs%60))
	case 3:
		style = "all-fields-with-zeros"
		b.WriteString(pad(secs/86400) + "DT" + pad(secs%86400/3600) + "H" + pad(secs%3600/60) + "M" + sec(secs%60))
	case 4:
		style = "days+seconds"
		b.WriteString(pad(secs/86400) + "DT" + sec(secs%86400))
	case 5:
		style = "days+hours"
		if secs%3600 != 0 || t != 0 {
			style = "days+hours+seconds"
		}
		b.WriteString(pad(secs/86400) + "DT" + pad(secs%86400/3600) + "H")
		if secs%3600 != 0 || t != 0 {
			b.WriteString(sec(secs % 3600))
		}
	default:
		style = "unnormalised-fields"
		rest := secs
		days := int64(0)
		if rest >= 86400 {
			days = c.Rand.Int63n(rest/86400 + 1)
		}
		rest -= days * 86400
		hours := int64(0)
		if rest >= 3600 {
			hours = c.Rand.Int63n(rest/3600 + 1)
		}
		rest -= hours * 3600
		mins := int64(0)
		if rest >= 60 {
			mins = c.Rand.Int63n(rest/60 + 1)
		}
		rest -= mins * 60
		if days > 0 {
			b.WriteString(pad(days) + "D")
		}
		b.WriteString("T")
		if hours > 0 {
			b.WriteString(pad(hours) + "H")
		}
		if mins > 0 {
			b.WriteString(pad(mins) + "M")
		}
		b.WriteString(sec(rest))
	}
	text = b.String()
	if neg {
		text = "-" + text
	}
	return style, text
}

// c19CheckText reads one duration text through the three ways a received text is read.
func c19CheckText(c *rig.Ctx, style, text string, want time.Duration) {
	c.Count("handwritten_texts", 1)
	c.Seen("handwritten_text_styles", style)
	p, ok := c19ParseDuration(text)
	if v, decided := p.value(false); !ok || p.weeks || !decided || v != want {
		c.Violate("harness/xs-duration-evaluator", "the harness's evaluator reads %q as %v (ok=%v weeks=%v decided=%v), the expectation is %v", text, v, ok, p.weeks, decided, want)
		return
	}
	dt := model.DurationType(text)
	if got, err := dt.GetTimeDuration(); err != nil || got != want {
		c.Violate("text/"+style+"/duration-misread", "DurationType(%q).GetTimeDuration() = %v, err=%v; the text denotes %v", text, got, err, want)
	}
	a := model.AbsoluteOrRelativeTimeType(text)
	if got, err := a.GetTimeDuration(); err != nil || got != want {
		c.Violate("text/"+style+"/relative-time-misread", "AbsoluteOrRelativeTimeType(%q).GetTimeDuration() = %v, err=%v; the text denotes %v", text, got, err, want)
	}
	if !a.IsRelativeTime() {
		c.Violate("text/"+style+"/not-relative", "AbsoluteOrRelativeTimeType(%q).IsRelativeTime() = false", text)
	}
	// as the relative end time of a time period: remaining duration to the second
	t0 := time.Now()
	var tp model.TimePeriodType
	uerr := json.Unmarshal([]byte(`{"endTime":"`+text+`"}`), &tp)
	got, gerr := tp.GetDuration()
	el := time.Since(t0)
	lo, hi := want-time.Second-el, want+time.Second
	if el >= time.Second {
		lo -= time.Second
	}
	if uerr != nil || gerr != nil || got < lo || got > hi {
		c.Violate("text/"+style+"/period-misread", `{"endTime":%q} decoded (err=%v) and read with GetDuration() = %v, err=%v; the text denotes %v (accepted [%v, %v], %v passed)`, text, uerr, got, gerr, want, lo, hi, el)
	}
}

func c19Texts(c *rig.Ctx) {
	n := 0
	if c.Index == 0 {
		for _, e := range c19TextTable {
			c19CheckText(c, "table", e.text, e.want)
			n++
		}
		// calendar units: the statement does not decide their length; recorded only
		for _, text := range []string{"P1M", "P1Y", "P1Y2M3DT4H5M6.7S"} {
			dt := model.DurationType(text)
			v, err := dt.GetTimeDuration()
			c.Seen("calendar_unit_texts_observed_not_judged", fmt.Sprintf("%s -> %v err=%v", text, v, err))
		}
	}
	var ex []string
	for i := 0; i < 2500; i++ {
		// log-uniform below the class, a tenth of them whole seconds/minutes/hours/days
		maxN := float64(d27Class/(100*time.Millisecond)) - 1
		nn := int64(math.Exp(c.Rand.Float64() * math.Log(maxN)))
		switch c.Rand.Intn(12) {
		case 0:
			nn -= nn % 10
		case 1:
			nn -= nn % 600
		case 2:
			nn -= nn % 36000
		case 3:
			nn -= nn % 864000
		}
		d := time.Duration(nn) * 100 * time.Millisecond
		if c.Rand.Intn(3) == 0 {
			d = -d
		}
		if d == 0 {
			continue
		}
		style, text := c19Spell(c, d)
		c19CheckText(c, style, text, d)
		if len(ex) < 8 {
			ex = append(ex, fmt.Sprintf("%s = %v", text, d))
		}
		n++
	}
	c.Events(int64(3 * n))
	c.Shape(fmt.Sprintf("texts block=%d table=%v", c.Index%10, c.Index == 0))
	c.NonTrivial(n >= 1000)
	c.Sample(map[string]any{"texts": n, "examples": ex})
}

// ---- instants ----------------------------------------------------------------------------------------------

var c19XsDateTime = regexp.MustCompile(`^(\d{4})-(\d\d)-(\d\d)T(\d\d):(\d\d):(\d\d)(\.\d{1,9})?(Z|[+-]\d\d:\d\d)?$`)

// c19JudgeInstantText: the text must be an xs:dateTime with a zone designator and denote tm (harness-side reading).
func c19JudgeInstantText(c *rig.Ctx, kind, text string, tm time.Time) {
	c.Count("instant_texts_judged_by_the_harness", 1)
	m := c19XsDateTime.FindStringSubmatch(text)
	if m == nil {
		c.Violate("instant/text/not-xs:dateTime", "%s: the text %q for %v is not an xs:dateTime", kind, text, tm.UTC())
		return
	}
	if m[8] == "" {
		c.Violate("instant/text/no-zone-designator", "%s: the text %q for %v carries no zone designator, so it does not denote an instant (a reader takes it as local time)", kind, text, tm.UTC())
		return
	}
	num := func(s string) int { v, _ := strconv.Atoi(s); return v }
	y, mo, d, h, mi, s := num(m[1]), num(m[2]), num(m[3]), num(m[4]), num(m[5]), num(m[6])
	ns := 0
	if m[7] != "" {
		f := m[7][1:]
		for len(f) < 9 {
			f += "0"
		}
		ns = num(f)
	}
	off := 0
	if m[8] != "Z" {
		off = num(m[8][1:3])*3600 + num(m[8][4:6])*60
		if m[8][0] == '-' {
			off = -off
		}
		c.Seen("instant_text_zone_forms", "offset")
	} else {
		c.Seen("instant_text_zone_forms", "Z")
	}
	local := time.Date(y, time.Month(mo), d, h, mi, s, ns, time.UTC)
	if local.Year() != y || int(local.Month()) != mo || local.Day() != d || local.Hour() != h || local.Minute() != mi || local.Second() != s {
		c.Violate("instant/text/not-xs:dateTime", "%s: the text %q for %v has a field out of range", kind, text, tm.UTC())
		return
	}
	if got := local.Add(-time.Duration(off) * time.Second); !got.Equal(tm) {
		c.Violate("instant/text/denotes-other-instant", "%s: the text %q denotes %v, want %v", kind, text, got, tm.UTC())
	}
}

func c19Instants(c *rig.Ctx) {
	if random := map[rig.Tier]int{rig.Quick: 10, rig.Thorough: 100}[c.Tier]; c.Index == random {
		c19InstantsLandmarks(c)
		return
	} else if c.Index > random {
		c19InstantsCarried(c)
		return
	}
	lo := time.Date(1, 1, 1, 0, 0, 0, 0, time.UTC).Unix()
	hi := time.Date(9999, 12, 31, 23, 59, 59, 0, time.UTC).Unix()
	n := 0
	var ex string
	for i := 0; i < 10000; i++ {
		tm := time.Unix(lo+c.Rand.Int63n(hi-lo), 0).UTC()
		if i%5 == 0 {
			tm = tm.In(time.FixedZone("x", (c.Rand.Intn(27)-13)*3600))
		}
		text := c19CheckInstant(c, tm)
		if i == 0 {
			ex = fmt.Sprintf("%v -> %s", tm, text)
		}
		n++
	}
	c.Count("instants", int64(n))
	c.Events(int64(n))
	c.Shape(fmt.Sprintf("instants block=%d", c.Index%10))
	c.NonTrivial(n >= 1000)
	c.Sample(map[string]any{"instants": n, "example": ex})
}

// ---- time periods with a relative end time ---------------------------------------------------------------

// c19PeriodBounds: the remaining duration of a relative end time d, read back after `el` of wall time has passed since the
// value was built, lies in [d - el - 1s, d + 1s] (every conversion rounds to the second once; a second rounding can only
// add when at least a second has passed).
func c19PeriodBounds(d, elMin, elMax time.Duration) (lo, hi time.Duration) {
	lo, hi = d-elMax-time.Second, d-elMin+time.Second
	if elMax >= time.Second {
		lo -= time.Second
	}
	return
}

// c19PeriodRoundTrip: a time period with the relative end time d through JSON and back; the remaining duration and the
// text on the wire are judged. A d that is not a whole number of seconds is rounded once more on its way (the end time is
// an instant with whole seconds), so its lower bound is a second lower.
func c19PeriodRoundTrip(c *rig.Ctx, d time.Duration) (out model.TimePeriodType, js string, got time.Duration, t0, t1 time.Time, ok bool) {
	t0 = time.Now()
	tp := model.NewTimePeriodTypeWithRelativeEndTime(d)
	b, err := json.Marshal(tp)
	js = string(b)
	if err == nil {
		if err = json.Unmarshal(b, &out); err == nil {
			got, err = out.GetDuration()
		}
	}
	t1 = time.Now()
	lo, hi := c19PeriodBounds(d, 0, t1.Sub(t0))
	if d%time.Second != 0 {
		lo -= time.Second
	}
	if err != nil {
		c.Violate("period/json-error", "d=%v json=%s err=%v", d, js, err)
		return
	} else if got < lo || got > hi {
		c.Violate("period/remaining-duration", "d=%v json=%s read back %v (accepted [%v, %v], %v passed)", d, js, got, lo, hi, t1.Sub(t0))
	}
	// the text on the wire, read by the harness
	var wire map[string]string
	if e := json.Unmarshal(b, &wire); e != nil || wire["endTime"] == "" || len(wire) != 1 {
		c.Violate("period/text/not-a-relative-end-time", "d=%v: the JSON %s is not {\"endTime\":<text>}", d, js)
	} else {
		c19JudgeDurationText(c, "period", "TimePeriodType JSON", wire["endTime"], lo, hi)
	}
	return out, js, got, t0, t1, true
}

// c19PeriodsPlaced: the landmark values of the relative end time (zero, the places where the text gains a field or
// changes its shape, values that are not whole seconds), both signs, and whole seconds next to them.
func c19PeriodsPlaced(c *rig.Ctx) {
	n := 0
	var ex []string
	for _, abs := range c19PeriodLandmarks() {
		for _, d := range []time.Duration{abs, -abs} {
			_, js, got, _, _, ok := c19PeriodRoundTrip(c, d)
			n++
			if d == 0 {
				c.Count("periods_with_zero_remaining_duration", 1)
			}
			if d%time.Second != 0 {
				c.Count("periods_with_a_relative_end_time_that_is_not_whole_seconds", 1)
			}
			if ok && len(ex) < 6 && n%9 == 1 {
				ex = append(ex, fmt.Sprintf("%v -> %s -> %v", d, js, got))
			}
		}
	}
	// many periods around each landmark, so that the case is not a handful of values
	lm := c19PeriodLandmarks()
	for i := 0; i < 1500; i++ {
		d := lm[c.Rand.Intn(len(lm))].Truncate(time.Second) + time.Duration(c.Rand.Intn(7)-3)*time.Second
		if c.Rand.Intn(3) == 0 {
			d = -d
		}
		if d >= d27Class || -d >= d27Class { // the known-finding class of the durations part
			continue
		}
		c19PeriodRoundTrip(c, d)
		n++
	}
	c.Count("periods_at_landmarks", int64(n))
	c.Events(int64(n))
	c.Shape("periods at landmark values of the relative end time, both signs")
	c.NonTrivial(n >= 1000)
	c.Sample(map[string]any{"periods": n, "examples": ex})
}

func c19Periods(c *rig.Ctx) {
	if c.Index >= map[rig.Tier]int{rig.Quick: 4, rig.Thorough: 40}[c.Tier] {
		c19PeriodsPlaced(c)
		return
	}
	n := 0
	var ex string
	caseStart := time.Now()
	wallStart := caseStart.Round(0) // wall clock reading without the monotonic part
	type held struct {
		d            time.Duration
		tp           model.TimePeriodType
		before, done time.Time // monotonic bracket of construction .. decode
		js           string
	}
	var keep []held
	if c.Index%4 == 0 {
		// the landmark values (zero first of all) are among those read again later: "remaining" must hold for them too
		for _, d := range []time.Duration{0, time.Second, -time.Second, 2 * time.Second, 59 * time.Second, time.Minute, time.Hour, 24 * time.Hour, -24 * time.Hour} {
			if out, js, _, t0, t1, ok := c19PeriodRoundTrip(c, d); ok {
				keep = append(keep, held{d: d, tp: out, before: t0, done: t1, js: js})
			}
			n++
		}
	}
	for i := 0; i < 2000; i++ {
		d := time.Duration(1+c.Rand.Int63n(3000*24*3600)) * time.Second
		if i%3 == 1 { // an end time in the past: the remaining duration is negative
			d = -d
			c.Count("periods_with_negative_remaining_duration", 1)
		}
		out, js, got, t0, t1, ok := c19PeriodRoundTrip(c, d)
		if ok && i%50 == 0 {
			keep = append(keep, held{d: d, tp: out, before: t0, done: t1, js: js})
		}
		if i == 0 {
			ex = fmt.Sprintf("%v -> %s -> %v", d, js, got)
		}
		n++
		// the same relative end time read into a value (and into a parent struct) that was decoded into before:
		// what an earlier message left there must not change how this one is read back
		if i%4 == 0 {
			text := string(*model.NewDurationType(d))
			var reused model.TimePeriodType
			_ = json.Unmarshal([]byte(`{"startTime":"PT0S","endTime":"PT2H"}`), &reused)
			err1 := json.Unmarshal([]byte(`{"endTime":"`+text+`"}`), &reused)
			g1, e1 := reused.GetDuration()
			var parent model.LoadControlLimitDataType
			_ = json.Unmarshal([]byte(`{"limitId":1,"timePeriod":{"startTime":"PT0S","endTime":"PT2H"}}`), &parent)
			err2 := json.Unmarshal([]byte(`{"limitId":1,"timePeriod":{"endTime":"`+text+`"}}`), &parent)
			var g2 time.Duration
			var e2 error = fmt.Errorf("no time period")
			if parent.TimePeriod != nil {
				g2, e2 = parent.TimePeriod.GetDuration()
			}
			c.Count("periods_decoded_into_reused_values", 2)
			for k, x := range []struct {
				g    time.Duration
				e, u error
			}{{g1, e1, err1}, {g2, e2, err2}} {
				df := x.g - d
				if df < 0 {
					df = -df
				}
				if x.u != nil || x.e != nil || df > 2*time.Second {
					c.Violate("period/reused-value", "relative end time %q decoded into a %s that held an earlier period: read back %v (unmarshal err=%v, GetDuration err=%v), want %v", text, []string{"TimePeriodType value", "parent struct"}[k], x.g, x.u, x.e, d)
				}
			}
		}
	}
	// "remaining": a decoded relative end time decreases with the clock. One case in four reads its sample again after
	// at least 1.5 s (the only sleep of the check, below 2 s).
	if c.Index%4 == 0 && len(keep) > 0 {
		if rest := 1500*time.Millisecond - time.Since(caseStart); rest > 0 {
			time.Sleep(rest)
		}
		judged := 0
		for _, h := range keep {
			r0 := time.Now()
			got, err := h.tp.GetDuration()
			r1 := time.Now()
			// the wall clock (which the library reads) must have moved like the monotonic one, else nothing can be said
			if dev := r1.Round(0).Sub(wallStart) - r1.Sub(caseStart); dev > 250*time.Millisecond || dev < -250*time.Millisecond {
				c.Inconclusive("the wall clock moved %v against the monotonic clock during the case: delayed read of relative end times not judged", dev)
				break
			}
			lo, hi := c19PeriodBounds(h.d, r0.Sub(h.done), r1.Sub(h.before))
			if err != nil {
				c.Violate("period/delayed-read-error", "d=%v json=%s: GetDuration() after %v: err=%v", h.d, h.js, r1.Sub(h.before), err)
			} else if got < lo || got > hi {
				c.Violate("period/remaining-duration-after-delay", "d=%v json=%s decoded, read again %v..%v later: GetDuration() = %v, the remaining duration is in [%v, %v]", h.d, h.js, r0.Sub(h.done), r1.Sub(h.before), got, lo, hi)
			}
			judged++
		}
		c.Count("periods_read_again_after_>=1.5s", int64(judged))
		n += judged
	}
	c.Count("periods", int64(n))
	c.Events(int64(n))
	c.Shape(fmt.Sprintf("periods block=%d delayed=%v", c.Index%10, c.Index%4 == 0))
	c.NonTrivial(n >= 1000)
	c.Sample(map[string]any{"periods": n, "example": ex})
}
