package checks

import (
	"encoding/json"
	"fmt"
	"math"
	"strconv"
	"time"

	"github.com/enbility/spine-go/model"

	"verifharness/rig"
)

// C19 — numeric and temporal conversions are exact within their declared precision.
//
// Oracles (DESIGN.md, C19): decimals k·10^-d are represented exactly (Number·10^Scale == k·10^-d as
// integers) and GetValue() equals v at the declared precision; random floats below 10^14 come back
// within 0.0001; durations n·100ms and instants with whole seconds round-trip exactly; a relative end
// time of a time period is read back to the second.

func init() {
	const block = 20000
	rig.Register(&rig.Check{
		ID:    "C19",
		Floor: 20,
		Rule: "deterministic blocks of inputs per part: decimals k*10^-d (dense |k|<=200000 per d, thorough adds strided |k|<=5*10^7), random finite floats over 28 decades below 10^14, " +
			"durations n*100ms (dense to 5.5h plus log-uniform to 200 years, both signs, through DurationType and AbsoluteOrRelativeTimeType), instants with whole seconds in years 1-9999 (a fifth in non-UTC zones), " +
			"time periods with a relative end time through JSON. A case is one block; it is non-trivial if at least 1000 conversions were compared; distinct = distinct (part, digits/decade/sign class) descriptors.",
		Assumptions: []string{
			"'the same number' for a decimal with up to four fractional digits is judged at the declared precision (round(x*10^4)); bitwise equality of the doubles is recorded, not demanded",
			"a relative end time moves with the wall clock: |delta| <= 1s is accepted and a case that straddles a second boundary is repeated once",
			"durations >= 3277 days are the known-finding class D27 (years/months re-expressed with average lengths); inside the class only a 48h bound is asserted",
		},
		Parts: []rig.Part{
			{Name: "decimals", Cases: func(t rig.Tier) int {
				n := 5 * (400001 + block - 1) / block
				if t == rig.Thorough {
					n += 5 * 100 // strided blocks
				}
				return n
			}, Run: c19Decimals, Procs: 1},
			{Name: "floats", Cases: func(t rig.Tier) int { return map[rig.Tier]int{rig.Quick: 12, rig.Thorough: 250}[t] }, Run: c19Floats, Procs: 1},
			{Name: "durations", Cases: func(t rig.Tier) int { return map[rig.Tier]int{rig.Quick: 30, rig.Thorough: 120}[t] }, Run: c19Durations, Procs: 1},
			{Name: "instants", Cases: func(t rig.Tier) int { return map[rig.Tier]int{rig.Quick: 10, rig.Thorough: 100}[t] }, Run: c19Instants, Procs: 1},
			{Name: "periods", Cases: func(t rig.Tier) int { return map[rig.Tier]int{rig.Quick: 4, rig.Thorough: 40}[t] }, Run: c19Periods, Procs: 1},
		},
	})
}

func c19CheckDecimal(c *rig.Ctx, k int64, d int) {
	v, _ := strconv.ParseFloat(fmt.Sprintf("%de-%d", k, d), 64)
	s := model.NewScaledNumberType(v)
	c.Count("decimals", 1)
	if s.Number == nil {
		c.Violate("decimal/nil-number", "NewScaledNumberType(%v) has no number", v)
		return
	}
	// exact representation: Number * 10^Scale == k * 10^-d as integers
	num, scale := int64(*s.Number), 0
	if s.Scale != nil {
		scale = int(*s.Scale)
	}
	// bring both to exponent -4
	lhs, okL := scaleTo(num, scale, -4)
	rhs, okR := scaleTo(k, -d, -4)
	if !okL || !okR || lhs != rhs {
		c.Violate("decimal/representation", "v=%s (k=%d d=%d): number=%d scale=%d does not represent the decimal", strconv.FormatFloat(v, 'f', -1, 64), k, d, num, scale)
	}
	g := s.GetValue()
	if math.Round(g*1e4) != math.Round(v*1e4) {
		c.Violate("decimal/declared-precision", "v=%s (k=%d d=%d): GetValue()=%s differs at the fourth decimal", strconv.FormatFloat(v, 'f', -1, 64), k, d, strconv.FormatFloat(g, 'f', -1, 64))
	}
	if g != v {
		c.Count("decimals_bitwise_differing", 1)
	}
}

func scaleTo(n int64, exp, target int) (int64, bool) {
	for exp > target {
		if n > math.MaxInt64/10 || n < math.MinInt64/10 {
			return 0, false
		}
		n *= 10
		exp--
	}
	for exp < target {
		if n%10 != 0 {
			return 0, false
		}
		n /= 10
		exp++
	}
	return n, true
}

func c19Decimals(c *rig.Ctx) {
	const block = 20000
	perD := (400001 + block - 1) / block
	dense := 5 * perD
	n := 0
	if c.Index < dense {
		d := c.Index / perD
		start := int64(-200000) + int64(c.Index%perD)*block
		for k := start; k < start+block && k <= 200000; k++ {
			c19CheckDecimal(c, k, d)
			n++
		}
		c.Shape(fmt.Sprintf("dense d=%d sign=%v", d, start < 0))
		c.Sample(map[string]any{"d": d, "k_from": start, "k_to": start + block - 1, "example": fmt.Sprintf("%de-%d", start, d)})
	} else {
		// strided: |k| up to 5*10^7, stride drawn from the case PRNG
		i := c.Index - dense
		d := i % 5
		for j := 0; j < block; j++ {
			k := c.Rand.Int63n(100000001) - 50000000
			c19CheckDecimal(c, k, d)
			n++
		}
		c.Shape(fmt.Sprintf("strided d=%d block=%d", d, i/5%4))
		c.Sample(map[string]any{"d": d, "random_k_in": "[-5e7,5e7]", "values": block})
	}
	c.Events(int64(n))
	c.NonTrivial(n >= 1000)
}

func c19Floats(c *rig.Ctx) {
	n := 0
	worst := 0.0
	decades := map[int]bool{}
	for i := 0; i < 20000; i++ {
		mag := c.Rand.Float64()*28 - 14
		v := math.Pow(10, mag) * (c.Rand.Float64()*2 - 1)
		if math.Abs(v) >= 1e14 || math.IsNaN(v) || math.IsInf(v, 0) {
			continue
		}
		n++
		decades[int(math.Floor(mag))] = true
		s := model.NewScaledNumberType(v)
		e := math.Abs(s.GetValue() - v)
		if e > worst {
			worst = e
		}
		if e > 0.0001 {
			c.Violate("float/error>0.0001", "v=%s -> number=%v scale=%v -> %s (error %g)", strconv.FormatFloat(v, 'g', -1, 64), deref(s.Number), deref(s.Scale), strconv.FormatFloat(s.GetValue(), 'g', -1, 64), e)
		}
	}
	c.Count("floats", int64(n))
	c.Events(int64(n))
	c.Shape(fmt.Sprintf("floats decades=%d block=%d", len(decades), c.Index%8))
	c.NonTrivial(n >= 1000 && len(decades) >= 20)
	c.Sample(map[string]any{"floats": n, "decades_covered": len(decades), "worst_abs_error": worst})
}

func deref[T any](p *T) any {
	if p == nil {
		return nil
	}
	return *p
}

const d27Class = 3277 * 24 * time.Hour

func c19CheckDuration(c *rig.Ctx, d time.Duration) {
	c.Count("durations", 1)
	check := func(kind string, back time.Duration, err error, text string) {
		abs := d
		if abs < 0 {
			abs = -abs
		}
		if err == nil && back == d {
			return
		}
		if abs >= d27Class {
			diff := back - d
			if diff < 0 {
				diff = -diff
			}
			if err != nil || diff >= 48*time.Hour {
				c.Violate("duration/>=3277d/gross", "%s %v -> %q -> %v err=%v (off by %v, in-class bound is 48h)", kind, d, text, back, err, diff)
			} else {
				c.Violate("duration/>=3277d/imprecise", "%s %v -> %q -> %v (off by %v)", kind, d, text, back, diff)
			}
			return
		}
		c.Violate("duration/round-trip", "%s %v -> %q -> %v err=%v", kind, d, text, back, err)
	}
	dt := model.NewDurationType(d)
	back, err := dt.GetTimeDuration()
	check("DurationType", back, err, string(*dt))
	a := model.NewAbsoluteOrRelativeTimeTypeFromDuration(d)
	back2, err2 := a.GetTimeDuration()
	check("AbsoluteOrRelativeTimeType", back2, err2, string(*a))
	if !a.IsRelativeTime() {
		c.Violate("duration/not-relative", "IsRelativeTime() false for %q", string(*a))
	}
}

func c19Durations(c *rig.Ctx) {
	n := 0
	switch {
	case c.Index < 20: // dense n <= 200000 (5.5h), 10000 per case, both signs
		start := int64(c.Index) * 10000
		for k := start; k < start+10000; k++ {
			d := time.Duration(k) * 100 * time.Millisecond
			c19CheckDuration(c, d)
			if k > 0 && k%7 == 0 {
				c19CheckDuration(c, -d)
			}
			n++
		}
		c.Shape(fmt.Sprintf("dense block=%d", c.Index))
		c.Sample(map[string]any{"n_from": start, "n_to": start + 9999, "unit": "100ms"})
	default: // log-uniform up to 200 years; the class >= 3277 days is D27
		inClass := 0
		for i := 0; i < 10000; i++ {
			maxN := 200.0 * 365 * 24 * 36000
			nn := int64(math.Exp(c.Rand.Float64() * math.Log(maxN)))
			d := time.Duration(nn) * 100 * time.Millisecond
			if d >= d27Class {
				inClass++
				if i%10 != 0 { // sample the known-finding class sparsely, it is asserted only against the 48h bound
					continue
				}
			}
			if c.Rand.Intn(2) == 0 {
				d = -d
			}
			c19CheckDuration(c, d)
			n++
		}
		c.Count("durations_in_class_>=3277d_drawn", int64(inClass))
		c.Shape(fmt.Sprintf("loguniform block=%d", c.Index%10))
		c.Sample(map[string]any{"log_uniform_up_to": "200y", "values": n})
	}
	c.Events(int64(n))
	c.NonTrivial(n >= 1000)
}

func c19Instants(c *rig.Ctx) {
	lo := time.Date(1, 1, 1, 0, 0, 0, 0, time.UTC).Unix()
	hi := time.Date(9999, 12, 31, 23, 59, 59, 0, time.UTC).Unix()
	n := 0
	var ex string
	for i := 0; i < 10000; i++ {
		tm := time.Unix(lo+c.Rand.Int63n(hi-lo), 0).UTC()
		if i%5 == 0 {
			tm = tm.In(time.FixedZone("x", (c.Rand.Intn(27)-13)*3600))
		}
		a := model.NewAbsoluteOrRelativeTimeTypeFromTime(tm)
		back, err := a.GetTime()
		if err != nil || !back.Equal(tm) {
			c.Violate("instant/round-trip", "AbsoluteOrRelativeTimeType %v -> %q -> %v err=%v", tm, string(*a), back, err)
		}
		if a.IsRelativeTime() {
			c.Violate("instant/taken-as-relative", "%q is reported as relative time", string(*a))
		}
		d := model.NewDateTimeTypeFromTime(tm)
		back2, err := d.GetTime()
		if err != nil || !back2.Equal(tm) {
			c.Violate("instant/datetime-round-trip", "DateTimeType %v -> %q -> %v err=%v", tm, string(*d), back2, err)
		}
		if i == 0 {
			ex = fmt.Sprintf("%v -> %s", tm, string(*a))
		}
		n++
	}
	c.Count("instants", int64(n))
	c.Events(int64(n))
	c.Shape(fmt.Sprintf("instants block=%d", c.Index%10))
	c.NonTrivial(n >= 1000)
	c.Sample(map[string]any{"instants": n, "example": ex})
}

func c19Periods(c *rig.Ctx) {
	n := 0
	var ex string
	for i := 0; i < 2000; i++ {
		d := time.Duration(1+c.Rand.Int63n(3000*24*3600)) * time.Second
		try := func() (time.Duration, string, error) {
			tp := model.NewTimePeriodTypeWithRelativeEndTime(d)
			b, err := json.Marshal(tp)
			if err != nil {
				return 0, "", err
			}
			var out model.TimePeriodType
			if err := json.Unmarshal(b, &out); err != nil {
				return 0, string(b), err
			}
			got, err := out.GetDuration()
			return got, string(b), err
		}
		got, js, err := try()
		diff := got - d
		if diff < 0 {
			diff = -diff
		}
		if err == nil && diff > time.Second {
			got, js, err = try() // may have straddled a second boundary
			diff = got - d
			if diff < 0 {
				diff = -diff
			}
		}
		if err != nil {
			c.Violate("period/json-error", "d=%v json=%s err=%v", d, js, err)
		} else if diff > time.Second {
			c.Violate("period/remaining-duration", "d=%v json=%s read back %v", d, js, got)
		}
		if i == 0 {
			ex = fmt.Sprintf("%v -> %s -> %v", d, js, got)
		}
		n++
		// the same relative end time read into a value (and into a parent struct) that was decoded into before:
		// what an earlier message left there must not change how this one is read back
		if i%4 == 0 {
			text := string(*model.NewDurationType(d))
			var reused model.TimePeriodType
			_ = json.Unmarshal([]byte(`{"startTime":"PT0S","endTime":"PT2H"}`), &reused)
			err1 := json.Unmarshal([]byte(`{"endTime":"`+text+`"}`), &reused)
			g1, e1 := reused.GetDuration()
			var parent model.LoadControlLimitDataType
			_ = json.Unmarshal([]byte(`{"limitId":1,"timePeriod":{"startTime":"PT0S","endTime":"PT2H"}}`), &parent)
			err2 := json.Unmarshal([]byte(`{"limitId":1,"timePeriod":{"endTime":"`+text+`"}}`), &parent)
			var g2 time.Duration
			var e2 error = fmt.Errorf("no time period")
			if parent.TimePeriod != nil {
				g2, e2 = parent.TimePeriod.GetDuration()
			}
			c.Count("periods_decoded_into_reused_values", 2)
			for k, x := range []struct {
				g    time.Duration
				e, u error
			}{{g1, e1, err1}, {g2, e2, err2}} {
				df := x.g - d
				if df < 0 {
					df = -df
				}
				if x.u != nil || x.e != nil || df > 2*time.Second {
					c.Violate("period/reused-value", "relative end time %q decoded into a %s that held an earlier period: read back %v (unmarshal err=%v, GetDuration err=%v), want %v", text, []string{"TimePeriodType value", "parent struct"}[k], x.g, x.u, x.e, d)
				}
			}
		}
	}
	c.Count("periods", int64(n))
	c.Events(int64(n))
	c.Shape(fmt.Sprintf("periods block=%d", c.Index%10))
	c.NonTrivial(n >= 1000)
	c.Sample(map[string]any{"periods": n, "example": ex})
}
