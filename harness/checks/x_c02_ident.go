package checks

import (
	"fmt"
	"reflect"

	"verifharness/rig"
)

// C02, the identifier dimension of the DATA (not of the filter).
//
// The shapes of rig.GenUpdate pin two things: every item of a full update carries its complete identifier, and
// the data of a partial+selector update carries no identifier element at all. The quantifier names "items
// without identifiers and multi-key identifiers" for existing lists as well as for update lists, and the rules
// do not exempt the identifier elements from "a partial update ... keeping items and fields it does not mention"
// (the elements it DOES mention are written) nor from "a selector confines the update to the matching item".
//
//  1. c02AddUnidentified: a full update (start state, full step; the only update that can put them there) also
//     lists one to three items WITHOUT identifier, or - multi-key types - with an INCOMPLETE identifier (some
//     identifier elements missing; several such items may share the elements they have). No identifier names
//     such an item, so every merge by identifier keeps it as it is, a selector naming the complete identifier
//     does not match it (it lacks a named element), an identifier-less update and a delete of elements reach it
//     like every other item. "At most one item per identifier" and the order by numeric identifier speak about
//     identifiers: they are judged for the items that have a complete one; order is not judged while the list
//     holds an item without complete identifier (counted).
//
//  2. c02GenSelIdent: the data of a partial+selector update names identifier elements: the identifier of the
//     selected item again (nothing moves), a complete NEW identifier that no stored item holds (the selected item
//     is renumbered), or - multi-key types - ONE element of the identifier with a new value such that the
//     resulting identifier is held by no stored item. The fold is the plain overlay of the statement: the matching
//     item takes every element the data mentions, all other items stay as they are. Only targets that keep the
//     identifiers unique are generated (well-formedness). Whether the list is still ordered by numeric identifier
//     after a renumbering that moves the item out of its place is counted, not judged (see the report of the check).

// c02Identified: the item carries its complete identifier.
func c02Identified(li *rig.ListInfo, it reflect.Value) bool {
	_, ok := li.KeyOf(it)
	return ok
}

func c02CountUnidentified(li *rig.ListInfo, items []reflect.Value) int {
	n := 0
	if len(li.Keys) == 0 {
		return 0
	}
	for _, it := range items {
		if !c02Identified(li, it) {
			n++
		}
	}
	return n
}

// c02AddUnidentified adds, to a third of the full updates, one to three items without (complete) identifier at
// random places of the list.
func c02AddUnidentified(c *rig.Ctx, li *rig.ListInfo, u *rig.Update) {
	r := c.Rand
	if u.Kind != "full" || len(li.Keys) == 0 || r.Intn(3) != 0 {
		return
	}
	n := 1 + r.Intn(3)
	incomplete := 0
	for i := 0; i < n; i++ {
		var it reflect.Value
		if len(li.Keys) > 1 && r.Intn(2) == 0 {
			// an incomplete multi-key identifier: the elements of identifier id with a non-empty proper subset missing;
			// half of them keep a prefix (only trailing elements missing)
			it = li.NewItem(r, r.Intn(c02Dom))
			if r.Intn(2) == 0 {
				from := 1 + r.Intn(len(li.Keys)-1)
				for _, k := range li.Keys[from:] {
					it.Field(k).Set(reflect.Zero(it.Field(k).Type()))
				}
			} else {
				miss := 1 + r.Intn(len(li.Keys)-1)
				for _, j := range r.Perm(len(li.Keys))[:miss] {
					k := li.Keys[j]
					it.Field(k).Set(reflect.Zero(it.Field(k).Type()))
				}
			}
			incomplete++
		} else {
			it = li.NewItem(r, -1)
		}
		at := r.Intn(len(u.Items) + 1)
		u.Items = append(u.Items, reflect.Value{})
		copy(u.Items[at+1:], u.Items[at:])
		u.Items[at] = it
	}
	c.Count(fmt.Sprintf("full-updates-listing-items-without-complete-identifier:items=%d", n), 1)
	if incomplete > 0 {
		c.Count("full-updates-listing-items-with-incomplete-multi-key-identifier", 1)
	}
}

// c02GenSelIdent draws a partial+selector update whose data names identifier elements, from the stored items cur.
func c02GenSelIdent(c *rig.Ctx, li *rig.ListInfo, cur []reflect.Value) (rig.Update, bool) {
	r := c.Rand
	u := rig.Update{SelKey: -1, DelSel: -1}
	if !li.SelCoversKeys || len(li.Keys) == 0 || len(cur) == 0 {
		return u, false
	}
	// the selected item: a stored item holding the complete identifier of a domain value (the selector names it)
	const span = c02Dom + 2
	type cand struct{ at, id int }
	var cands []cand
	held := map[int]bool{}
	for at, it := range cur {
		if !c02Identified(li, it) {
			continue
		}
		for id := 0; id < span; id++ {
			if li.Matches(it, id) {
				cands = append(cands, cand{at, id})
				held[id] = true
			}
		}
	}
	if len(cands) == 0 {
		return u, false
	}
	sel := cands[r.Intn(len(cands))]
	u.SelKey = sel.id
	data := li.NewItem(r, -1)
	form := ""
	switch x := r.Intn(6); {
	case x == 0:
		form = "repeats-the-selected-identifier"
		for _, k := range li.Keys {
			data.Field(k).Set(li.NewItem(r, sel.id).Field(k))
		}
	case x < 4 || len(li.Keys) == 1:
		form = "complete-new-identifier"
		var free []int
		for id := 0; id < span; id++ {
			if !held[id] {
				free = append(free, id)
			}
		}
		if len(free) == 0 {
			return u, false
		}
		// preferably an identifier of the domain proper, so that later updates address the renumbered item
		id := free[r.Intn(len(free))]
		if free[0] < c02Dom && r.Intn(3) != 0 {
			id = free[0]
		}
		for _, k := range li.Keys {
			data.Field(k).Set(li.NewItem(r, id).Field(k))
		}
	default:
		form = "one-element-of-a-multi-key-identifier"
		j := r.Intn(len(li.Keys))
		k := li.Keys[j]
		was := rig.Canon(cur[sel.at].Field(k).Elem())
		set := false
		for _, id := range r.Perm(span) {
			if v := li.NewItem(r, id).Field(k); rig.Canon(v.Elem()) != was {
				data.Field(k).Set(v)
				set = true
				break
			}
		}
		if !set {
			return u, false
		}
	}
	u.Kind = "partial-sel-ident"
	u.Items = []reflect.Value{data}
	// well-formed only: the identifiers stay unique
	after := li.RefApply(cur, u)
	if duplicateId(li, after) != "" {
		return u, false
	}
	if _, _, ok := li.Filters(u); !ok {
		return u, false
	}
	c.Count("partial-sel-data-names-identifier-elements:"+form, 1)
	if form != "repeats-the-selected-identifier" {
		if orderedByNumericId(li, cur) && !orderedByNumericId(li, after) {
			c.Count("partial-sel-data-names-identifier-elements:renumbering-moves-the-item-out-of-numeric-order", 1)
		} else {
			c.Count("partial-sel-data-names-identifier-elements:renumbering-keeps-numeric-order", 1)
		}
	}
	c.Seen("partial_sel_ident_functions", string(li.Fn))
	return u, true
}
