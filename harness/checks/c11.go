package checks

import (
	"encoding/json"
	"fmt"
	"hash/fnv"
	"math/rand"
	"reflect"
	"runtime"
	"strings"
	"sync"
	"sync/atomic"
	"time"

	"github.com/enbility/spine-go/api"
	"github.com/enbility/spine-go/model"
	"github.com/enbility/spine-go/spine"
	"github.com/enbility/spine-go/util"

	"verifharness/rig"
)

// C11 — data handed to the application is a stable snapshot.
//
// Monitor: every value the stack hands out — DataCopy results of local and remote features, the Data of
// data-change events (taken from the synchronous core sink), the value UpdateData returns — is retained
// together with a fingerprint (canonical rendering that follows every pointer and slice) taken at the
// moment it was obtained. After every later update, at the end of the history and at the end of the
// case all retained values are fingerprinted again: sharing of a backing array with the store shows up
// as a changed fingerprint. The store's own fingerprint must survive UpdateData(persist=false) and
// every update that reported failure (error return, error result datagram).
//
//	lists     every list function, C02's update generator; paths remote-api (persisting and not), reply/notify
//	          datagrams, local-api, remote writes from a bound peer (failing: unknown identifiers, unchangeable
//	          elements), plus a function without partial support (partial / non-persisting update must fail)
//	          Delete filters whose ELEMENTS name sub elements of a struct-typed element ({value:{number:{}}},
//	          {timePeriod:{endTime:{}}}; rig.Update.NestedElem, set by this check only) are part of the histories:
//	          a stack that serves them through the item's pointer writes into a nested struct that the list
//	          clone of an update shares with the store and with every value handed out earlier.
//	usecases  the four use-case mutators on two local entities + use-case replies of a peer
//	race      (-race binary) reader goroutines json.Marshal the retained values in a loop while the writer
//	          applies the history: a report between a reader and spine-go/model is a C11 violation
//
// Observer effect. A DataCopy is itself an operation on the store: a stack that clones its lists lazily
// ("only if a copy was handed out since the last store") behaves perfectly for a monitor that reads after
// every update, and wrongly for an application that only keeps what it is GIVEN. A third of the list
// histories (also in the race part) are therefore BLIND: the monitor retains nothing but the payloads of
// the data-change events (core sink), the Data of response callbacks and the values UpdateData returns,
// re-fingerprints them after every update (which does not touch the store) and reads the store for the
// first time when the history is over. Blind histories start with a full data set delivered through the
// path under test (full reply/notify, full remote write, full UpdateData) and prefer, right after a full
// update, the shapes the model applies to the items in place (selector, identifier-less, delete elements).

// Strengthening after the coverage audit (notes/audit/audit_C10C11C12.md):
//
//   - failing updates through EVERY path (local API, FeatureRemote.UpdateData persisting and not, reply, notify,
//     remote write): every sixth step of a list history is an update the data model cannot apply (partial filter
//     with a selector, optionally preceded by a delete filter with selector and/or elements that hits existing
//     items, with an empty list or with no payload at all); if the stack reports failure the store fingerprint
//     must be unchanged (c11FailingShape).
//   - "later" also means: the peer announces its features again (with and without the feature holding the
//     data), the peer's entity or the local entity is removed, the connection is removed. A third of the list
//     cases (half of the race cases) end that way and every retained value is re-fingerprinted (c11Teardown).
//   - event payloads and response-callback Data are fingerprinted INSIDE HandleEvent / inside the callback
//     (c11Tap), so a payload the stack changes between the publication and the end of the same message
//     handling differs at the next recheck.
//   - a reader goroutine calls DataCopy of both stores while the history goroutine updates them (every
//     fourth list case and every race case) and keeps the results: each must be one of the store states
//     the only writer produced (fingerprint membership; c11Reader), and stays retained afterwards.
//   - the number of list-typed functions is pinned (c11PinDomain).
//
// Strengthening after wave 6 (c11_later.go): "later" is not only updates of the function but also reads the stack
// serves from the same store and changes of the device tree the data talks about (c11ReadOp; read / entity steps
// of the use case histories; the peer's use case data names entities the peer has, had or never had), and the
// filters of an update also come in unusual forms (c11OddFilters).
func init() {
	nl := len(rig.DiscoverLists())
	rig.Register(&rig.Check{
		ID:    "C11",
		Floor: 150,
		Rule: "lists: case = (list function, block): histories of 6-10 updates drawn with C02's generator (all eight shapes, identifier domain 4; where the elements type of the list has struct-typed members, every second delete filter that names elements names SUB elements of one of them instead, shapes delete-elem-sub and delete-sel-elem-sub, whose effect on the data is not judged) through one of the paths remote-api (each update first tried with persist=false), " +
			"reply/notify datagrams, local-api, remote write datagrams of a bound peer mixed with local updates; every sixth update is one the model cannot apply (selector partial filter, alone or after a delete filter aimed at existing items, with an empty list or without payload) and must leave the store unchanged if it is reported as failed; every DataCopy result (before and after each update), every data-change event payload and every value returned by UpdateData is retained with its fingerprint " +
			"and re-fingerprinted after every later update, at the end of the history and of the case; a third of the histories is BLIND (the monitor retains only event payloads, response-callback Data and values returned by UpdateData, starts from a full data set delivered through the path under test, " +
			"prefers in-place shapes right after a full update and reads the store for the first time at the end of the history; store clauses are not judged there); each case also drives one function without partial support through failing partial and non-persisting updates; event payloads and callback Data are fingerprinted at delivery (inside the handler); every fourth case runs a second goroutine calling DataCopy during the histories (each result must be a state the writer produced); a third of the cases end with a re-announcement, an entity removal or the removal of the connection, after which all retained values are re-checked; " +
			"every sixth of the other updates carries its filters in an unusual form (delete filter naming neither selector nor elements, alone or next to the partial filter; filters without cmdControl or with both controls; an empty filter; the two filters swapped; a partial filter with elements; a delete filter with items that carry identifiers; over the wire also a selector of another function), judged by the same clauses only; " +
			"after every third update of a non-blind history the stack serves an operation that is NOT an update of the function (read request of the peer: full, with selector, with elements, aimed at the client feature; read of the discovery data; RequestRemoteData; the peer subscribes to / unsubscribes from the local store; DataCopy of both stores) and every retained value of the history is re-fingerprinted (changed-by/read/<operation>); one of these operations is the application itself encoding (json.Marshal) a value it retained. " +
			"The time values of the items of every generated update come in varied FORMS (x_c11_times.go): a timePeriod keeps the generator's absolute start time in 3 of 10 draws, otherwise it has only an endTime that is a duration literal (3 of 10; the form the wire decoder never produces), only an absolute endTime, durations for both, only a start duration, or is empty; other absoluteOrRelativeTime / duration values are a duration or an absolute time in 3 of 4 draws; none depends on the clock. " +
			"usecases: histories of 12-20 calls of AddUseCaseSupport/SetUseCaseAvailability/RemoveUseCaseSupport/RemoveAllUseCaseSupports on two entities (one of which is now and then removed and added again), use case replies/notifies of a peer that has three entities (three quarters of them name entities the peer has, had or never announced, with and without device address; the rest is random data), partial discovery notifies that remove such an entity or add it again, and read steps (DeviceRemote.UseCases, Remote/LocalFeatureDataCopyOfType, HasUseCaseSupport, the peer reading use case and discovery data); snapshots of nodeManagementUseCaseData of both sides, the lists returned by UseCases() and the event payloads are retained and re-fingerprinted after EVERY step, reads included. " +
			"race: the same workloads with three reader goroutines encoding the retained values concurrently (race detector). " +
			"A case is non-trivial if at least 200 fingerprint re-checks were made on at least 20 retained values and (lists) at least one non-persisting and one failed update were judged and at least two blind histories retained at least 10 values before their first read and at least 10 operations other than updates and 5 updates with unusual filters were executed; (usecases) at least 5 read steps, one of them while the peer's data named an entity the peer did not have; distinct = distinct (part, function, sequence of (path, shape)).",
		Assumptions: []string{
			"a fingerprint is the canonical rendering of rig.Canon (follows pointers and slices; nil and empty list identified)",
			"'reported as failed' = UpdateData returned an error, or the peer received an error result for its reply/notify/write",
			"values returned by UpdateData and the Data of response callbacks are data handed to the application as well and are retained (signature prefixes result/, response-callback/)",
			"re-fingerprinting a retained value is not an operation on the stack; DataCopy is (blind histories exist because a monitor that reads after every update can mask a lazily copying store)",
			"a reader goroutine only reads values obtained before; the only writer to that memory can be the stack",
			"an update of a shape the model cannot apply is only judged if the stack reports it as failed (what must fail is not part of the statement)",
			"the concurrent DataCopy reader is judged on fingerprints only: its result must equal a store state the history goroutine (the only writer) read after one of its updates; it is parked during blind histories",
			"an operation that is not an update of the function (a read served by the stack, a subscription, a change of the peer's or the local entity tree) is 'later' in the sense of the statement: a value handed out before it must have the same fingerprint after it; what the read returns is not judged",
			"unusual filter forms are generated for the peer (wire) and for the application's own UpdateData calls alike, except a selector of another function's type, which only the peer sends (an application passing a wrongly typed selector is outside the quantifier); what such an update does to the data is not judged, only the clauses 'not persisted / reported as failed => store unchanged' and 'values handed out earlier do not change'",
			"the form of a time value is input, not expectation: fingerprints are taken of the Go values (a retained value is compared with itself), never of JSON, so the clock-dependent re-expression of an endTime without startTime by the encoder/decoder of timePeriod cannot reach a verdict; what the wire decoder stores for such a value is not judged",
			"the application encoding (json.Marshal) a value it holds is a read of that value by its owner: no value handed out may change through it",
			"86 functions of the Generic/NodeManagement features have a list-of-structs data type; 83 support partial updates and form the domain, three (directControlActivityListData, sensingListData, setpointConstraintsListData) have no UpdateList in the library and are pinned as such",
		},
		Parts: []rig.Part{
			{Name: "lists", Cases: func(t rig.Tier) int {
				if t == rig.Thorough {
					return nl * 24
				}
				return nl * 4
			}, Run: c11Lists, Procs: 2},
			{Name: "usecases", Cases: func(t rig.Tier) int { return map[rig.Tier]int{rig.Quick: 60, rig.Thorough: 1200}[t] }, Run: c11UseCases, Procs: 2},
			{Name: "race", Race: true, Cases: func(t rig.Tier) int { return map[rig.Tier]int{rig.Quick: 48, rig.Thorough: 400}[t] }, Run: c11Race, Procs: 4},
		},
	})
}

// ---------------------------------------------------------------------------
// retained values

type c11Kept struct {
	src  string // datacopy-remote | datacopy-local | event-reply | event-notify | event-write | result
	v    any
	fp   string
	when string // what had just happened when it was obtained
}

type c11Keeper struct {
	c       *rig.Ctx
	fn      model.FunctionType
	cur     []*c11Kept // of the running history
	old     []*c11Kept // of earlier histories of the case
	checks  int
	kept    int
	hist    []string
	pool    *c11Pool // shared with reader goroutines in the race part (nil otherwise)
	changed int

	blind       bool // a blind history is running: no read of the store until it is over
	blindKept   int  // values retained during blind histories before the first read
	blindChecks int  // re-fingerprints made while no read had happened yet

	// response callback for reply datagrams (registered on the local client feature for the counter the
	// replies reference): its Data is data handed to the application too
	respCh      chan c11Delivered
	respFn      func(api.ResponseMessage)
	respPending bool
	respOff     bool

	tap *c11Tap    // core-level event handler that fingerprints data-change payloads INSIDE HandleEvent
	rd  *c11Reader // concurrent DataCopy reader (nil: none)

	subscribed bool // the peer's client feature is subscribed to the local store (c11ReadOp toggles it)
}

// c11Delivered is a value together with the fingerprint taken at the moment the stack delivered it (inside
// HandleEvent / inside the response callback), not when the monitor gets round to looking at it.
type c11Delivered struct {
	v  any
	fp string
	cl string
}

// c11Tap is subscribed at the core level next to the World's sink: core handlers run synchronously inside
// Publish, so the fingerprint is what the application sees at delivery. A payload that the stack changes
// between the publication and the end of the same message handling differs from it at the next recheck.
type c11Tap struct {
	mu     sync.Mutex
	prefix string
	evs    []c11Delivered
}

func (t *c11Tap) HandleEvent(p api.EventPayload) {
	if p.EventType != api.EventTypeDataChange || p.Data == nil {
		return
	}
	if t.prefix != "" && p.Ski != "" && !strings.HasPrefix(p.Ski, t.prefix) {
		return
	}
	cl := "?"
	if p.CmdClassifier != nil {
		cl = string(*p.CmdClassifier)
	}
	d := c11Delivered{v: p.Data, fp: rig.CanonAny(p.Data), cl: cl}
	t.mu.Lock()
	t.evs = append(t.evs, d)
	t.mu.Unlock()
}

func (t *c11Tap) take() []c11Delivered {
	t.mu.Lock()
	defer t.mu.Unlock()
	r := t.evs
	t.evs = nil
	return r
}

// attach subscribes the delivery tap (spine.Events is process-global: always detach).
func (k *c11Keeper) attach(tag string) {
	k.tap = &c11Tap{prefix: tag}
	_ = spine.VerifSubscribeCore(k.tap)
}

func (k *c11Keeper) detach() {
	if k.tap != nil {
		_ = spine.VerifUnsubscribeCore(k.tap)
	}
}

func (k *c11Keeper) keep(src string, v any, when string) {
	if v == nil {
		return
	}
	k.keepFP(src, v, rig.CanonAny(v), when)
}

// keepFP retains v with a fingerprint that was taken earlier (at delivery).
func (k *c11Keeper) keepFP(src string, v any, fp string, when string) {
	if v == nil {
		return
	}
	e := &c11Kept{src: src, v: v, fp: fp, when: when}
	k.cur = append(k.cur, e)
	k.kept++
	if k.blind {
		k.blindKept++
		k.c.Count("blind_retained:"+src, 1)
	}
	if k.pool != nil {
		k.pool.add(v)
	}
}

// recheck fingerprints the retained values again; by names the update that has just been processed.
func (k *c11Keeper) recheck(set []*c11Kept, by string) {
	for _, e := range set {
		k.checks++
		if k.blind {
			k.blindChecks++
		}
		if now := rig.CanonAny(e.v); now != e.fp {
			k.changed++
			k.c.Violate(e.src+"/changed-by/"+by, "%s: a value obtained from %s (%s) changed after a later %s\n was: %s\n now: %s\n history:\n   %s",
				k.fn, e.src, e.when, by, e.fp, now, strings.Join(k.hist, "\n   "))
			k.c.Witness(map[string]any{"function": k.fn, "source": e.src, "obtained": e.when, "changed_by": by, "was": e.fp, "now": now, "history": k.hist})
			e.fp = now
		}
	}
}

func (k *c11Keeper) endHistory() {
	k.recheck(k.cur, "end-of-history")
	// keep a bounded number across histories: they must survive whatever comes later
	k.old = append(k.old, k.cur...)
	if len(k.old) > 600 {
		k.old = k.old[len(k.old)-600:]
	}
	k.cur = nil
}

// keepEvents retains the payloads of the data-change events published since the last call.
func (k *c11Keeper) keepEvents(w *rig.World, when string) int {
	n := 0
	if k.tap != nil {
		w.Core.Take()
		for _, d := range k.tap.take() {
			k.keepFP("event-"+d.cl, d.v, d.fp, when+", fingerprint taken inside HandleEvent")
			k.c.Count("event_payloads_fingerprinted_at_delivery", 1)
			n++
		}
		return n
	}
	for _, ev := range w.Core.Take() {
		if ev.P.EventType != api.EventTypeDataChange || ev.P.Data == nil {
			continue
		}
		cl := "?"
		if ev.P.CmdClassifier != nil {
			cl = string(*ev.P.CmdClassifier)
		}
		k.keep("event-"+cl, ev.P.Data, when)
		n++
	}
	return n
}

// ---------------------------------------------------------------------------
// concurrent DataCopy reader (audit gap 3)

// c11Reader calls DataCopy of both stores concurrently with the updates of the history goroutine and keeps
// every result with its fingerprint. The history goroutine (the only writer) notes the fingerprint of every
// store state it produced (it reads the store after every update anyway). Verdict, on fingerprints only:
// every value the reader obtained is one of the states the writer produced. The reader is parked during
// blind histories (a DataCopy is an observer; the gate is a harness lock that is never held across an update).
type c11Reader struct {
	gate sync.RWMutex
	on   bool
	stop atomic.Bool
	wg   sync.WaitGroup

	mu     sync.Mutex
	got    []c11Delivered             // cl = store name
	states map[string]map[string]bool // store -> fingerprints of the states the writer produced (writer only)
	reads  int
}

func (k *c11Keeper) startReader(lw *listWorld, seed int64) {
	rd := &c11Reader{on: true, states: map[string]map[string]bool{"local": {}, "remote": {}}}
	k.rd = rd
	fn := lw.li.Fn
	k.note("local", lw.local.DataCopy(fn))
	k.note("remote", lw.remote.DataCopy(fn))
	rr := rand.New(rand.NewSource(seed))
	rd.wg.Add(1)
	go func() {
		defer rd.wg.Done()
		defer func() {
			if p := recover(); p != nil {
				k.c.Violate("concurrent-datacopy/panic", "a DataCopy concurrent with updates (or fingerprinting its result) panicked: %v", p)
			}
		}()
		for !rd.stop.Load() {
			rd.gate.RLock()
			if rd.on {
				store, v := "local", any(nil)
				if rr.Intn(2) == 0 {
					v = lw.local.DataCopy(fn)
				} else {
					store, v = "remote", lw.remote.DataCopy(fn)
				}
				fp := rig.CanonAny(v)
				rd.mu.Lock()
				rd.reads++
				if n := len(rd.got); n < 600 && (n == 0 || rd.got[n-1].fp != fp || rd.got[n-1].cl != store || rr.Intn(8) == 0) {
					rd.got = append(rd.got, c11Delivered{v: v, fp: fp, cl: store})
				}
				rd.mu.Unlock()
			}
			rd.gate.RUnlock()
			// pacing only (the verdict is on fingerprints): spread a bounded number of reads over the histories
			if rd.reads >= 1200 {
				return
			}
			time.Sleep(30 * time.Microsecond)
		}
	}()
}

// note records a store state the writer produced or found (called by the history goroutine only).
func (k *c11Keeper) note(store string, v any) {
	if k.rd != nil {
		k.rd.states[store][rig.CanonAny(v)] = true
	}
}

// pause parks (on=false) or resumes the reader; returns when no DataCopy of the reader is in flight.
func (k *c11Keeper) pause(parked bool) {
	if k.rd != nil {
		k.rd.gate.Lock()
		k.rd.on = !parked
		k.rd.gate.Unlock()
	}
}

// stopReader joins the reader and judges what it obtained; the values stay retained.
func (k *c11Keeper) stopReader() {
	rd := k.rd
	if rd == nil {
		return
	}
	rd.stop.Store(true)
	rd.wg.Wait()
	k.rd = nil
	k.c.Count("concurrent_datacopy_calls", int64(rd.reads))
	k.c.Count("concurrent_datacopy_results_judged", int64(len(rd.got)))
	distinct := map[string]bool{}
	for _, g := range rd.got {
		k.checks++
		distinct[g.cl+g.fp] = true
		if !rd.states[g.cl][g.fp] {
			k.c.Violate("concurrent-datacopy/not-a-state-the-writer-produced", "%s: a DataCopy of the %s store made concurrently with the updates returned a value that is none of the %d states the (only) writer produced\n got: %s",
				k.fn, g.cl, len(rd.states[g.cl]), g.fp)
		}
		k.keepFP("datacopy-"+g.cl+"-concurrent", g.v, g.fp, "obtained by the concurrent reader")
	}
	k.c.Count("concurrent_datacopy_distinct_states_seen", int64(len(distinct)))
}

// ---------------------------------------------------------------------------
// failing updates through every path (audit gap 1)

// c11FailingShape builds an update the data model cannot apply: a partial filter WITH a selector needs an
// item carrying the values, and there is none (empty list, or no payload at all: nilPayload). Variants
// combine it with a delete filter (selector / elements), which the model processes first: a stack that keeps
// the half-done work of an update it then reports as failed has deleted something. The selectors aim at
// identifiers that exist in the store. Whether the stack reports failure is its business; IF it does, the
// store must be as it was.
func c11FailingShape(r *rand.Rand, li *rig.ListInfo, store any) (u rig.Update, nilPayload bool, ok bool) {
	if !li.SelCoversKeys || len(li.Keys) == 0 {
		return u, false, false
	}
	pick := func() int {
		if ids := c11PresentIds(li, li.Items(store)); len(ids) > 0 && r.Intn(5) > 0 {
			return ids[r.Intn(len(ids))]
		}
		return r.Intn(c02Dom)
	}
	u = rig.Update{SelKey: pick(), DelSel: -1}
	kind := "partial-sel"
	switch x := r.Intn(4); {
	case x == 1:
		u.DelSel = pick()
		kind = "del-sel+partial-sel"
	case x == 2 && li.ElT != nil && len(li.NonKeyPtr) > 0:
		u.DelElem = []int{li.NonKeyPtr[r.Intn(len(li.NonKeyPtr))]}
		kind = "del-elem+partial-sel"
	case x == 3 && li.ElT != nil && len(li.NonKeyPtr) > 0:
		u.DelSel = pick()
		u.DelElem = []int{li.NonKeyPtr[r.Intn(len(li.NonKeyPtr))]}
		kind = "del-sel-elem+partial-sel"
	}
	nilPayload = r.Intn(3) == 0
	if nilPayload {
		u.Kind = "no-payload/" + kind
	} else {
		u.Kind = "empty-list/" + kind
	}
	if _, _, fok := li.Filters(u); !fok {
		return u, false, false
	}
	return u, nilPayload, true
}

// wireNoPayload builds a datagram whose command names the function and carries the filters of u but no data.
func (lw *listWorld) wireNoPayload(u rig.Update, cl model.CmdClassifierType, src, dst *model.FeatureAddressType) ([]byte, model.MsgCounterType, error) {
	mc := lw.p.NextCounter()
	fp, fd, _ := lw.li.Filters(u)
	fn := lw.li.Fn
	cmd := model.CmdType{Function: &fn}
	if fd != nil {
		cmd.Filter = append(cmd.Filter, *fd)
	}
	if fp != nil {
		cmd.Filter = append(cmd.Filter, *fp)
	}
	var ref *model.MsgCounterType
	if cl == model.CmdClassifierTypeReply {
		ref = util.Ptr(c11ReplyRef)
	}
	b, err := json.Marshal(rig.Datagram(cl, src, dst, mc, true, ref, cmd))
	return b, mc, err
}

// ---------------------------------------------------------------------------
// what comes "later" than the updates (audit gap 2)

var c11Teardowns = []string{"re-announce", "re-announce-without-the-server-feature", "remote-entity-removed", "local-entity-removed", "connection-removed"}

// c11Teardown ends a case with one of the operations that dispose of features and their function data:
// the peer announces its features again (the stack rebuilds the remote features), the peer's entity or the
// local entity is removed, or the connection goes away. Whatever the stack does with the data it held,
// every value handed out earlier stays as it was. Both stores are filled and read once more right before.
func c11Teardown(c *rig.Ctx, lw *listWorld, k *c11Keeper, kind string) {
	li, fn := lw.li, lw.li.Fn
	k.hist = []string{"teardown " + kind}
	for i := 0; i < 2; i++ {
		u, _ := li.GenUpdate(c.Rand, 0, c02Dom)
		for try := 0; try < 4 && len(u.Items) == 0; try++ {
			u, _ = li.GenUpdate(c.Rand, 0, c02Dom)
		}
		c11TimeForms(c, li, &u)
		if i == 0 {
			ret, _ := lw.remote.UpdateData(true, fn, li.MkList(rig.CloneItems(u.Items)), nil, nil)
			k.keep("result", ret, "full update before the teardown")
			k.keep("datacopy-remote", lw.remote.DataCopy(fn), "before the teardown")
		} else {
			lw.local.SetData(fn, li.MkList(rig.CloneItems(u.Items)))
			k.keep("datacopy-local", lw.local.DataCopy(fn), "before the teardown")
		}
		k.hist = append(k.hist, "full "+u.String())
	}
	lw.p.Tap.Take()
	switch kind {
	case "re-announce":
		lw.p.Announce(listFeats(lw.T))
	case "re-announce-without-the-server-feature":
		lw.p.Announce(listFeats(lw.T)[:2])
	case "remote-entity-removed":
		lw.p.NotifyDiscovery(true, lw.p.Discovery(nil, nil, [][]uint{{1}}))
	case "local-entity-removed":
		lw.w.Local.RemoveEntity(lw.localCli.Entity())
	case "connection-removed":
		lw.w.Local.RemoveRemoteDeviceConnection(lw.p.Ski)
	}
	k.keepEvents(lw.w, "event of the teardown")
	c.Count("teardown:"+kind, 1)
	k.recheck(k.cur, "teardown/"+kind)
	k.recheck(k.old, "teardown/"+kind)
	k.endHistory()
}

// ---------------------------------------------------------------------------
// part "lists"

type c11NonList struct {
	Fn model.FunctionType
	T  reflect.Type
}

var (
	c11NonListsOnce sync.Once
	c11NonListFns   []c11NonList
)

// c11NonLists: functions of a Generic feature whose data type has no partial support.
func c11NonLists() []c11NonList {
	c11NonListsOnce.Do(func() {
		for _, fd := range spine.CreateFunctionData[api.FunctionDataCmdInterface](model.FeatureTypeTypeGeneric) {
			if !fd.SupportsPartialWrite() {
				c11NonListFns = append(c11NonListFns, c11NonList{fd.FunctionType(), reflect.TypeOf(fd.DataCopyAny()).Elem()})
			}
		}
	})
	return c11NonListFns
}

func c11Lists(c *rig.Ctx) {
	lists := rig.DiscoverLists()
	li := &lists[c.Index%len(lists)]
	lw, err := newListWorld(c.Tag(), li, li.FeatureType, true)
	if err != nil {
		c.Violate("harness-world", "%v", err)
		return
	}
	defer lw.close()
	if c.Index == 0 {
		c11PinDomain(c, lists)
	}
	k := &c11Keeper{c: c, fn: li.Fn}
	k.attach(c.Tag())
	defer k.detach()
	// every fourth case: a second goroutine calls DataCopy while the histories run
	if (c.Index/len(lists)+c.Index)%4 == 1 {
		k.startReader(lw, c.Rand.Int63())
	}
	st := c11RunLists(c, lw, k, c.Pick(30, 60))
	k.stopReader()
	c11NonListHistory(c, lw, k, &st)
	// a third of the cases end with something that disposes of features and their data
	if x := c.Rand.Intn(3 * len(c11Teardowns)); x < len(c11Teardowns) {
		c11Teardown(c, lw, k, c11Teardowns[x])
		st.shapeSeq = append(st.shapeSeq, ("|teardown:" + c11Teardowns[x])...)
	}
	k.recheck(k.old, "end-of-case")
	c11Finish(c, k, &st, string(li.Fn))
	c.Seen("functions", string(li.Fn))
	for reason, bad := range map[string]bool{"rechecks<200": k.checks < 200, "retained<20": k.kept < 20, "no-nonpersisting-update": st.nonPersist == 0, "no-failed-update": st.failed == 0 && lw.bound,
		"blind-histories<2": st.blind < 2, "blind-retained<10": k.blindKept < 10, "reads<10": st.reads < 10, "odd-filters<5": st.odd < 5} {
		if bad {
			c.Count("lists_case_trivial_because:"+reason, 1)
		}
	}
	c.NonTrivial(k.checks >= 200 && k.kept >= 20 && st.nonPersist > 0 && (st.failed > 0 || !lw.bound) && st.blind >= 2 && k.blindKept >= 10 && st.reads >= 10 && st.odd >= 5)
}

// c11PinnedLists is the number of list-typed functions (data type with a list of structs, registered for the
// Generic or the NodeManagement feature) of the data model this check was built against. The domain itself is
// learnt from the library (SupportsPartialWrite); a type that loses its UpdateList would silently leave it.
const c11PinnedLists = 83

func c11PinDomain(c *rig.Ctx, lists []rig.ListInfo) {
	in := map[model.FunctionType]bool{}
	for _, l := range lists {
		in[l.Fn] = true
	}
	var lost []string
	structural := 0
	for _, ft := range []model.FeatureTypeType{model.FeatureTypeTypeGeneric, model.FeatureTypeTypeNodeManagement} {
		for _, fd := range spine.CreateFunctionData[api.FunctionDataCmdInterface](ft) {
			T := reflect.TypeOf(fd.DataCopyAny()).Elem()
			isList := false
			for i := 0; T.Kind() == reflect.Struct && i < T.NumField(); i++ {
				if f := T.Field(i); f.Type.Kind() == reflect.Slice && f.Type.Elem().Kind() == reflect.Struct && strings.HasSuffix(T.Name(), "ListDataType") {
					isList = true
				}
			}
			if isList {
				structural++
				if !in[fd.FunctionType()] {
					lost = append(lost, string(fd.FunctionType()))
				}
			}
		}
	}
	c.Count("list_functions_in_domain", int64(len(lists)))
	c.Count("list_functions_by_structure", int64(structural))
	// three list-shaped types have no UpdateList in the library this check was built against (partial updates of
	// them fail; what must be supported is not C11's subject): they are pinned too
	known := map[string]bool{"directControlActivityListData": true, "sensingListData": true, "setpointConstraintsListData": true}
	var kept []string
	for _, l := range lost {
		if !known[l] {
			kept = append(kept, l)
		}
	}
	lost = kept
	if len(lists) < c11PinnedLists || len(lost) > 0 {
		c.Violate("domain/list-function-left-the-domain", "the check was built for %d list-typed functions, the library now offers partial support for %d (by structure: %d); without partial support: %v",
			c11PinnedLists, len(lists), structural, lost)
	}
}

type c11Stats struct {
	nonPersist, failed, events int
	blind                      int // blind histories
	reads                      int // operations that are not updates of the function, executed between updates
	odd                        int // updates with an unusual filter form
	staleReads                 int // use cases: reads made while the peer's data named an entity the peer does not have
	shapeSeq                   []byte
	sample                     []string
	blindSample                []string
}

func c11Finish(c *rig.Ctx, k *c11Keeper, st *c11Stats, what string) {
	c.Events(int64(k.checks))
	c.Count("fingerprint_rechecks", int64(k.checks))
	c.Count("values_retained", int64(k.kept))
	c.Count("nonpersisting_updates_judged", int64(st.nonPersist))
	c.Count("failed_updates_judged", int64(st.failed))
	c.Count("event_payloads_retained", int64(st.events))
	c.Count("operations_other_than_updates_between_updates", int64(st.reads))
	c.Count("updates_with_unusual_filter_form", int64(st.odd))
	c.Count("blind_histories", int64(st.blind))
	c.Count("blind_values_retained_before_first_read", int64(k.blindKept))
	c.Count("blind_fingerprint_rechecks", int64(k.blindChecks))
	if c.Failed() {
		c.Count("cases_with_violations", 1)
	}
	hs := fnv.New64a()
	hs.Write(st.shapeSeq)
	c.Shape(fmt.Sprintf("%s/%x", what, hs.Sum64()))
	c.Sample(map[string]any{"subject": what, "values_retained": k.kept, "fingerprint_rechecks": k.checks, "nonpersisting": st.nonPersist, "failed": st.failed, "event_payloads": st.events, "one_history": st.sample,
		"blind_histories": st.blind, "blind_values_retained": k.blindKept, "one_blind_history": st.blindSample})
}

// c11Nest turns, every second time, the delete filter of an update that names elements into one that names
// SUB elements of a struct-typed element ({value:{number:{}}}, {timePeriod:{endTime:{}}}): rig.Update.NestedElem,
// used by this check only. What such a filter removes is not judged anywhere (the reference fold of C02 knows
// nothing about it); C11's oracles do not need to know: whatever the update does, values handed out earlier stay
// as they were, and the store survives the update if it was not persisted or reported failure.
func c11Nest(c *rig.Ctx, li *rig.ListInfo, u *rig.Update) {
	if len(u.DelElem) == 0 {
		return
	}
	nest := li.NestableElems()
	if len(nest) == 0 || c.Rand.Intn(2) == 0 {
		return
	}
	v := *u
	v.DelElem = []int{nest[c.Rand.Intn(len(nest))]}
	v.NestedElem = 1 + c.Rand.Intn(12)
	v.Kind = u.Kind + "-sub" // delete-elem-sub, delete-sel-elem-sub: a shape of its own in signatures and case shapes
	if _, _, ok := li.Filters(v); !ok {
		return
	}
	*u = v
	c.Count("delete_filters_naming_sub_elements", 1)
	c.Seen("functions_with_sub_element_deletes", string(li.Fn))
}

// c11RunLists runs the list histories of one case (also used by the race part).
func c11RunLists(c *rig.Ctx, lw *listWorld, k *c11Keeper, histories int) (st c11Stats) {
	li, r := lw.li, c.Rand
	fn := li.Fn
	canWrite := lw.bound
	for h := 0; h < histories; h++ {
		if r.Intn(3) == 0 {
			// blind history: nothing is read, only what the stack hands out by itself is retained
			bp := "remote-write"
			switch x := r.Intn(20); {
			case x < 5:
				bp = "remote-api"
			case x < 13 || !canWrite:
				bp = "datagram"
			}
			k.pause(true)
			c11BlindHistory(c, lw, k, &st, bp)
			k.pause(false)
			if len(st.blindSample) == 0 && len(k.hist) > 1 && !strings.HasPrefix(k.hist[1], "start: no data") {
				st.blindSample = append([]string(nil), k.hist...)
			}
			if h%8 == 7 {
				k.recheck(k.old, "later-history")
			}
			k.endHistory()
			continue
		}
		path := ""
		switch x := r.Intn(20); {
		case x < 6:
			path = "remote-api"
		case x < 10:
			path = "datagram"
		case x < 14 || !canWrite:
			path = "local-api"
		default:
			path = "remote-write"
		}
		remoteStore := path == "remote-api" || path == "datagram"
		src := "datacopy-local"
		read := func() any { v := lw.local.DataCopy(fn); k.note("local", v); return v }
		if remoteStore {
			src = "datacopy-remote"
			read = func() any { v := lw.remote.DataCopy(fn); k.note("remote", v); return v }
		}
		k.hist = []string{"path " + path}
		st.shapeSeq = append(st.shapeSeq, "|"+path[:4]...)
		// start state
		if r.Intn(3) > 0 {
			u, _ := li.GenUpdate(r, 0, c02Dom)
			c11TimeForms(c, li, &u)
			data := li.MkList(rig.CloneItems(u.Items))
			if remoteStore {
				ret, _ := lw.remote.UpdateData(true, fn, data, nil, nil)
				k.keep("result", ret, "start full update")
			} else {
				lw.local.SetData(fn, data)
			}
			k.hist = append(k.hist, "start: "+u.String())
		} else if remoteStore {
			lw.remote.UpdateData(true, fn, typedNil(li), nil, nil)
			k.hist = append(k.hist, "start: no data")
		} else {
			lw.local.SetData(fn, typedNil(li))
			k.hist = append(k.hist, "start: no data")
		}
		k.keep(src, read(), "after the start update")
		k.recheck(k.cur, path+"/start")

		steps := 6 + r.Intn(5)
		for s := 0; s < steps; s++ {
			u, ok := genUpdate(c, li, c02Dom)
			if !ok {
				continue
			}
			c11TimeForms(c, li, &u)
			before := read()
			// every sixth step: an update the model cannot apply (through whatever path this history uses)
			failingShape, nilPayload := false, false
			if r.Intn(6) == 0 {
				if fu, np, fok := c11FailingShape(r, li, before); fok {
					u, nilPayload, failingShape = fu, np, true
				}
			}
			if !failingShape {
				c11Nest(c, li, &u)
			}
			// every sixth of the others: the filters of the shape in an unusual form (c11OddFilters)
			var oddFp, oddFd *model.FilterType
			odd := false
			// remote-write histories: the application's own updates between the peer's writes
			localBetween := path == "remote-write" && r.Intn(10) < 3
			if !failingShape && r.Intn(6) == 0 {
				wfp, wfd, _ := li.Filters(u)
				if ofp, ofd, form, ook := c11OddFilters(r, li, &u, wfp, wfd, (path == "datagram" || path == "remote-write") && !localBetween); ook {
					oddFp, oddFd, odd = ofp, ofd, true
					u.Kind += "/odd:" + form
					st.odd++
					c.Count("odd_filter_form:"+form, 1)
				}
			}
			st.shapeSeq = append(st.shapeSeq, ("," + u.Kind)...)
			fp, fd, _ := li.Filters(u)
			if odd {
				fp, fd = oddFp, oddFd
			}
			mk := func() any {
				if nilPayload {
					return typedNil(li)
				}
				return li.MkList(rig.CloneItems(u.Items))
			}
			by := path + "/" + u.Kind
			s0 := rig.CanonAny(before)
			k.keep(src, before, fmt.Sprintf("before step %d", s))
			failed, errText := false, ""
			step := path
			switch path {
			case "remote-api":
				if r.Intn(2) == 0 {
					ret, e := lw.remote.UpdateData(false, fn, mk(), fp, fd)
					k.hist = append(k.hist, "remote-api persist=false "+u.String())
					st.nonPersist++
					if s1 := rig.CanonAny(read()); s1 != s0 {
						c.Violate("store/changed-by/nonpersisting/"+u.Kind, "%s: FeatureRemote.UpdateData(persist=false) changed the stored data\n was: %s\n now: %s\n history:\n   %s", fn, s0, s1, strings.Join(k.hist, "\n   "))
						c.Witness(map[string]any{"function": fn, "history": k.hist, "was": s0, "now": s1})
						s0 = s1
					}
					if e == nil {
						k.keep("result", ret, fmt.Sprintf("returned by the non-persisting update of step %d", s))
					}
					k.recheck(k.cur, "remote-api-nonpersisting/"+u.Kind)
				}
				ret, e := lw.remote.UpdateData(true, fn, mk(), fp, fd)
				if e != nil {
					failed, errText = true, e.String()
				} else {
					k.keep("result", ret, fmt.Sprintf("returned by the update of step %d", s))
				}
			case "local-api":
				if u.Kind == "full" && r.Intn(2) == 0 {
					lw.local.SetData(fn, mk())
					step = "local-api SetData"
				} else if e := lw.local.UpdateData(fn, mk(), fp, fd); e != nil {
					failed, errText = true, e.String()
				}
			case "datagram", "remote-write":
				cl, srcA, dstA := model.CmdClassifierTypeNotify, lw.remoteAddr, lw.localCli.Address()
				if path == "remote-write" {
					if localBetween { // keep the local list populated
						if e := lw.local.UpdateData(fn, mk(), fp, fd); e != nil {
							failed, errText = true, e.String()
						}
						step = "local-api (between writes)"
						break
					}
					cl, srcA, dstA = model.CmdClassifierTypeWrite, lw.peerCli, lw.local.Address()
				} else if r.Intn(2) == 0 {
					cl = model.CmdClassifierTypeReply
				}
				var b []byte
				var mc model.MsgCounterType
				var e error
				if nilPayload {
					b, mc, e = lw.wireNoPayload(u, cl, srcA, dstA)
				} else if odd {
					b, mc, e = lw.wireFilters(r, u, fp, fd, false, cl, srcA, dstA)
				} else {
					b, _, mc, e = lw.wire(u, cl, srcA, dstA, true)
				}
				if e != nil {
					c.Violate("harness-wire", "%v", e)
					continue
				}
				step = path + " " + string(cl)
				if cl == model.CmdClassifierTypeReply && r.Intn(4) == 0 {
					k.armResponse(lw)
				}
				lw.p.Tap.Take()
				if rec := lw.p.Raw(b); rec != "" {
					failed, errText = true, "panic: "+rec
				} else if res := rig.Classify(lw.p.Tap.Take(), mc); res.Errors > 0 {
					failed, errText = true, "error result"
				}
				st.events += k.keepEvents(lw.w, fmt.Sprintf("event of step %d (%s)", s, cl))
				if cl == model.CmdClassifierTypeReply && !failed {
					k.collectResponse(fmt.Sprintf("Data of the response callback for the reply of step %d", s))
				}
			}
			oddText := ""
			if odd {
				oddText = " filterPartial=" + rig.JS(fp) + " filterDelete=" + rig.JS(fd)
				c.Count(fmt.Sprintf("odd_filter_update:%s reported_failed=%v", path, failed), 1)
			}
			k.hist = append(k.hist, step+" "+u.String()+oddText+map[bool]string{true: " -> FAILED " + errText, false: ""}[failed])
			after := read()
			if failingShape {
				c.Count(fmt.Sprintf("unappliable_update:%s reported_failed=%v", step, failed), 1)
				c.Seen("unappliable_shapes", u.Kind)
			}
			if failed {
				st.failed++
				c.Count("failed:"+path, 1)
				if s1 := rig.CanonAny(after); s1 != s0 {
					c.Violate("store/changed-by/failed/"+by, "%s: an update reported as failed (%s) changed the stored data\n was: %s\n now: %s\n history:\n   %s", fn, errText, s0, s1, strings.Join(k.hist, "\n   "))
					c.Witness(map[string]any{"function": fn, "history": k.hist, "was": s0, "now": s1, "error": errText})
				}
			}
			k.keep(src, after, fmt.Sprintf("after step %d", s))
			k.recheck(k.cur, by)
			// "later" is not only updates: every third step the stack serves a read (c11ReadOp)
			if r.Intn(3) == 0 {
				c11ReadOp(c, lw, k, &st)
			}
		}
		if h%8 == 7 {
			k.recheck(k.old, "later-history")
		}
		if len(st.sample) == 0 && h == 2 {
			st.sample = append([]string(nil), k.hist...)
		}
		k.endHistory()
	}
	return st
}

// ---------------------------------------------------------------------------
// blind histories

// c11ReplyRef is the counter the reply datagrams built by listWorld.wire reference.
const c11ReplyRef = model.MsgCounterType(77)

// armResponse registers the monitor's response callback for the next accepted reply (at most one pending).
func (k *c11Keeper) armResponse(lw *listWorld) {
	if k.respPending || k.respOff {
		return
	}
	if k.respFn == nil {
		ch := make(chan c11Delivered, 8)
		k.respCh = ch
		// the fingerprint is taken inside the callback, i.e. at delivery
		k.respFn = func(m api.ResponseMessage) {
			d := c11Delivered{v: m.Data}
			if m.Data != nil {
				d.fp = rig.CanonAny(m.Data)
			}
			ch <- d
		}
	}
	if err := lw.localCli.AddResponseCallback(c11ReplyRef, k.respFn); err == nil {
		k.respPending = true
	}
}

// collectResponse is called after an accepted reply: the armed callback is due; its Data is retained.
func (k *c11Keeper) collectResponse(when string) {
	if !k.respPending || k.respOff {
		return
	}
	select {
	case d := <-k.respCh:
		k.respPending = false
		k.keepFP("response-callback", d.v, d.fp, when+", fingerprint taken inside the callback")
		k.c.Count("response_callback_payloads_retained", 1)
	case <-time.After(30 * time.Second):
		// watchdog only: whether callbacks fire is C14's subject
		k.c.Inconclusive("the response callback registered for an accepted reply was not invoked within 30s")
		k.respOff = true
	}
}

// shapes of rig.GenUpdate the model applies to the stored items in place: identifier-less partial,
// partial with selector, delete elements, delete selector+elements
var c11InPlaceShapes = []int{2, 3, 5, 6}

// c11PresentIds: identifiers of the domain carried by items.
func c11PresentIds(li *rig.ListInfo, items []reflect.Value) (ids []int) {
	if len(li.Keys) == 0 {
		return nil
	}
	for id := 0; id < c02Dom; id++ {
		for _, it := range items {
			if li.Matches(it, id) {
				ids = append(ids, id)
				break
			}
		}
	}
	return ids
}

// c11BlindHistory runs one history in which the monitor performs no read of the function's store:
// it retains only what the stack hands out by itself (event payloads, response callback Data, values
// returned by UpdateData), re-fingerprints that after every update, and reads the store when the history
// is over. Store clauses (non-persisting, failed) cannot be judged without reading and are left to the
// other histories; failed and non-persisting updates still occur and must not change retained values.
func c11BlindHistory(c *rig.Ctx, lw *listWorld, k *c11Keeper, st *c11Stats, path string) {
	li, r := lw.li, c.Rand
	fn := li.Fn
	k.blind = true
	defer func() { k.blind = false }()
	k.hist = []string{"BLIND history, path " + path + ": no read of the store before the end of the history"}
	st.shapeSeq = append(st.shapeSeq, "|B"+path[:4]...)
	st.blind++

	// deliver applies one update through the path and retains what the stack hands out
	deliver := func(u rig.Update, when string) (failed bool) {
		fp, fd, _ := li.Filters(u)
		mk := func() any { return li.MkList(rig.CloneItems(u.Items)) }
		step, errText := path, ""
		switch path {
		case "remote-api":
			if u.Kind != "full" && r.Intn(3) == 0 {
				ret, e := lw.remote.UpdateData(false, fn, mk(), fp, fd)
				k.hist = append(k.hist, "remote-api persist=false "+u.String())
				c.Count("blind_nonpersisting_updates", 1)
				if e == nil {
					k.keep("result", ret, "returned by the non-persisting update of "+when)
				}
				k.recheck(k.cur, "blind/remote-api-nonpersisting/"+u.Kind)
			}
			ret, e := lw.remote.UpdateData(true, fn, mk(), fp, fd)
			if e != nil {
				failed, errText = true, e.String()
			} else {
				k.keep("result", ret, "returned by the update of "+when)
			}
		case "datagram", "remote-write":
			cl, srcA, dstA := model.CmdClassifierTypeNotify, lw.remoteAddr, lw.localCli.Address()
			if path == "remote-write" {
				if when != "start" && r.Intn(10) < 4 {
					// the application's own updates between the peer's writes
					if u.Kind == "full" && r.Intn(2) == 0 {
						lw.local.SetData(fn, mk())
						step = "local-api SetData (between writes)"
					} else {
						if e := lw.local.UpdateData(fn, mk(), fp, fd); e != nil {
							failed, errText = true, e.String()
						}
						step = "local-api (between writes)"
					}
					break
				}
				cl, srcA, dstA = model.CmdClassifierTypeWrite, lw.peerCli, lw.local.Address()
			} else if r.Intn(2) == 0 {
				cl = model.CmdClassifierTypeReply
			}
			b, _, mc, e := lw.wire(u, cl, srcA, dstA, true)
			if e != nil {
				c.Violate("harness-wire", "%v", e)
				return true
			}
			step = path + " " + string(cl)
			if cl == model.CmdClassifierTypeReply && r.Intn(2) == 0 {
				k.armResponse(lw)
			}
			lw.p.Tap.Take()
			if rec := lw.p.Raw(b); rec != "" {
				failed, errText = true, "panic: "+rec
			} else if res := rig.Classify(lw.p.Tap.Take(), mc); res.Errors > 0 {
				failed, errText = true, "error result"
			}
			st.events += k.keepEvents(lw.w, fmt.Sprintf("event of %s (%s)", when, cl))
			if cl == model.CmdClassifierTypeReply && !failed {
				k.collectResponse("Data of the response callback for the reply of " + when)
			}
		}
		if failed {
			c.Count("blind_failed:"+path, 1)
		}
		k.hist = append(k.hist, step+" "+u.String()+map[bool]string{true: " -> FAILED " + errText, false: ""}[failed])
		return failed
	}
	fullUpdate := func() rig.Update {
		u, _ := li.GenUpdate(r, 0, c02Dom)
		for try := 0; try < 4 && len(u.Items) == 0; try++ {
			u, _ = li.GenUpdate(r, 0, c02Dom)
		}
		c11TimeForms(c, li, &u)
		return u
	}

	var present []int  // identifiers of the last full data set
	sameArray := false // the store still works on the list the last full data set arrived in (as far as a lazy stack is concerned)
	if r.Intn(4) > 0 {
		u := fullUpdate()
		if !deliver(u, "start") {
			present, sameArray = c11PresentIds(li, u.Items), true
		}
	} else if path == "remote-write" {
		lw.local.SetData(fn, typedNil(li))
		k.hist = append(k.hist, "start: no data")
	} else {
		lw.remote.UpdateData(true, fn, typedNil(li), nil, nil)
		k.hist = append(k.hist, "start: no data")
	}
	k.recheck(k.cur, "blind/"+path+"/start")

	steps := 6 + r.Intn(5)
	for s := 0; s < steps; s++ {
		var u rig.Update
		ok := false
		if sameArray && r.Intn(3) > 0 {
			for _, i := range r.Perm(len(c11InPlaceShapes)) {
				if sh := c11InPlaceShapes[i]; shapeAllowed(li, sh) {
					if u, ok = li.GenUpdate(r, sh, c02Dom); ok {
						break
					}
				}
			}
		}
		if !ok && r.Intn(4) == 0 {
			u, ok = fullUpdate(), true
		}
		if !ok {
			if u, ok = genUpdate(c, li, c02Dom); !ok {
				continue
			}
		}
		// selectors mostly aim at an item that exists
		if len(present) > 0 && r.Intn(4) > 0 {
			if u.SelKey >= 0 {
				u.SelKey = present[r.Intn(len(present))]
			}
			if u.DelSel >= 0 {
				u.DelSel = present[r.Intn(len(present))]
			}
		}
		if u.Kind != "full" { // full updates come from fullUpdate, which varied the forms already
			c11TimeForms(c, li, &u)
		}
		c11Nest(c, li, &u)
		st.shapeSeq = append(st.shapeSeq, ("," + u.Kind)...)
		failed := deliver(u, fmt.Sprintf("step %d", s))
		if !failed {
			switch u.Kind {
			case "full":
				present, sameArray = c11PresentIds(li, u.Items), true
			case "partial-sel", "partial-noid":
			default:
				sameArray = false
			}
		}
		k.recheck(k.cur, "blind/"+path+"/"+u.Kind)
	}
	k.recheck(k.cur, "blind/"+path+"/end-of-history-before-the-first-read")
	k.blind = false
	if path == "remote-write" {
		v := lw.local.DataCopy(fn)
		k.note("local", v)
		k.keep("datacopy-local", v, "first read, at the end of the blind history")
	} else {
		v := lw.remote.DataCopy(fn)
		k.note("remote", v)
		k.keep("datacopy-remote", v, "first read, at the end of the blind history")
	}
}

// c11NonListHistory drives one function without partial support: partial and non-persisting updates
// must fail, and a failed update leaves the store as it was.
func c11NonListHistory(c *rig.Ctx, lw *listWorld, k *c11Keeper, st *c11Stats) {
	if lw.T != model.FeatureTypeTypeGeneric {
		return
	}
	nls := c11NonLists()
	if len(nls) == 0 {
		return
	}
	nl := nls[(c.Index/len(rig.DiscoverLists())+c.Index)%len(nls)]
	r := c.Rand
	gen := func() any { return rig.GenVal(r, reflect.PtrTo(nl.T), 0).Interface() }
	lw.local.AddFunctionType(nl.Fn, true, true)
	prevFn, prevHist := k.fn, k.hist
	k.fn = nl.Fn
	k.hist = []string{"function without partial support: " + string(nl.Fn)}
	defer func() { k.fn, k.hist = prevFn, prevHist }()
	st.shapeSeq = append(st.shapeSeq, ("|nonlist:" + string(nl.Fn))...)
	c.Seen("functions_without_partial_support", string(nl.Fn))

	judge := func(store func() any, s0 string, what string, failed bool) {
		k.hist = append(k.hist, fmt.Sprintf("%s -> failed=%v", what, failed))
		if !failed {
			c.Count("nonlist-update-not-failed:"+what, 1)
			return
		}
		st.failed++
		c.Count("failed:nonlist", 1)
		if s1 := rig.CanonAny(store()); s1 != s0 {
			c.Violate("store/changed-by/failed/nonlist/"+what, "%s: %s reported failure but changed the stored data\n was: %s\n now: %s", nl.Fn, what, s0, s1)
		}
	}
	partial := model.NewFilterTypePartial()
	// remote feature
	rread := func() any { return lw.remote.DataCopy(nl.Fn) }
	for i := 0; i < 3; i++ {
		ret, _ := lw.remote.UpdateData(true, nl.Fn, gen(), nil, nil)
		k.keep("result", ret, "full update")
		k.keep("datacopy-remote", rread(), "after a full update")
		s0 := rig.CanonAny(rread())
		_, e := lw.remote.UpdateData(true, nl.Fn, gen(), partial, nil)
		judge(rread, s0, "remote-api-partial", e != nil)
		_, e = lw.remote.UpdateData(false, nl.Fn, gen(), nil, nil)
		st.nonPersist++
		if s1 := rig.CanonAny(rread()); s1 != s0 {
			c.Violate("store/changed-by/nonpersisting/nonlist", "%s: FeatureRemote.UpdateData(persist=false) changed the stored data\n was: %s\n now: %s", nl.Fn, s0, s1)
		}
		judge(rread, s0, "remote-api-nonpersisting", e != nil)
		k.recheck(k.cur, "nonlist/remote-api")
	}
	// local feature: API and a remote partial write
	lread := func() any { return lw.local.DataCopy(nl.Fn) }
	for i := 0; i < 3; i++ {
		lw.local.SetData(nl.Fn, gen())
		k.keep("datacopy-local", lread(), "after SetData")
		s0 := rig.CanonAny(lread())
		e := lw.local.UpdateData(nl.Fn, gen(), partial, nil)
		judge(lread, s0, "local-api-partial", e != nil)
		if lw.bound {
			cmd := rig.CmdFor(nl.Fn, gen())
			cmd.Function = util.Ptr(nl.Fn)
			cmd.Filter = []model.FilterType{*model.NewFilterTypePartial()}
			lw.p.Tap.Take()
			mc := lw.p.Send(model.CmdClassifierTypeWrite, lw.peerCli, lw.local.Address(), true, nil, cmd)
			res := rig.Classify(lw.p.Tap.Take(), mc)
			judge(lread, s0, "remote-write-partial", res.Errors > 0)
			st.events += k.keepEvents(lw.w, "event of a write to "+string(nl.Fn))
		}
		k.recheck(k.cur, "nonlist/local")
	}
	k.endHistory()
}

// ---------------------------------------------------------------------------
// part "usecases"

var (
	c11Actors = []model.UseCaseActorType{model.UseCaseActorTypeCEM, model.UseCaseActorTypeEnergyGuard}
	c11Names  = []model.UseCaseNameType{model.UseCaseNameTypeLimitationOfPowerConsumption, model.UseCaseNameTypeMonitoringOfPowerConsumption, model.UseCaseNameTypeEVSECommissioningAndConfiguration}
)

func c11UseCases(c *rig.Ctx) {
	w := rig.NewWorld(c.Tag())
	defer w.Close()
	k := &c11Keeper{c: c, fn: model.FunctionTypeNodeManagementUseCaseData}
	k.attach(c.Tag())
	defer k.detach()
	st := c11RunUseCases(c, w, k, c.Pick(6, 10))
	k.recheck(k.old, "end-of-case")
	c11Finish(c, k, &st, "usecases")
	c.Count("usecase_reads_while_the_peers_data_was_stale", int64(st.staleReads))
	for reason, bad := range map[string]bool{"rechecks<200": k.checks < 200, "retained<20": k.kept < 20, "reads<5": st.reads < 5, "no-read-while-stale": st.staleReads < 1} {
		if bad {
			c.Count("usecases_case_trivial_because:"+reason, 1)
		}
	}
	c.NonTrivial(k.checks >= 200 && k.kept >= 20 && st.reads >= 5 && st.staleReads >= 1)
}

func c11RunUseCases(c *rig.Ctx, w *rig.World, k *c11Keeper, histories int) (st c11Stats) {
	r := c.Rand
	fn := model.FunctionTypeNodeManagementUseCaseData
	ents := []*spine.EntityLocal{w.AddEntity(model.EntityTypeTypeCEM, []uint{1}, 0), w.AddEntity(model.EntityTypeTypeCEM, []uint{2}, 0)}
	p := w.AddPeer(0)
	p.Ctr = 100000
	// the peer has entities its use case data can talk about; they come and go during the histories
	p.Announce(c11PeerFeats(c11PeerEnts))
	tree := &c11PeerTree{alive: map[string]bool{}}
	for _, e := range c11PeerEnts {
		tree.alive[fmt.Sprint(e)] = true
	}
	p.Subscribe(p.NM(), rig.LNM, model.FeatureTypeTypeNodeManagement) // so that every change is also encoded for a subscriber
	p.Tap.Take()
	w.Core.Take()
	nm := w.Local.NodeManagement()
	rnm := p.RD.FeatureByAddress(p.NM())
	haveRemote := rnm != nil && !rig.IsNil(rnm)
	for h := 0; h < histories; h++ {
		k.hist = nil
		steps := 12 + r.Intn(9)
		for s := 0; s < steps; s++ {
			ei := r.Intn(2)
			e := ents[ei]
			actor, name := c11Actors[r.Intn(len(c11Actors))], c11Names[r.Intn(len(c11Names))]
			k.keep("datacopy-local", nm.DataCopy(fn), fmt.Sprintf("before step %d", s))
			op := ""
			switch x := r.Intn(24); {
			case x < 6:
				var sc []model.UseCaseScenarioSupportType
				for i := 0; i <= r.Intn(3); i++ {
					sc = append(sc, model.UseCaseScenarioSupportType(1+r.Intn(5)))
				}
				avail := r.Intn(2) == 0
				e.AddUseCaseSupport(actor, name, model.SpecificationVersionType(fmt.Sprintf("1.%d.0", r.Intn(3))), "release", avail, sc)
				op = fmt.Sprintf("AddUseCaseSupport(%v,%s,%s,%v,%v)", e.Address().Entity, actor, name, avail, sc)
			case x < 9:
				avail := r.Intn(2) == 0
				e.SetUseCaseAvailability(actor, name, avail)
				op = fmt.Sprintf("SetUseCaseAvailability(%v,%s,%s,%v)", e.Address().Entity, actor, name, avail)
			case x < 11:
				e.RemoveUseCaseSupport(actor, name)
				op = fmt.Sprintf("RemoveUseCaseSupport(%v,%s,%s)", e.Address().Entity, actor, name)
			case x < 12:
				e.RemoveAllUseCaseSupports()
				op = fmt.Sprintf("RemoveAllUseCaseSupports(%v)", e.Address().Entity)
			case x < 13:
				// a local entity goes away (its use cases with it) and comes back under the same address
				addr := []uint{uint(ei + 1)}
				w.Local.RemoveEntity(e)
				ents[ei] = w.AddEntity(model.EntityTypeTypeCEM, addr, 0)
				op = fmt.Sprintf("local-entity-removed-and-added-again(%v)", addr)
			case x < 16:
				// the peer reports its own use cases: reply or notify, retained as event payload and as remote snapshot.
				// Mostly data that names entities of the peer (present, removed, never announced), else random data
				var data any
				named := []string(nil)
				kind := "random"
				if r.Intn(4) > 0 {
					data, named = c11PeerUseCases(r, p)
					kind = "naming-entities"
					c.Count("peer_usecase_data_naming_entities", 1)
				} else {
					data = rig.GenVal(r, reflect.TypeOf(&model.NodeManagementUseCaseDataType{}), 0).Interface()
				}
				cl := []model.CmdClassifierType{model.CmdClassifierTypeReply, model.CmdClassifierTypeNotify}[r.Intn(2)]
				var ref *model.MsgCounterType
				if cl == model.CmdClassifierTypeReply {
					ref = util.Ptr(model.MsgCounterType(77))
				}
				p.Send(cl, p.NM(), rig.LNM, false, ref, rig.CmdFor(fn, data))
				tree.named = named
				st.events += k.keepEvents(w, fmt.Sprintf("use case %s of step %d", cl, s))
				if haveRemote {
					k.keep("datacopy-remote", rnm.DataCopy(fn), fmt.Sprintf("after the peer's %s of step %d", cl, s))
				}
				if uc := p.RD.UseCases(); uc != nil {
					k.keep("remote-usecases", uc, fmt.Sprintf("DeviceRemote.UseCases() after step %d", s))
				}
				op = fmt.Sprintf("peer %s nodeManagementUseCaseData(%s %v)", cl, kind, named)
			case x < 19:
				// the peer's device tree changes under the data: an entity is removed, or added (again)
				ent := c11PeerEnts[r.Intn(len(c11PeerEnts))]
				key := fmt.Sprint(ent)
				if tree.alive[key] {
					p.NotifyDiscovery(true, p.Discovery(nil, nil, [][]uint{ent}))
					tree.alive[key] = p.RD.Entity(spine.NewAddressEntityType(ent)) != nil
					op = fmt.Sprintf("peer-entity-removed(%v)", ent)
					c.Count("peer_entity_removed", 1)
				} else {
					p.NotifyDiscovery(true, p.Discovery(c11PeerFeats([][]uint{ent})[1:], map[string]model.NetworkManagementStateChangeType{key: model.NetworkManagementStateChangeTypeAdded}, nil))
					tree.alive[key] = p.RD.Entity(spine.NewAddressEntityType(ent)) != nil
					op = fmt.Sprintf("peer-entity-added(%v)", ent)
					c.Count("peer_entity_added", 1)
				}
				st.events += k.keepEvents(w, "event of "+op)
			default:
				// the application (or the peer) READS: nothing is updated, whatever is handed out is retained
				rd := []string{"DeviceRemote.UseCases", "RemoteFeatureDataCopyOfType", "LocalFeatureDataCopyOfType", "HasUseCaseSupport", "peer-read-usecases", "peer-read-discovery", "DeviceRemote.UseCases"}[r.Intn(7)]
				switch rd {
				case "DeviceRemote.UseCases":
					if uc := p.RD.UseCases(); uc != nil {
						k.keep("remote-usecases", uc, fmt.Sprintf("DeviceRemote.UseCases() in step %d", s))
					}
				case "RemoteFeatureDataCopyOfType":
					if haveRemote {
						if v, err := spine.RemoteFeatureDataCopyOfType[*model.NodeManagementUseCaseDataType](rnm, fn); err == nil {
							k.keep("datacopy-remote", v, fmt.Sprintf("RemoteFeatureDataCopyOfType in step %d", s))
						}
					}
				case "LocalFeatureDataCopyOfType":
					if v, err := spine.LocalFeatureDataCopyOfType[*model.NodeManagementUseCaseDataType](nm, fn); err == nil {
						k.keep("datacopy-local", v, fmt.Sprintf("LocalFeatureDataCopyOfType in step %d", s))
					}
				case "HasUseCaseSupport":
					_ = e.HasUseCaseSupport(actor, name)
				case "peer-read-usecases":
					p.Send(model.CmdClassifierTypeRead, p.NM(), rig.LNM, false, nil, model.CmdType{NodeManagementUseCaseData: &model.NodeManagementUseCaseDataType{}})
				case "peer-read-discovery":
					p.Send(model.CmdClassifierTypeRead, p.NM(), rig.LNM, false, nil, model.CmdType{NodeManagementDetailedDiscoveryData: &model.NodeManagementDetailedDiscoveryDataType{}})
				}
				st.reads++
				c.Count("read_op:"+rd, 1)
				if tree.stale() {
					st.staleReads++
					c.Count("read_ops_while_the_peers_data_names_an_entity_it_does_not_have", 1)
				}
				op = "read:" + rd + " "
			}
			i := strings.IndexAny(op+"(", "( ")
			st.shapeSeq = append(st.shapeSeq, ("," + op[:i])...)
			k.hist = append(k.hist, op)
			k.keep("datacopy-local", nm.DataCopy(fn), fmt.Sprintf("after step %d", s))
			k.recheck(k.cur, "usecase/"+op[:i])
			p.Tap.Take()
		}
		if len(st.sample) == 0 {
			st.sample = append([]string(nil), k.hist...)
		}
		k.endHistory()
		k.recheck(k.old, "usecase/later-history")
	}
	return st
}

// ---------------------------------------------------------------------------
// part "race": readers encode retained values while the writer applies the history

type c11Pool struct {
	mu   sync.Mutex
	vals []any
}

func (p *c11Pool) add(v any) {
	p.mu.Lock()
	p.vals = append(p.vals, v)
	p.mu.Unlock()
}

// batch returns the most recent values (readers then work on them without further synchronisation).
func (p *c11Pool) batch(n int) []any {
	p.mu.Lock()
	defer p.mu.Unlock()
	from := len(p.vals) - n
	if from < 0 {
		from = 0
	}
	return append([]any(nil), p.vals[from:]...)
}

func c11Race(c *rig.Ctx) {
	pool := &c11Pool{}
	var stop atomic.Bool
	var encoded atomic.Int64
	var wg sync.WaitGroup
	for i := 0; i < 3; i++ {
		wg.Add(1)
		rr := rand.New(rand.NewSource(c.Rand.Int63()))
		go func() {
			defer wg.Done()
			for !stop.Load() {
				b := pool.batch(48)
				if len(b) == 0 {
					runtime.Gosched()
					continue
				}
				for rep := 0; rep < 40 && !stop.Load(); rep++ {
					v := b[rr.Intn(len(b))]
					func() {
						// a value that changes while it is encoded can make the encoder fail: that is the violation itself
						defer func() {
							if p := recover(); p != nil {
								c.Violate("retained-value/encoder-panic", "encoding a retained value panicked (it changed while being read): %v", p)
							}
						}()
						if _, err := json.Marshal(v); err == nil {
							encoded.Add(1)
						}
					}()
				}
			}
		}()
	}
	var k *c11Keeper
	var st c11Stats
	what := ""
	func() {
		defer func() { stop.Store(true); wg.Wait() }()
		if c.Index%4 == 3 {
			w := rig.NewWorld(c.Tag())
			defer w.Close()
			k = &c11Keeper{c: c, fn: model.FunctionTypeNodeManagementUseCaseData, pool: pool}
			k.attach(c.Tag())
			defer k.detach()
			st = c11RunUseCases(c, w, k, c.Pick(4, 6))
			what = "usecases"
			return
		}
		lists := rig.DiscoverLists()
		// the flagged list types (failing remote writes) are always among the subjects, the others rotate with the seed
		var flagged, plain []int
		for i, l := range lists {
			if l.WriteCheck >= 0 {
				flagged = append(flagged, i)
			} else {
				plain = append(plain, i)
			}
		}
		j := c.Index - c.Index/4 // number of this case among the list cases
		var li *rig.ListInfo
		if j < len(flagged) {
			li = &lists[flagged[j]]
		} else {
			li = &lists[plain[(j+int(c.Seed%997)*7)%len(plain)]]
		}
		lw, err := newListWorld(c.Tag(), li, li.FeatureType, true)
		if err != nil {
			c.Violate("harness-world", "%v", err)
			return
		}
		defer lw.close()
		k = &c11Keeper{c: c, fn: li.Fn, pool: pool}
		k.attach(c.Tag())
		defer k.detach()
		// a reader that calls DataCopy while the updates run (race detector + membership verdict)
		k.startReader(lw, c.Rand.Int63())
		st = c11RunLists(c, lw, k, c.Pick(12, 20))
		k.stopReader()
		// the encoders are still running: half of the cases end with a teardown
		if x := c.Rand.Intn(2 * len(c11Teardowns)); x < len(c11Teardowns) {
			c11Teardown(c, lw, k, c11Teardowns[x])
			st.shapeSeq = append(st.shapeSeq, ("|teardown:" + c11Teardowns[x])...)
		}
		what = string(li.Fn)
	}()
	if k == nil {
		return
	}
	k.recheck(k.old, "end-of-case")
	c.Count("values_encoded_by_readers", encoded.Load())
	c.Seen("race_subjects", what)
	c11Finish(c, k, &st, "race:"+what)
	for reason, bad := range map[string]bool{"rechecks<200": k.checks < 200, "retained<20": k.kept < 20, "encoded<200": encoded.Load() < 200} {
		if bad {
			c.Count("race_case_trivial_because:"+reason, 1)
		}
	}
	c.NonTrivial(k.checks >= 200 && k.kept >= 20 && encoded.Load() >= 200)
}
