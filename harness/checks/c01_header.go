package checks

import (
	"encoding/json"
	"math/rand"

	"github.com/enbility/spine-go/model"
	"github.com/enbility/spine-go/util"

	"verifharness/rig"
)

// The optional elements of a request's HEADER as an input dimension of C01.
//
// The statement fixes every address and the reference of a response from three elements of the request's header:
// msgCounter (the reference), addressSource (the destination) and addressDestination (the source, with the local
// device address). A well-formed SPINE header may carry more: addressOriginator (any feature address: the feature on
// whose behalf the sender speaks) and timestamp (absolute or relative). No row of the statement's table and no
// address of a response depends on them, so a request dressed with them gets exactly the response set, with exactly
// the addresses, of the plain one. The oracle is therefore unchanged; only the requests vary. The originator values
// are chosen so that every way of deriving a response address from it instead of from addressSource /
// addressDestination yields a different address: another feature of the sending device, the sender's numbers on
// another connected device (a response to it must still not leave on that connection nor name it), an unknown
// device, the addressed local feature itself, another local feature, an address without device part, and (control)
// the request's source itself.

var c01HeaderDresses = []string{
	"plain",
	"originator=another announced feature of the sending device",
	"originator=the source's numbers on another connected device",
	"originator=a feature of an unknown device",
	"originator=the addressed feature itself",
	"originator=another local feature (NodeManagement)",
	"originator=the source's entity, another feature number, no device part",
	"originator=the request's source (control)",
	"timestamp absolute",
	"timestamp relative",
	"originator=another connected device's NodeManagement + timestamp",
}

// c01PickHeaderDress: three in eight requests stay plain.
func c01PickHeaderDress(r *rand.Rand) int {
	if r.Intn(8) < 3 {
		return 0
	}
	return 1 + r.Intn(len(c01HeaderDresses)-1)
}

// c01DressHeader adds the optional header elements of dress to the request d sent by peer p of world w.
func c01DressHeader(w *rig.World, p *rig.Peer, d *model.Datagram, dress int) {
	h := &d.Datagram.Header
	src, dst := h.AddressSource, h.AddressDestination
	other := p
	for i, q := range w.Peers {
		if q == p {
			other = w.Peers[(i+1)%len(w.Peers)]
		}
	}
	var ent []uint
	feat := uint(1)
	if src != nil {
		for _, e := range src.Entity {
			ent = append(ent, uint(e))
		}
		if src.Feature != nil {
			feat = uint(*src.Feature)
		}
	}
	sibling := feat%2 + 1 // 1 <-> 2; NodeManagement's 0 -> 1
	switch dress {
	case 1:
		if len(ent) == 1 && ent[0] == 0 {
			h.AddressOriginator = rig.FA(p.Addr, []uint{1}, 1)
		} else {
			h.AddressOriginator = rig.FA(p.Addr, ent, sibling)
		}
	case 2:
		h.AddressOriginator = rig.FA(other.Addr, ent, feat)
	case 3:
		h.AddressOriginator = rig.FA("ghost", ent, feat)
	case 4:
		if dst != nil {
			o := *dst
			h.AddressOriginator = &o
		}
	case 5:
		if dst != nil && rig.JS(dst) == rig.JS(rig.LNM) {
			h.AddressOriginator = rig.FA(rig.LocalAddr, []uint{1}, 1)
		} else {
			h.AddressOriginator = rig.FA(rig.LocalAddr, []uint{0}, 0)
		}
	case 6:
		o := rig.FA(p.Addr, ent, sibling)
		o.Device = nil
		h.AddressOriginator = o
	case 7:
		if src != nil {
			o := *src
			h.AddressOriginator = &o
		}
	case 8:
		h.Timestamp = util.Ptr(model.AbsoluteOrRelativeTimeType("2024-02-29T23:59:59Z"))
	case 9:
		h.Timestamp = util.Ptr(model.AbsoluteOrRelativeTimeType("PT1M30S"))
	case 10:
		h.AddressOriginator = other.NM()
		h.Timestamp = util.Ptr(model.AbsoluteOrRelativeTimeType("2024-02-29T23:59:59Z"))
	}
}

// c01SendDressed is rig.Peer.Send with the optional header elements of dress.
func c01SendDressed(w *rig.World, p *rig.Peer, dress int, cl model.CmdClassifierType, src, dst *model.FeatureAddressType, ack bool, ref *model.MsgCounterType, cmd model.CmdType) model.MsgCounterType {
	if dress == 0 {
		return p.Send(cl, src, dst, ack, ref, cmd)
	}
	mc := p.NextCounter()
	d := rig.Datagram(cl, src, dst, mc, ack, ref, cmd)
	if !ack && p.AckFalse {
		d.Datagram.Header.AckRequest = util.Ptr(false)
	}
	c01DressHeader(w, p, &d, dress)
	b, err := json.Marshal(d)
	if err != nil {
		panic("harness: cannot marshal datagram: " + err.Error())
	}
	p.Raw(b)
	return mc
}
