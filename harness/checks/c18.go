package checks

import (
	"encoding/json"
	"fmt"
	"math"
	"math/rand"
	"os"
	"path/filepath"
	"reflect"
	"runtime"
	"sort"
	"strings"
	"time"

	"github.com/enbility/spine-go/api"
	"github.com/enbility/spine-go/model"
	"github.com/enbility/spine-go/spine"

	"verifharness/rig"
)

// C18 — wire format and function tables are coherent for every function; values round-trip.
//
// Parts
//   shapes    one case per (feature type, function) pair of spine.CreateFunctionData, enumerated exhaustively:
//             the command the API builds for every read / reply / notify-or-write shape is marshalled inside a
//             model.Datagram with a generated header, unmarshalled, and must be recognised as the same function,
//             payload type and value, yield partial/delete filters iff requested, and hand back the selector and
//             the elements that were put in.
//   tagtable  static pass over the eebus/json tag tables of model.CmdType and model.FilterType (the pass that
//             found D23) plus the spelling conventions that a round trip through one and the same struct cannot see.
//   fixtures  the repository's JSON fixtures decoded and re-encoded: no key of real wire JSON may get lost.
//   values    decode(encode(v)) ≍ v for generated values of every command payload, selector and elements type
//             (and Datagram, HeaderType, CmdType, FilterType), nil ≍ empty list, relative end times re-expressed.
//   periods   the TimePeriodType exception on its own: StartTime nil + relative (or absolute) EndTime.
//   periodgrid  the same exception over the calendar shape of the distance to the end (c18_periodgrid.go).
//   api       the API above FunctionDataCmd and the stack's own codec path: in a World, FeatureLocal.RequestRemoteData
//             (selector, elements), SetData and UpdateData (full, partial+selector, delete, delete+partial) for a sample
//             of functions per feature type; the datagram the stack's Sender wrote to the connection is decoded and the
//             command judged by the same judge as in part shapes.

type c18Pair struct {
	FT model.FeatureTypeType
	Fn rig.FnInfo
}

func c18Pairs() []c18Pair {
	var ps []c18Pair
	for _, ft := range rig.FeatureTypes() {
		for _, f := range rig.FunctionsOf(ft) {
			ps = append(ps, c18Pair{ft, f})
		}
	}
	return ps
}

type c18Type struct {
	Kind string // payload | selector | elements | frame
	Name string // function / json name
	T    reflect.Type
}

func c18Types() []c18Type {
	var ts []c18Type
	for _, f := range rig.CmdFields() {
		ts = append(ts, c18Type{"payload", string(f.Fn), f.T})
	}
	ftT := reflect.TypeOf(model.FilterType{})
	var fl []c18Type
	for i := 0; i < ftT.NumField(); i++ {
		f := ftT.Field(i)
		typ, ok := model.EEBusTags(f)[model.EEBusTagType]
		if !ok || f.Type.Kind() != reflect.Ptr {
			continue
		}
		kind := "elements"
		if typ == string(model.EEBusTagTypeTypeSelector) {
			kind = "selector"
		}
		fl = append(fl, c18Type{kind, c18JSONName(f), f.Type.Elem()})
	}
	sort.Slice(fl, func(i, j int) bool { return fl[i].Kind+fl[i].Name < fl[j].Kind+fl[j].Name })
	ts = append(ts, fl...)
	ts = append(ts,
		c18Type{"frame", "datagram", reflect.TypeOf(model.Datagram{})},
		c18Type{"frame", "header", reflect.TypeOf(model.HeaderType{})},
		c18Type{"frame", "cmd", reflect.TypeOf(model.CmdType{})},
		c18Type{"frame", "filter", reflect.TypeOf(model.FilterType{})})
	return ts
}

// c18ConcRaceQuickCases: cases of part conc-race in the quick tier (see the part list)
const c18ConcRaceQuickCases = 0

func c18JSONName(f reflect.StructField) string { return strings.Split(f.Tag.Get("json"), ",")[0] }

func init() {
	pairs := c18Pairs()
	types := c18Types()
	rig.Register(&rig.Check{
		ID:    "C18",
		Floor: 250,
		Rule: "shapes: one case per (feature type, function) pair returned by spine.CreateFunctionData over all feature types of the data model (enumerated completely in both tiers; 3 / 50 generated payloads, selectors and elements per pair), " +
			"twelve command shapes per payload where the filter table has the selector/elements type; non-trivial if every shape that exists for the function was built, round-tripped and judged and at least one payload was not empty; distinct = (feature type, function, has selector type, has elements type). " +
			"values: one case per (type, block) over every CmdType payload type, every selector and elements type of FilterType and the four frame types, 200 / 5000 generated values per type at 6 depths x 4 densities x 3 list lengths; non-trivial if at least 100 values were compared and a third of them were not empty; distinct = (kind, type, block). " +
			"tagtable / fixtures / periods: fixed passes, non-trivial if they examined more than 200 fields / 10 fixtures / 400 periods. " +
			"periodgrid (c18_periodgrid.go): 8 / 56 cases; the distance between the clock and the end of a period without start time enumerated by its calendar shape (every whole day below 3000, every whole hour to 3400, whole minutes, weeks, 30- and 365-day multiples, two-unit compounds; each also -1 s and +1 s, in the future and in the past, as a relative and as an absolute end time; the local zone alternates between the cases, the thorough tier runs every list in both) and every value taken through two hops (decoded, encoded and decoded again); non-trivial if at least 2000 round trips were judged and at least 200 wire texts were, by an independent reading, exactly on the grid; distinct = (list, zone, block). " +
			"api: one case per feature type (NodeManagement excepted), 3 / 12 functions drawn per case (list functions with a key-covering selector first), every read form and every update form the function has; non-trivial if at least 6 datagrams were decoded from the connection and judged; distinct = (feature type, functions drawn). " +
			"Histories (c18_history.go). shapes: all commands of a payload are kept alive and encoded a second time together in one datagram after the last one was built (late/...), and between the payloads the API is called with arguments the function has no place for (foreign selector / elements of 8 kinds, judged for function and payload only), so that payloads 2.. of every function are judged behind that history. " +
			"api: the same foreign argument through RequestRemoteData followed by the decided read forms again; filtered read and write commands of all drawn functions built first and then sent as ONE request through the stack's Sender; every notification the Sender remembers (DatagramForMsgCounter) encoded again at the end of the case. " +
			"conc / conc-race: 4 / 96 and 0 / 32 cases of five goroutines (same function on two objects, one shared object, a third function) building filtered commands in lock step (all build four commands each, then all encode: 6 / 30 rounds) and free running (12 / 120 commands each); non-trivial if every command built was decoded and judged; distinct = the three functions.",
		Assumptions: []string{
			"equivalence is the statement's: nil and the empty list are identified; a TimePeriodType without start time may come back with its end time re-expressed against the clock (accepted window: the instants of marshal and unmarshal, measured around the calls, plus 2 s for the two roundings to the second)",
			"relative end times are generated below 3000 days (beyond 3277 days the duration text is imprecise: known finding D27 of C19)",
			"strings are valid UTF-8 (encoding/json replaces invalid bytes by design); NaN/Inf do not occur because the data model has no float field",
			"the filter table is read the way the stack reads it (eebus tags fct/typ); the name-derived cross-check (selectors field = <fct>Selectors, elements field = <fct minus List>Elements) holds for all 241 fields of the unchanged tree",
			"a notify/write command that carries a filter names its function in cmd.function (SPINE requires it and a command whose payload is emptied by a delete filter is recognisable by nothing else); what filtered reads and partial replies carry there (\"\" on the unchanged tree) is recorded, not judged",
			"the Go type behind every tagged CmdType / FilterType field is named <field name>+\"Type\" (1 pinned exception); filter fields are named after their function (no exception on the unchanged tree)",
			"a delete selector/elements combined with partialWithoutSelector=true (what FeatureLocal.UpdateData passes for a pure delete) is not decided by the statement: whether the delete filter reaches the wire is counted (delete-with-partial-flag-drops-delete-filter), not judged; neither is the choice between a full and a bare partial notification for a filter-less UpdateData",
			"a command is the caller's from the moment the API returns it: it may be encoded at any later time, together with other commands and by any goroutine, whatever else has been built in between (the statement names no moment); callers do not modify the selector / elements objects they handed over, and the function data is not updated while its commands are alive",
			"arguments the function has no selectors / elements type for, and pointers of another type, are outside the quantifier: the commands built from them are judged for function, payload type and payload only, a panic of the API is counted (foreign_calls_that_panic), the fate of the argument is recorded (foreign-argument:filters_on_the_wire)",
			"spelling conventions (json name = lower-camel Go field name, omitempty on every pointer and slice) are judged against the pinned exceptions of the unchanged tree (7 names, 13 fields); they are the only way to see a misspelt tag, which a round trip through one and the same struct cannot reveal",
		},
		Parts: []rig.Part{
			{Name: "shapes", Cases: func(t rig.Tier) int { return len(pairs) }, Run: c18Shapes, Procs: 1},
			{Name: "tagtable", Cases: func(t rig.Tier) int { return 1 }, Run: c18TagTable, Procs: 1, Workers: 1},
			{Name: "fixtures", Cases: func(t rig.Tier) int { return 1 }, Run: c18Fixtures, Procs: 1, Workers: 1},
			{Name: "values", Cases: func(t rig.Tier) int {
				if t == rig.Thorough {
					return len(types) * 5
				}
				return len(types)
			}, Run: c18Values, Procs: 1},
			{Name: "periods", Cases: func(t rig.Tier) int { return map[rig.Tier]int{rig.Quick: 4, rig.Thorough: 40}[t] }, Run: c18Periods, Procs: 1},
			{Name: "periodgrid", Cases: c18PeriodGridCases, Run: c18PeriodGrid, Procs: 1},
			{Name: "api", Cases: func(t rig.Tier) int {
				if t == rig.Thorough {
					return len(c18APITypes()) * 4
				}
				return len(c18APITypes())
			}, Run: c18API},
			{Name: "conc", Cases: func(t rig.Tier) int { return map[rig.Tier]int{rig.Quick: 4, rig.Thorough: 96}[t] }, Run: c18Conc, Procs: 8, Workers: 8, Chunk: 1},
			// thorough tier only: a worker of the race binary costs one second of wall time whatever it does (GORACE's
			// atexit_sleep_ms, default 1000, which rig/frame.go does not lower) - a third of this check's quick tier
			{Name: "conc-race", Race: true, Cases: func(t rig.Tier) int { return map[rig.Tier]int{rig.Quick: c18ConcRaceQuickCases, rig.Thorough: 32}[t] }, Run: c18Conc, Procs: 8, Workers: 4, Chunk: 8},
		},
		Extra: func(agg *rig.Aggregate, cov map[string]any) {
			judged := len(agg.Sets["pairs_judged"])
			fns := len(agg.Sets["functions"])
			cov["cmd_function_of_filtered_reads_and_partial_replies"] = map[string]any{
				"observed_read":        agg.Sets["cmd.function_of_filtered_read"],
				"observed_reply":       agg.Sets["cmd.function_of_filtered_reply"],
				"pinned":               `""`,
				"as_on_unchanged_tree": len(agg.Sets["cmd.function_of_filtered_read"]) == 1 && agg.Sets["cmd.function_of_filtered_read"][`""`] && len(agg.Sets["cmd.function_of_filtered_reply"]) == 1 && agg.Sets["cmd.function_of_filtered_reply"][`""`],
				"note":                 "not decided by the statement: recorded, a difference is not a violation",
			}
			cov["delete_filter_with_partial_flag"] = map[string]any{
				"dropped": agg.Counts["delete-with-partial-flag-drops-delete-filter"], "kept": agg.Counts["delete-with-partial-flag-keeps-delete-filter"],
				"note": "NotifyOrWriteCmdType(delete selector/elements, partialWithoutSelector=true), reached through FeatureLocal.UpdateData(fn, data, nil, filterDelete): counted, not judged",
			}
			cov["exhaustive_dimension"] = map[string]any{
				"dimension":                "feature type x function as registered by spine.CreateFunctionData",
				"pairs_in_function_table":  len(pairs),
				"pairs_judged":             judged,
				"distinct_functions":       fns,
				"feature_types_enumerated": len(rig.FeatureTypes()),
				"complete":                 judged == len(pairs),
			}
		},
	})
}

// ---------------------------------------------------------------------------
// generator: depth / density / list length are parameters, scalars include the extremes of their kind

type c18Gen struct {
	r        *rand.Rand
	maxDepth int
	fill     float64
	maxList  int
	budget   int
	now      time.Time
}

var c18Strings = []string{"", "a", "b7", "PT2H", "2024-02-29T23:59:60Z", "ü€😀", "q\"uo\\te", "<tag>&amp;", "line\nbreak\ttab", "\u0000\u001f", "  ", "  spaced  ", "null", "{}", "0", "-1", strings.Repeat("long", 40)}

func c18NewGen(r *rand.Rand, i int) *c18Gen {
	return &c18Gen{r: r, maxDepth: []int{1, 2, 3, 4, 6, 12}[i%6], fill: []float64{0.15, 0.4, 0.7, 1.0}[(i/6)%4], maxList: 1 + (i/24)%3, budget: 2500, now: time.Now().UTC()}
}

func (g *c18Gen) ptrTo(t reflect.Type) any {
	p := reflect.New(t)
	p.Elem().Set(g.val(t, 0))
	return p.Interface()
}

func (g *c18Gen) val(t reflect.Type, depth int) reflect.Value {
	g.budget--
	v := reflect.New(t).Elem()
	switch t.Kind() {
	case reflect.Ptr:
		p := reflect.New(t.Elem())
		p.Elem().Set(g.val(t.Elem(), depth))
		return p
	case reflect.Uint, reflect.Uint8, reflect.Uint16, reflect.Uint32, reflect.Uint64:
		max := uint64(math.MaxUint64)
		if b := t.Bits(); b < 64 {
			max = 1<<uint(b) - 1
		}
		v.SetUint([]uint64{0, 1, uint64(g.r.Intn(50)), uint64(g.r.Intn(100000)), max, max - 1, max / 2}[g.r.Intn(7)])
	case reflect.Int, reflect.Int8, reflect.Int16, reflect.Int32, reflect.Int64:
		b := uint(t.Bits())
		max := int64(1<<(b-1) - 1)
		min := -max - 1
		v.SetInt([]int64{0, 1, -1, int64(g.r.Intn(50)), -int64(g.r.Intn(100000)), max, min, max / 3}[g.r.Intn(8)])
	case reflect.Float32, reflect.Float64:
		v.SetFloat([]float64{0, 0.1, -1.5, 1e300, 5e-324, float64(g.r.Intn(50))}[g.r.Intn(6)])
	case reflect.Bool:
		v.SetBool(g.r.Intn(2) == 0)
	case reflect.String:
		if g.r.Intn(3) == 0 {
			v.SetString(c18Strings[g.r.Intn(len(c18Strings))])
		} else {
			v.SetString(fmt.Sprintf("%c%d", 'a'+rune(g.r.Intn(4)), g.r.Intn(50)))
		}
	case reflect.Struct:
		if t == reflect.TypeOf(model.TimePeriodType{}) {
			v.Set(reflect.ValueOf(g.period()))
			return v
		}
		if depth >= g.maxDepth {
			return v
		}
		for i := 0; i < t.NumField(); i++ {
			if !v.Field(i).CanSet() {
				continue
			}
			ft := t.Field(i).Type
			optional := ft.Kind() == reflect.Ptr || ft.Kind() == reflect.Slice
			if optional && (g.budget <= 0 || g.r.Float64() >= g.fill) {
				continue
			}
			v.Field(i).Set(g.val(ft, depth+1))
		}
	case reflect.Slice:
		n := g.r.Intn(g.maxList + 1)
		if g.budget <= 0 || depth >= g.maxDepth {
			n = 0
		}
		if n == 0 {
			if g.r.Intn(2) == 0 {
				v.Set(reflect.MakeSlice(t, 0, 0)) // empty but not nil: must come back equivalent to absent
			}
			return v
		}
		s := reflect.MakeSlice(t, 0, n)
		for i := 0; i < n; i++ {
			s = reflect.Append(s, g.val(t.Elem(), depth+1))
		}
		v.Set(s)
	}
	return v
}

// period draws every form of a time period: with start time (exact), without start time and a relative,
// an absolute or an unparseable end time (the statement's exception applies to the first two).
func (g *c18Gen) period() model.TimePeriodType {
	abs := func() *model.AbsoluteOrRelativeTimeType {
		return model.NewAbsoluteOrRelativeTimeType(fmt.Sprintf("20%02d-%02d-%02dT%02d:%02d:%02dZ", 20+g.r.Intn(12), 1+g.r.Intn(12), 1+g.r.Intn(28), g.r.Intn(24), g.r.Intn(60), g.r.Intn(60)))
	}
	span := func() time.Duration {
		d := time.Duration(g.r.Int63n(3000*24*3600)) * time.Second
		switch g.r.Intn(4) {
		case 0:
			d = time.Duration(g.r.Int63n(7200)) * time.Second
		case 1:
			d = -d
		}
		// the calendar shape of the distance (see c18_periodgrid.go): a third of the spans is a whole number of
		// minutes, hours, days or weeks, where the duration text leaves fields out
		if g.r.Intn(3) == 0 {
			d = d.Truncate([]time.Duration{time.Minute, time.Hour, c18Day, c18Week}[g.r.Intn(4)])
		}
		return d
	}
	switch g.r.Intn(8) {
	case 0:
		return model.TimePeriodType{}
	case 1:
		return model.TimePeriodType{StartTime: abs()}
	case 2:
		return model.TimePeriodType{StartTime: abs(), EndTime: abs()}
	case 3:
		return model.TimePeriodType{StartTime: model.NewAbsoluteOrRelativeTimeType("PT0S"), EndTime: model.NewAbsoluteOrRelativeTimeTypeFromDuration(span())}
	case 4:
		return model.TimePeriodType{EndTime: model.NewAbsoluteOrRelativeTimeTypeFromDuration(span())}
	case 5: // the text written by the harness, not by the function that also writes the wire text
		return model.TimePeriodType{EndTime: model.NewAbsoluteOrRelativeTimeType(c18DurText(span()))}
	case 6:
		return model.TimePeriodType{EndTime: model.NewAbsoluteOrRelativeTimeTypeFromTime(g.now.Add(span()))}
	default:
		return model.TimePeriodType{EndTime: model.NewAbsoluteOrRelativeTimeType(fmt.Sprintf("x%d", g.r.Intn(50)))}
	}
}

// ---------------------------------------------------------------------------
// equivalence: the statement's, nothing else

type c18Eq struct {
	m0, t1 time.Time // before marshal, after unmarshal
	rel    int       // time periods judged by the exception
}

var c18PeriodT = reflect.TypeOf(model.TimePeriodType{})

// diff returns "" when b (decoded) is equivalent to a (original), else the first differing path.
func (e *c18Eq) diff(a, b reflect.Value, path string) string {
	if a.IsValid() != b.IsValid() {
		return path + ": one side invalid"
	}
	if !a.IsValid() {
		return ""
	}
	if a.Type() != b.Type() {
		return fmt.Sprintf("%s: type %s vs %s", path, a.Type(), b.Type())
	}
	switch a.Kind() {
	case reflect.Ptr, reflect.Interface:
		if a.IsNil() || b.IsNil() {
			if a.IsNil() != b.IsNil() {
				return fmt.Sprintf("%s: nil=%v vs nil=%v", path, a.IsNil(), b.IsNil())
			}
			return ""
		}
		return e.diff(a.Elem(), b.Elem(), path)
	case reflect.Slice:
		if a.Len() != b.Len() {
			return fmt.Sprintf("%s: %d vs %d elements", path, a.Len(), b.Len())
		}
		for i := 0; i < a.Len(); i++ {
			if d := e.diff(a.Index(i), b.Index(i), fmt.Sprintf("%s[%d]", path, i)); d != "" {
				return d
			}
		}
		return ""
	case reflect.Struct:
		if a.Type() == c18PeriodT {
			return e.period(a.Interface().(model.TimePeriodType), b.Interface().(model.TimePeriodType), path)
		}
		for i := 0; i < a.NumField(); i++ {
			if d := e.diff(a.Field(i), b.Field(i), path+"."+a.Type().Field(i).Name); d != "" {
				return d
			}
		}
		return ""
	case reflect.Map:
		if !reflect.DeepEqual(a.Interface(), b.Interface()) {
			return path + ": maps differ"
		}
		return ""
	default:
		if a.Interface() != b.Interface() {
			return fmt.Sprintf("%s: %#v vs %#v", path, a.Interface(), b.Interface())
		}
		return ""
	}
}

func c18Str(p *model.AbsoluteOrRelativeTimeType) string {
	if p == nil {
		return "<nil>"
	}
	return string(*p)
}

func (e *c18Eq) period(a, b model.TimePeriodType, path string) string {
	exact := func() string {
		if c18Str(a.StartTime) != c18Str(b.StartTime) || c18Str(a.EndTime) != c18Str(b.EndTime) {
			return fmt.Sprintf("%s: period {start %s end %s} vs {start %s end %s}", path, c18Str(a.StartTime), c18Str(a.EndTime), c18Str(b.StartTime), c18Str(b.EndTime))
		}
		return ""
	}
	if a.StartTime != nil || a.EndTime == nil {
		return exact()
	}
	if b.StartTime != nil || b.EndTime == nil {
		return exact()
	}
	if c18Str(a.EndTime) == c18Str(b.EndTime) {
		return ""
	}
	// the exception: the end time may be re-expressed against the clock
	var lo, hi time.Time
	transit := e.t1.Sub(e.m0)
	if a.EndTime.IsRelativeTime() {
		d, err := a.EndTime.GetTimeDuration()
		if err != nil {
			return exact()
		}
		lo, hi = e.m0.Add(d), e.t1.Add(d)
	} else if ta, err := a.EndTime.GetDateTimeType().GetTime(); err == nil {
		lo, hi = ta.Add(-transit), ta.Add(transit)
	} else {
		return exact()
	}
	var tb time.Time
	if b.EndTime.IsRelativeTime() {
		d, err := b.EndTime.GetTimeDuration()
		if err != nil {
			return exact()
		}
		tb = e.t1.Add(d)
		hi = hi.Add(transit)
		lo = lo.Add(-transit)
	} else {
		t, err := b.EndTime.GetDateTimeType().GetTime()
		if err != nil {
			return exact()
		}
		tb = t
	}
	e.rel++
	const slack = 2 * time.Second
	if tb.Before(lo.Add(-slack)) || tb.After(hi.Add(slack)) {
		return fmt.Sprintf("%s: end time %s came back as %s = %s, outside [%s, %s] +-2s", path, c18Str(a.EndTime), c18Str(b.EndTime), tb.Format(time.RFC3339), lo.Format(time.RFC3339), hi.Format(time.RFC3339))
	}
	return ""
}

// roundtrip marshals the value p points to and unmarshals into a new value of the same type.
func c18Roundtrip(p any) (out any, js []byte, eq *c18Eq, err error) {
	eq = &c18Eq{m0: time.Now()}
	js, err = json.Marshal(p)
	if err != nil {
		return nil, nil, eq, fmt.Errorf("marshal: %w", err)
	}
	o := reflect.New(reflect.TypeOf(p).Elem())
	err = json.Unmarshal(js, o.Interface())
	eq.t1 = time.Now()
	if err != nil {
		return nil, js, eq, fmt.Errorf("unmarshal: %w", err)
	}
	return o.Interface(), js, eq, nil
}

func c18Clip(b []byte) string {
	if len(b) > 1500 {
		return string(b[:1500]) + "…"
	}
	return string(b)
}

// ---------------------------------------------------------------------------
// part shapes

func c18FilterTypes(fn model.FunctionType) (selT, elT reflect.Type) {
	ftT := reflect.TypeOf(model.FilterType{})
	for i := 0; i < ftT.NumField(); i++ {
		tags := model.EEBusTags(ftT.Field(i))
		if tags[model.EEBusTagFunction] != string(fn) || ftT.Field(i).Type.Kind() != reflect.Ptr {
			continue
		}
		switch tags[model.EEBusTagType] {
		case string(model.EEBusTagTypeTypeSelector):
			selT = ftT.Field(i).Type.Elem()
		case string(model.EEbusTagTypeTypeElements):
			elT = ftT.Field(i).Type.Elem()
		}
	}
	return
}

type c18Shape struct {
	name                    string
	kind                    string // read | reply | notify: decides what cmd.function must be when a filter is present
	build                   func() model.CmdType
	payload                 bool // the command carries the stored data (else the empty payload of a read)
	wantPartial, wantDelete bool
	sel, el, delSel, delEl  any
	// partialOptional (API path, filter-less UpdateData): the statement does not say whether the notification of a
	// filter-less update is a full or a bare partial one; a partial filter may be there, but carries nothing
	partialOptional bool
	// observeDeleteDrop: a delete selector/elements together with partialWithoutSelector=true. The statement lists the
	// notify/write shapes individually and does not decide this combination: the filters are counted, not judged
	observeDeleteDrop bool
	// foreign (c18_history.go): the call hands the API an argument the function has no place for (a selector for a function
	// without selectors type, ...). The statement decides that the command is recognised as the function with its payload;
	// what becomes of the argument is counted, not judged. These calls are the HISTORY in front of the judged shapes.
	foreign string
}

func c18Kind(name string) string {
	switch {
	case strings.HasPrefix(name, "read"):
		return "read"
	case strings.HasPrefix(name, "reply"):
		return "reply"
	}
	return "notify"
}

func c18Shapes(c *rig.Ctx) {
	pairs := c18Pairs()
	pr := pairs[c.Index%len(pairs)]
	fn, T := pr.Fn.Fn, pr.Fn.T
	var fd api.FunctionDataCmdInterface
	for _, x := range spine.CreateFunctionData[api.FunctionDataCmdInterface](pr.FT) {
		if x.FunctionType() == fn {
			fd = x
		}
	}
	if fd == nil {
		c.Violate("functiontable/function-vanished", "%s/%s is not returned by CreateFunctionData any more", pr.FT, fn)
		return
	}
	selT, elT := c18FilterTypes(fn)
	c.Seen("functions", string(fn))
	c.Seen("pairs_judged", string(pr.FT)+"/"+string(fn))
	c.Seen("feature_types", string(pr.FT))
	if selT == nil {
		c.Seen("no_selector_type", string(fn))
	}
	if elT == nil {
		c.Seen("no_elements_type", string(fn))
	}
	reps := c.Pick(3, 50)
	var nonEmpty bool
	var judged, expected, late, lateExpected, foreign int
	var trace []string
	// reply / notify built from function data that holds NOTHING (a fresh object, nothing stored yet): the function is
	// recognised and the payload is the empty value of the registered type
	{
		var fresh api.FunctionDataCmdInterface
		for _, x := range spine.CreateFunctionData[api.FunctionDataCmdInterface](pr.FT) {
			if x.FunctionType() == fn {
				fresh = x
			}
		}
		if fresh == nil || !rig.IsNil(fresh.DataCopyAny()) {
			c.Violate("store/fresh-function-data-holds-data", "%s/%s: a new function data object does not start empty: %s", pr.FT, fn, rig.JS(fresh.DataCopyAny()))
		} else {
			g := c18NewGen(c.Rand, c.Index)
			for _, s := range []c18Shape{
				{name: "reply@empty-store", build: func() model.CmdType { return fresh.ReplyCmdType(false) }},
				{name: "reply-partial@empty-store", build: func() model.CmdType { return fresh.ReplyCmdType(true) }, wantPartial: true},
				{name: "notify-full@empty-store", build: func() model.CmdType { return fresh.NotifyOrWriteCmdType(nil, nil, false, nil) }},
				{name: "notify-partial@empty-store", build: func() model.CmdType { return fresh.NotifyOrWriteCmdType(nil, nil, true, nil) }, wantPartial: true},
			} {
				s.kind = c18Kind(s.name)
				expected++
				if c18OneShape(c, pr, T, selT, elT, nil, s, g) {
					judged++
				}
				c.Count("shape:"+s.name, 1)
				trace = append(trace, s.name)
			}
		}
	}
	for rep := 0; rep < reps; rep++ {
		g := c18NewGen(c.Rand, rep+c.Index)
		if rep == 0 {
			g.fill, g.maxDepth = 1.0, 3 // the first payload of every function is dense
		}
		dp := g.ptrTo(T)
		if rig.CanonAny(dp) != "&{}" {
			nonEmpty = true
		}
		if _, err := fd.UpdateDataAny(false, true, dp, nil, nil); err != nil {
			c.Violate("store/full-update-rejected", "%s/%s: UpdateDataAny(full) failed: %s", pr.FT, fn, err.String())
			continue
		}
		if d := (&c18Eq{}).diff(reflect.ValueOf(dp), reflect.ValueOf(fd.DataCopyAny()), "stored"); d != "" {
			c.Violate("store/datacopy-differs", "%s/%s: DataCopyAny differs from what was stored: %s", pr.FT, fn, d)
		}
		mkSel := func() any {
			if selT == nil {
				return nil
			}
			gs := c18NewGen(c.Rand, c.Rand.Intn(72))
			gs.maxDepth = 2 + c.Rand.Intn(2)
			return gs.ptrTo(selT)
		}
		mkEl := func() any {
			if elT == nil {
				return nil
			}
			ge := c18NewGen(c.Rand, c.Rand.Intn(72))
			ge.maxDepth = 2 + c.Rand.Intn(2)
			return ge.ptrTo(elT)
		}
		var shapes []c18Shape
		// every second payload hands the omitted filter parts over as typed nil pointers inside the `any`
		// parameters (what a wrapper with typed optional parameters does) instead of untyped nils
		typedNil := rep%2 == 1
		var nS, nE any
		if typedNil && selT != nil {
			nS = reflect.Zero(reflect.PtrTo(selT)).Interface()
		}
		if typedNil && elT != nil {
			nE = reflect.Zero(reflect.PtrTo(elT)).Interface()
		}
		add := func(s c18Shape) {
			s.kind = c18Kind(s.name)
			if typedNil {
				s.name += "~typed-nil"
			}
			shapes = append(shapes, s)
		}
		add(c18Shape{name: "read", build: func() model.CmdType { return fd.ReadCmdType(nS, nE) }})
		if s := mkSel(); s != nil {
			add(c18Shape{name: "read+selector", build: func() model.CmdType { return fd.ReadCmdType(s, nE) }, wantPartial: true, sel: s})
		}
		if e := mkEl(); e != nil {
			add(c18Shape{name: "read+elements", build: func() model.CmdType { return fd.ReadCmdType(nS, e) }, wantPartial: true, el: e})
		}
		if s, e := mkSel(), mkEl(); s != nil && e != nil {
			add(c18Shape{name: "read+selector+elements", build: func() model.CmdType { return fd.ReadCmdType(s, e) }, wantPartial: true, sel: s, el: e})
		}
		add(c18Shape{name: "reply", build: func() model.CmdType { return fd.ReplyCmdType(false) }, payload: true})
		add(c18Shape{name: "reply-partial", build: func() model.CmdType { return fd.ReplyCmdType(true) }, payload: true, wantPartial: true})
		add(c18Shape{name: "notify-full", build: func() model.CmdType { return fd.NotifyOrWriteCmdType(nS, nS, false, nE) }, payload: true})
		add(c18Shape{name: "notify-partial", build: func() model.CmdType { return fd.NotifyOrWriteCmdType(nS, nS, true, nE) }, payload: true, wantPartial: true})
		if s := mkSel(); s != nil {
			add(c18Shape{name: "notify-partial+selector", build: func() model.CmdType { return fd.NotifyOrWriteCmdType(nS, s, false, nE) }, payload: true, wantPartial: true, sel: s})
		}
		if s := mkSel(); s != nil {
			add(c18Shape{name: "notify-delete+selector", build: func() model.CmdType { return fd.NotifyOrWriteCmdType(s, nS, false, nE) }, payload: true, wantDelete: true, delSel: s})
		}
		if e := mkEl(); e != nil {
			add(c18Shape{name: "notify-delete+elements", build: func() model.CmdType { return fd.NotifyOrWriteCmdType(nS, nS, false, e) }, payload: true, wantDelete: true, delEl: e})
		}
		if s, e := mkSel(), mkEl(); s != nil && e != nil {
			add(c18Shape{name: "notify-delete+selector+elements", build: func() model.CmdType { return fd.NotifyOrWriteCmdType(s, nS, false, e) }, payload: true, wantDelete: true, delSel: s, delEl: e})
		}
		if s, s2 := mkSel(), mkSel(); s != nil {
			add(c18Shape{name: "notify-delete+selector,partial+selector", build: func() model.CmdType { return fd.NotifyOrWriteCmdType(s, s2, false, nE) }, payload: true, wantDelete: true, wantPartial: true, delSel: s, sel: s2})
		}
		// a delete filter together with partialWithoutSelector=true (what FeatureLocal.UpdateData passes for a pure
		// delete): observed and counted, see c18Shape.observeDeleteDrop
		if s := mkSel(); s != nil {
			add(c18Shape{name: "notify-delete+selector,partial-flag", build: func() model.CmdType { return fd.NotifyOrWriteCmdType(s, nS, true, nE) }, payload: true, observeDeleteDrop: true, delSel: s})
		}
		if e := mkEl(); e != nil {
			add(c18Shape{name: "notify-delete+elements,partial-flag", build: func() model.CmdType { return fd.NotifyOrWriteCmdType(nS, nS, true, e) }, payload: true, observeDeleteDrop: true, delEl: e})
		}
		if s, e := mkSel(), mkEl(); s != nil && e != nil {
			add(c18Shape{name: "notify-delete+selector+elements,partial-flag", build: func() model.CmdType { return fd.NotifyOrWriteCmdType(s, nS, true, e) }, payload: true, observeDeleteDrop: true, delSel: s, delEl: e})
		}
		expected += len(shapes)
		var held []*c18Held
		for _, s := range shapes {
			h, ok := c18OneShapeKeep(c, pr, T, selT, elT, dp, s, g)
			if ok {
				judged++
			}
			if h != nil {
				held = append(held, h)
			}
			c.Count("shape:"+s.name, 1)
			if rep == 0 {
				trace = append(trace, s.name)
			}
		}
		// the commands of this payload are all still alive: encode them once more, together, now that every other one
		// has been built, and judge what a receiver gets (c18_history.go)
		// (quick tier: for the dense first payload and the first typed-nil payload; thorough: every second payload)
		if (c.Thorough() && rep%2 == 0) || rep < 2 {
			lateExpected += len(held)
			late += c18Late(c, "late", fmt.Sprintf("%s/%s", pr.FT, fn), held, g)
		}
		// history for the payloads that follow (and for every later case of this process): calls with arguments the
		// function has no place for
		if rep == reps-1 && rep > 0 && c.Index%4 != 0 {
			continue // nothing of this case follows; every fourth case leaves the history to the cases behind it
		}
		n, tr := c18ForeignCalls(c, pr, fd, T, selT, elT, dp, rep, g)
		foreign += n
		if rep == 0 {
			trace = append(trace, tr...)
		}
	}
	c.Count("late_commands_judged", int64(late))
	c.Count("foreign_calls", int64(foreign))
	c.Count("shapes_run", int64(judged))
	judged += late
	expected += lateExpected
	c.Events(int64(judged + foreign))
	c.Shape(fmt.Sprintf("%s/%s/sel=%v/el=%v", pr.FT, fn, selT != nil, elT != nil))
	c.NonTrivial(judged == expected && judged >= 5 && nonEmpty)
	sel, el := "no selector type", "no elements type"
	if selT != nil {
		sel = selT.Name()
	}
	if elT != nil {
		el = elT.Name()
	}
	c.Sample(map[string]any{"feature_type": pr.FT, "function": fn, "payload_type": T.Name(), "selector_type": sel, "elements_type": el, "shapes": trace, "payloads": reps, "roundtrips_judged": judged})
	if c.Failed() {
		c.Witness(map[string]any{"feature_type": pr.FT, "function": fn, "calls_per_payload_in_this_order": trace,
			"history": "every payload: the shapes one by one (each encoded at once), then all of them again in one datagram (late/...), then the calls with foreign arguments; the next payload is judged behind that history"})
	}
}

// c18OneShape builds, round-trips and judges one command; true if it was judged completely.
func c18OneShape(c *rig.Ctx, pr c18Pair, T, selT, elT reflect.Type, dp any, s c18Shape, g *c18Gen) (done bool) {
	_, done = c18OneShapeKeep(c, pr, T, selT, elT, dp, s, g)
	return done
}

// c18OneShapeKeep is c18OneShape that also hands back the command as built (nil if the API panicked), so that the caller
// can keep it alive while further commands are built and encode it again later (c18Late).
func c18OneShapeKeep(c *rig.Ctx, pr c18Pair, T, selT, elT reflect.Type, dp any, s c18Shape, g *c18Gen) (held *c18Held, done bool) {
	fn := pr.Fn.Fn
	m0 := time.Now()
	id := fmt.Sprintf("%s/%s %s", pr.FT, fn, s.name)
	bad := func(dev, format string, a ...any) {
		c.Violate("shape/"+s.name+"/"+dev, "%s: %s", id, fmt.Sprintf(format, a...))
	}
	var cmd model.CmdType
	var built bool
	func() {
		defer func() {
			if r := recover(); r != nil {
				buf := make([]byte, 4<<10)
				buf = buf[:runtime.Stack(buf, false)]
				bad("api-panics", "building the command panics: %v @ %s\n sel=%s el=%s delSel=%s delEl=%s", r, rig.InnermostSpineFrame(string(buf)), rig.JS(s.sel), rig.JS(s.el), rig.JS(s.delSel), rig.JS(s.delEl))
			}
		}()
		cmd = s.build()
		built = true
	}()
	if !built {
		return nil, false
	}
	want := dp
	if !s.payload {
		want = reflect.New(T).Interface()
	}
	held = &c18Held{s: s, cmd: cmd, want: want, m0: m0, fn: fn, T: T, selT: selT, elT: elT, id: fmt.Sprintf("%s/%s", pr.FT, fn)}
	hdr := g.val(reflect.TypeOf(model.HeaderType{}), 0).Interface().(model.HeaderType)
	in := &model.Datagram{Datagram: model.DatagramType{Header: hdr, Payload: model.PayloadType{Cmd: []model.CmdType{cmd}}}}
	outAny, js, eq, err := c18Roundtrip(in)
	if err != nil {
		bad("codec-error", "%v\n json=%s", err, c18Clip(js))
		return held, false
	}
	out := outAny.(*model.Datagram)
	if d := eq.diff(reflect.ValueOf(hdr), reflect.ValueOf(out.Datagram.Header), "header"); d != "" {
		c.Violate("datagram/header-differs", "%s: %s\n json=%s", id, d, c18Clip(js))
	}
	if len(out.Datagram.Payload.Cmd) != 1 {
		bad("cmd-count", "%d commands after the round trip\n json=%s", len(out.Datagram.Payload.Cmd), c18Clip(js))
		return held, false
	}
	oc := out.Datagram.Payload.Cmd[0]
	// the element that carries the payload is named like the function
	var tree struct {
		Datagram struct {
			Payload struct {
				Cmd []map[string]json.RawMessage `json:"cmd"`
			} `json:"payload"`
		} `json:"datagram"`
	}
	if err := json.Unmarshal(js, &tree); err != nil || len(tree.Datagram.Payload.Cmd) != 1 {
		bad("wire-shape", "cannot find the command in the JSON: %v\n json=%s", err, c18Clip(js))
	} else if _, ok := tree.Datagram.Payload.Cmd[0][string(fn)]; !ok {
		bad("payload-element-not-named-like-function", "no element %q in the command\n json=%s", fn, c18Clip(js))
	}
	if !c18JudgeCmd(c, "shape", id, s, fn, T, selT, elT, want, oc, eq, js) {
		return held, false
	}
	if d := eq.diff(reflect.ValueOf(cmd), reflect.ValueOf(oc), "cmd"); d != "" {
		bad("cmd-differs-after-roundtrip", "%s\n json=%s", d, c18Clip(js))
	}
	return held, true
}

// c18JudgeCmd judges one decoded command against what was asked for (shape s, payload want); false if the function
// was not recognised (nothing else can be judged then). prefix is "shape" (built and round-tripped by the harness) or
// "api" (built by FeatureLocal, encoded by the stack's Sender, decoded from the connection).
func c18JudgeCmd(c *rig.Ctx, prefix, id string, s c18Shape, fn model.FunctionType, T, selT, elT reflect.Type, want any, oc model.CmdType, eq *c18Eq, js []byte) bool {
	bad := func(dev, format string, a ...any) {
		c.Violate(prefix+"/"+s.name+"/"+dev, "%s: %s", id, fmt.Sprintf(format, a...))
	}
	cd, derr := oc.Data()
	if derr != nil || cd == nil || cd.Function == nil || *cd.Function != fn {
		got := "<none>"
		if cd != nil && cd.Function != nil {
			got = string(*cd.Function)
		}
		bad("function-not-recognised", "Cmd.Data() err=%v function=%s\n json=%s", derr, got, c18Clip(js))
		return false
	}
	if reflect.TypeOf(cd.Value) != reflect.PtrTo(T) {
		bad("payload-type", "Cmd.Data().Value is %T, the function table registers %s", cd.Value, T)
	} else if d := eq.diff(reflect.ValueOf(want), reflect.ValueOf(cd.Value), "payload"); d != "" {
		bad("payload-value", "%s\n json=%s", d, c18Clip(js))
	}
	if oc.Function != nil && *oc.Function != "" && *oc.Function != fn {
		bad("function-field", "cmd.function=%q", *oc.Function)
	}
	fnField := "absent"
	if oc.Function != nil {
		fnField = fmt.Sprintf("%q", string(*oc.Function))
		if *oc.Function == fn {
			fnField = "the function"
		}
	}
	if len(oc.Filter) > 0 {
		if s.kind == "notify" {
			// a filtered notify/write names its function in cmd.function: the receiver of a command whose payload a
			// delete filter has emptied has nothing else to recognise "that same function" by
			if oc.Function == nil || *oc.Function != fn {
				bad("function-field-missing", "a notify/write with %d filter(s) carries cmd.function %s, want %q\n json=%s", len(oc.Filter), fnField, fn, c18Clip(js))
			}
		} else {
			// filtered reads and partial replies: what they carry today is recorded (pinned observation: "" on the unchanged tree)
			c.Seen("cmd.function_of_filtered_"+s.kind, fnField)
		}
	} else {
		c.Seen("cmd.function_of_unfiltered_"+s.kind, fnField)
	}
	fp, fdl := oc.ExtractFilter()
	if s.foreign != "" {
		// not decided by the statement (there is no selectors / elements type the argument could come back as): counted
		c.Count("foreign_calls_judged_for_function_and_payload", 1)
		c.Seen("foreign-argument:filters_on_the_wire", fmt.Sprintf("%s partial=%v delete=%v filters=%d", s.kind, fp != nil, fdl != nil, len(oc.Filter)))
		return true
	}
	if s.observeDeleteDrop {
		// not decided by the statement: counted
		what := "delete-with-partial-flag-keeps-delete-filter"
		if fdl == nil {
			what = "delete-with-partial-flag-drops-delete-filter"
		}
		c.Count(what, 1)
		c.Seen(what, prefix+":"+strings.TrimSuffix(s.name, "~typed-nil"))
		c.Seen("delete-with-partial-flag:filters_on_the_wire", fmt.Sprintf("partial=%v delete=%v filters=%d", fp != nil, fdl != nil, len(oc.Filter)))
		return true
	}
	if (fp != nil) != s.wantPartial && !(s.partialOptional && !s.wantPartial) {
		bad("partial-filter-presence", "partial filter requested=%v extracted=%v\n json=%s", s.wantPartial, fp != nil, c18Clip(js))
	}
	if (fdl != nil) != s.wantDelete {
		bad("delete-filter-presence", "delete filter requested=%v extracted=%v\n json=%s", s.wantDelete, fdl != nil, c18Clip(js))
	}
	wantN := 0
	if s.wantPartial || (s.partialOptional && fp != nil) {
		wantN++
	}
	if s.wantDelete {
		wantN++
	}
	if len(oc.Filter) != wantN {
		bad("filter-count", "%d filters, %d requested\n json=%s", len(oc.Filter), wantN, c18Clip(js))
	}
	chk := func(f *model.FilterType, sel, el any, what string) {
		if f == nil {
			return
		}
		fdta, err := f.Data()
		if sel == nil && el == nil {
			if err == nil && (fdta.Selector != nil || fdta.Elements != nil) {
				bad(what+"-filter-carries-unrequested-data", "nothing was put in, FilterType.Data() returns %s", rig.JS(fdta))
			}
			return
		}
		if err != nil {
			bad(what+"-filter-data-lost", "FilterType.Data(): %v (selector in: %s, elements in: %s)\n json=%s", err, rig.JS(sel), rig.JS(el), c18Clip(js))
			return
		}
		if fdta.Function == nil || *fdta.Function != fn {
			bad(what+"-filter-names-other-function", "FilterType.Data().Function=%v", rig.JS(fdta.Function))
		}
		one := func(in, got any, t reflect.Type, kind string) {
			switch {
			case in == nil && got != nil:
				bad(what+"-filter-carries-unrequested-"+kind, "got %s", rig.JS(got))
			case in == nil:
			case got == nil:
				bad(what+"-"+kind+"-lost", "put in %s\n json=%s", rig.JS(in), c18Clip(js))
			case reflect.TypeOf(got) != reflect.PtrTo(t):
				bad(what+"-"+kind+"-type", "got %T want *%s", got, t)
			default:
				if d := eq.diff(reflect.ValueOf(in), reflect.ValueOf(got), kind); d != "" {
					bad(what+"-"+kind+"-differs", "%s\n put in %s\n got    %s", d, rig.JS(in), rig.JS(got))
				}
			}
		}
		one(sel, fdta.Selector, selT, "selector")
		one(el, fdta.Elements, elT, "elements")
	}
	chk(fp, s.sel, s.el, "partial")
	chk(fdl, s.delSel, s.delEl, "delete")
	return true
}

// ---------------------------------------------------------------------------
// part tagtable

// spellings of the unchanged tree that do not follow json name = lower-camel Go field name
var c18PinnedNames = map[string]string{
	"DirectControlActivityDataElementsType.SequenceId":                                  "sequence_id",
	"DirectControlActivityDataType.SequenceId":                                          "sequence_id",
	"MessagingDataElementsType.MessagingType":                                           "type",
	"MessagingDataType.MessagingType":                                                   "type",
	"CmdType.HvacSystemFunctionSetPointRelationListData":                                "hvacSystemFunctionSetpointRelationListData",
	"PowerTimeSlotValueListDataType.PowerTimeSlotValueData":                             "powerTimeSlotValueListData",
	"SupplyConditionThresholdRelationListDataType.SupplyConditionThresholdRelationData": "SupplyConditionThresholdRelationDataType",
}

// pointer / slice fields of the unchanged tree that are encoded without omitempty
var c18PinnedNoOmit = map[string]bool{
	"PayloadType.Cmd": true,
	"LoadControlStateDataElementsType.Timestamp": true, "LoadControlStateDataElementsType.EventStateConsume": true, "LoadControlStateDataElementsType.AppliedEventActionConsume": true,
	"LoadControlStateDataElementsType.EventStateProduce": true, "LoadControlStateDataElementsType.AppliedEventActionProduce": true,
	"LoadControlStateDataType.Timestamp": true, "LoadControlStateDataType.EventStateConsume": true, "LoadControlStateDataType.AppliedEventActionConsume": true,
	"LoadControlStateDataType.EventStateProduce": true, "LoadControlStateDataType.AppliedEventActionProduce": true,
	"TimeSeriesDataElementsType.TimeSeriesSlot": true, "TimeSeriesDataType.TimeSeriesSlot": true,
}

// Go types of tagged CmdType / FilterType fields of the unchanged tree that are not named <field name>+"Type"
var c18PinnedTypeNames = map[string]string{
	"CmdType.HvacSystemFunctionSetPointRelationListData": "HvacSystemFunctionSetpointRelationListDataType",
}

// filter fields of the unchanged tree whose JSON name derives no command of the command table (<fct>Selectors,
// <fct minus List>Elements): none. A field renamed together with its tags lands here.
var c18PinnedNameDerivesNoCommand = map[string]bool{}

// c18TypeNamedLikeField: the link between a tagged field and its Go type is only the spelling; a field holding the
// selectors/elements/payload type of ANOTHER function compiles, round-trips and passes every shape.
func c18TypeNamedLikeField(c *rig.Ctx, table, owner string, f reflect.StructField, jn string) {
	got, want := f.Type.Elem().Name(), f.Name+"Type"
	c.Count("tagged_fields_type_name_checked", 1)
	if got == want {
		return
	}
	if c18PinnedTypeNames[owner+"."+f.Name] == got {
		c.Seen("pinned_irregular_type_names", owner+"."+f.Name+"="+got)
		return
	}
	c.Violate(table+"/"+jn+"-type-not-named-like-field", "%s.%s holds a *%s, by the naming convention of the data model (type = field name + \"Type\") it holds a *%s: the field carries the type of something else", owner, f.Name, got, want)
}

// command fields the stack serves without function data (handled by NodeManagement itself / result handling)
var c18SpecialCmd = map[string]bool{
	"resultData": true, "nodeManagementBindingData": true, "nodeManagementBindingRequestCall": true, "nodeManagementBindingDeleteCall": true,
	"nodeManagementSubscriptionData": true, "nodeManagementSubscriptionRequestCall": true, "nodeManagementSubscriptionDeleteCall": true,
}

func c18LowerFirst(s string) string {
	if s == "" {
		return s
	}
	return strings.ToLower(s[:1]) + s[1:]
}

func c18TagTable(c *rig.Ctx) {
	fields := 0
	// --- command table
	ct := reflect.TypeOf(model.CmdType{})
	cmdFct := map[string]reflect.Type{}
	for i := 0; i < ct.NumField(); i++ {
		f := ct.Field(i)
		fct, ok := model.EEBusTags(f)[model.EEBusTagFunction]
		if !ok {
			c.Seen("cmd_fields_without_fct", f.Name)
			continue
		}
		fields++
		jn := c18JSONName(f)
		if f.Type.Kind() != reflect.Ptr || f.Type.Elem().Kind() != reflect.Struct {
			c.Violate("cmdtable/"+jn+"-not-a-struct-pointer", "CmdType.%s has type %s", f.Name, f.Type)
			continue
		}
		if fct == "" {
			c.Violate("cmdtable/"+jn+"-empty-fct", "CmdType.%s: %s", f.Name, f.Tag)
			continue
		}
		c18TypeNamedLikeField(c, "cmdtable", "CmdType", f, jn)
		if jn != fct {
			c.Violate("cmdtable/"+jn+"-fct-differs-from-element-name", "CmdType.%s: the JSON element is %q, the fct tag says %q (the element name IS the function name on the wire)", f.Name, jn, fct)
		}
		if _, dup := cmdFct[fct]; dup {
			c.Violate("cmdtable/"+fct+"-duplicate-fct", "two CmdType fields are tagged fct:%s", fct)
		}
		cmdFct[fct] = f.Type.Elem()
	}
	registered := map[string]bool{}
	for _, pr := range c18Pairs() {
		fn := string(pr.Fn.Fn)
		registered[fn] = true
		t, ok := cmdFct[fn]
		switch {
		case !ok:
			c.Violate("cmdtable/"+fn+"-registered-without-cmd-field", "%s registers %s, no CmdType field is tagged with it", pr.FT, fn)
		case t != pr.Fn.T:
			c.Violate("cmdtable/"+fn+"-payload-type", "%s registers %s with payload %s, the CmdType field holds %s", pr.FT, fn, pr.Fn.T, t)
		}
	}
	for fct := range cmdFct {
		switch {
		case registered[fct]:
			c.Count("cmd_fields_registered", 1)
		case c18SpecialCmd[fct]:
			c.Seen("cmd_fields_served_without_function_data", fct)
		default:
			c.Seen("cmd_fields_not_registered_for_any_feature_type", fct)
		}
	}
	// --- filter table
	ftT := reflect.TypeOf(model.FilterType{})
	seen := map[string]string{}
	for i := 0; i < ftT.NumField(); i++ {
		f := ftT.Field(i)
		if f.Name == "CmdControl" || f.Name == "FilterId" {
			continue
		}
		fields++
		jn := c18JSONName(f)
		tags := model.EEBusTags(f)
		typ, hasTyp := tags[model.EEBusTagType]
		fct, hasFct := tags[model.EEBusTagFunction]
		if f.Type.Kind() != reflect.Ptr || f.Type.Elem().Kind() != reflect.Struct {
			c.Violate("tagtable/"+jn+"-not-a-struct-pointer", "FilterType.%s has type %s", f.Name, f.Type)
			continue
		}
		c18TypeNamedLikeField(c, "tagtable", "FilterType", f, jn)
		// what the name says
		var derived []string
		kindByName := ""
		switch {
		case strings.HasSuffix(jn, "Selectors"):
			kindByName = "selector"
			derived = []string{strings.TrimSuffix(jn, "Selectors")}
		case strings.HasSuffix(jn, "Elements"):
			kindByName = "elements"
			base := strings.TrimSuffix(jn, "Elements")
			derived = []string{base}
			if strings.HasSuffix(base, "Data") {
				derived = append(derived, strings.TrimSuffix(base, "Data")+"ListData")
			}
		}
		if !hasTyp || typ == "" {
			c.Violate("tagtable/"+jn+"-no-typ", "FilterType.%s: %s", f.Name, f.Tag)
		} else if typ != "selector" && typ != "elements" {
			c.Violate("tagtable/"+jn+"-unknown-typ", "FilterType.%s: typ:%s", f.Name, typ)
		} else if kindByName != "" && kindByName != typ {
			c.Violate("tagtable/"+jn+"-typ-differs-from-name", "FilterType.%s: typ:%s", f.Name, typ)
		}
		byName := ""
		for _, d := range derived {
			if _, ok := cmdFct[d]; ok {
				byName = d
			}
		}
		switch {
		case !hasFct:
			c.Violate("tagtable/"+jn+"-no-fct", "FilterType.%s: %s", f.Name, f.Tag)
		case fct == "":
			c.Violate("tagtable/"+jn+"-empty-fct", "FilterType.%s is tagged %q: the function %q (named by the field) loses its %s in every command the API builds", f.Name, f.Tag.Get("eebus"), byName, kindByName)
		default:
			if _, ok := cmdFct[fct]; !ok {
				c.Violate("tagtable/"+jn+"-fct-names-no-command", "FilterType.%s: fct:%s is not the fct of any CmdType field (by its name it belongs to %q)", f.Name, fct, byName)
			} else if byName != "" && byName != fct {
				c.Violate("tagtable/"+jn+"-fct-differs-from-name", "FilterType.%s: fct:%s, by its name it belongs to %q", f.Name, fct, byName)
			}
			if prev, dup := seen[fct+"/"+typ]; dup {
				c.Violate("tagtable/"+fct+"-two-"+typ+"-fields", "FilterType.%s and FilterType.%s are both the %s of %s", prev, f.Name, typ, fct)
			}
			seen[fct+"/"+typ] = f.Name
		}
		if byName == "" {
			c.Seen("filter_fields_whose_name_derives_no_command", jn)
			if !c18PinnedNameDerivesNoCommand[jn] {
				c.Violate("tagtable/"+jn+"-name-derives-no-command", "FilterType.%s (typ:%s fct:%s): neither %q nor its list form is a function of the command table; every filter field of the unchanged tree is named after its function (<fct>Selectors, <fct minus List>Elements)", f.Name, typ, fct, derived)
			}
		}
	}
	for jn := range c18PinnedNameDerivesNoCommand {
		if _, ok := ftT.FieldByNameFunc(func(n string) bool { f, _ := ftT.FieldByName(n); return c18JSONName(f) == jn }); !ok {
			c.Violate("tagtable/"+jn+"-pinned-field-vanished", "the pinned filter field %q does not exist any more", jn)
		}
	}
	for fn := range registered {
		if _, ok := seen[fn+"/selector"]; !ok {
			c.Seen("no_selector_type", fn)
		}
		if _, ok := seen[fn+"/elements"]; !ok {
			c.Seen("no_elements_type", fn)
		}
	}
	// --- spelling conventions over every type reachable from a datagram
	visited := map[reflect.Type]bool{}
	var walk func(t reflect.Type)
	walk = func(t reflect.Type) {
		switch t.Kind() {
		case reflect.Ptr, reflect.Slice:
			walk(t.Elem())
			return
		case reflect.Struct:
		default:
			return
		}
		if visited[t] {
			return
		}
		visited[t] = true
		names := map[string]string{}
		for i := 0; i < t.NumField(); i++ {
			f := t.Field(i)
			fields++
			key := t.Name() + "." + f.Name
			jt := f.Tag.Get("json")
			jn := strings.Split(jt, ",")[0]
			if jn == "" || jn == "-" {
				c.Violate("convention/jsonname/"+key, "no JSON name: %q", jt)
			} else if jn != c18LowerFirst(f.Name) {
				if c18PinnedNames[key] == jn {
					c.Seen("pinned_irregular_json_names", key+"="+jn)
				} else {
					c.Violate("convention/jsonname/"+key, "JSON name %q is not the lower-camel field name %q", jn, c18LowerFirst(f.Name))
				}
			}
			if prev, dup := names[jn]; dup {
				c.Violate("convention/jsonname-collision/"+t.Name()+"."+jn, "fields %s and %s share the JSON name (encoding/json drops both)", prev, f.Name)
			}
			names[jn] = f.Name
			if (f.Type.Kind() == reflect.Ptr || f.Type.Kind() == reflect.Slice) && !strings.Contains(jt, ",omitempty") {
				if c18PinnedNoOmit[key] {
					c.Seen("pinned_fields_without_omitempty", key)
				} else {
					c.Violate("convention/omitempty/"+key, "optional field is encoded as null when absent: json:%q", jt)
				}
			}
			walk(f.Type)
		}
	}
	walk(reflect.TypeOf(model.Datagram{}))
	c.Count("tag_fields_examined", int64(fields))
	c.Count("types_reachable_from_datagram", int64(len(visited)))
	c.Events(int64(fields))
	c.Shape("tagtable")
	c.NonTrivial(fields > 200)
	c.Sample(map[string]any{"cmd_fields_with_fct": len(cmdFct), "filter_fields": len(seen), "registered_functions": len(registered), "struct_types_walked": len(visited), "fields_examined": fields})
}

// ---------------------------------------------------------------------------
// part fixtures

// c18RepoRoot is the directory the spine-go sources were compiled from.
func c18RepoRoot() string {
	f := runtime.FuncForPC(reflect.ValueOf(spine.NewDeviceLocal).Pointer())
	if f != nil {
		file, _ := f.FileLine(f.Entry())
		if d := filepath.Dir(filepath.Dir(file)); d != "" {
			if _, err := os.Stat(filepath.Join(d, "spine", "testdata")); err == nil {
				return d
			}
		}
	}
	return "/repo"
}

func c18FixtureFiles() []string {
	root := c18RepoRoot()
	a, _ := filepath.Glob(filepath.Join(root, "spine", "testdata", "*.json"))
	b, _ := filepath.Glob(filepath.Join(root, "integration_tests", "testdata", "*.json"))
	all := append(a, b...)
	sort.Strings(all)
	return all
}

// c18TreeDiff reports paths of a that are missing or different in b.
func c18TreeDiff(a, b any, path string, out *[]string) {
	switch x := a.(type) {
	case map[string]any:
		y, ok := b.(map[string]any)
		if !ok {
			*out = append(*out, path+": object became "+fmt.Sprintf("%T", b))
			return
		}
		for k, v := range x {
			w, ok := y[k]
			if !ok {
				*out = append(*out, path+"/"+k+": lost")
				continue
			}
			c18TreeDiff(v, w, path+"/"+k, out)
		}
		for k := range y {
			if _, ok := x[k]; !ok {
				*out = append(*out, path+"/"+k+": added")
			}
		}
	case []any:
		y, ok := b.([]any)
		if !ok || len(x) != len(y) {
			*out = append(*out, fmt.Sprintf("%s: list of %d became %T %v", path, len(x), b, b))
			return
		}
		for i := range x {
			c18TreeDiff(x[i], y[i], fmt.Sprintf("%s[%d]", path, i), out)
		}
	default:
		if !reflect.DeepEqual(a, b) {
			*out = append(*out, fmt.Sprintf("%s: %v became %v", path, a, b))
		}
	}
}

func c18Fixtures(c *rig.Ctx) {
	files := c18FixtureFiles()
	used := 0
	var names []string
	for _, f := range files {
		raw, err := os.ReadFile(f)
		if err != nil {
			c.Inconclusive("cannot read fixture %s: %v", f, err)
			continue
		}
		var d model.Datagram
		if err := json.Unmarshal(raw, &d); err != nil || d.Datagram.Header.CmdClassifier == nil {
			c.Seen("fixtures_skipped_not_plain_datagram_json", filepath.Base(f))
			continue
		}
		re, err := json.Marshal(d)
		if err != nil {
			c.Violate("fixture/re-encode-error", "%s: %v", filepath.Base(f), err)
			continue
		}
		var ta, tb any
		_ = json.Unmarshal(raw, &ta)
		_ = json.Unmarshal(re, &tb)
		var diffs []string
		c18TreeDiff(ta, tb, "", &diffs)
		sort.Strings(diffs)
		for _, df := range diffs {
			// a time period without start time is re-expressed by design
			if strings.Contains(df, "/endTime:") && !strings.HasSuffix(df, "lost") {
				c.Count("fixture_end_times_reexpressed", 1)
				continue
			}
			dev := "value-changed"
			if strings.HasSuffix(df, ": lost") {
				dev = "key-lost"
			} else if strings.HasSuffix(df, ": added") {
				dev = "key-added"
			}
			c.Violate("fixture/"+dev, "%s: %s", filepath.Base(f), df)
		}
		used++
		names = append(names, filepath.Base(f))
		c.Seen("fixtures", filepath.Base(f))
	}
	c.Events(int64(used))
	c.Count("fixtures_reencoded", int64(used))
	c.Shape("fixtures")
	c.NonTrivial(used > 10)
	c.Sample(map[string]any{"fixtures": names})
}

// ---------------------------------------------------------------------------
// part values

func c18Values(c *rig.Ctx) {
	types := c18Types()
	ty := types[c.Index%len(types)]
	block := c.Index / len(types)
	n := c.Pick(200, 1000)
	nonEmpty, rel := 0, 0
	var ex string
	for i := 0; i < n; i++ {
		g := c18NewGen(c.Rand, i+block*7)
		p := g.ptrTo(ty.T)
		out, js, eq, err := c18Roundtrip(p)
		if err != nil {
			c.Violate("value/"+ty.Kind+"/codec-error", "%s %s: %v\n value=%s", ty.Kind, ty.T.Name(), err, c18Clip([]byte(rig.CanonAny(p))))
			continue
		}
		if d := eq.diff(reflect.ValueOf(p), reflect.ValueOf(out), ty.T.Name()); d != "" {
			c.Violate("value/"+ty.Kind+"/differs-after-roundtrip", "%s %s (%s): %s\n json=%s", ty.Kind, ty.T.Name(), ty.Name, d, c18Clip(js))
		}
		rel += eq.rel
		if len(js) > 2 {
			nonEmpty++
			if ex == "" && len(js) > 40 {
				ex = c18Clip(js)
				if len(ex) > 300 {
					ex = ex[:300] + "…"
				}
			}
		}
	}
	c.Count("values_compared", int64(n))
	c.Count("values_"+ty.Kind, int64(n))
	c.Count("relative_end_times_judged_in_values", int64(rel))
	c.Events(int64(n))
	c.Seen("types_"+ty.Kind, ty.T.Name())
	c.Shape(fmt.Sprintf("%s/%s/%d", ty.Kind, ty.T.Name(), block))
	c.NonTrivial(n >= 100 && nonEmpty*3 >= n)
	c.Sample(map[string]any{"kind": ty.Kind, "type": ty.T.Name(), "values": n, "not_empty": nonEmpty, "example_json": ex})
}

// ---------------------------------------------------------------------------
// part periods

func c18Periods(c *rig.Ctx) {
	n := 0
	var ex []string
	// every second case runs with a local time zone that is not UTC (what the clock of a deployed device looks like):
	// re-expressing an end time against "the current time" must not depend on the zone the process runs in
	if c.Index%2 == 1 {
		old := time.Local
		time.Local = time.FixedZone("verif+02", 2*3600)
		defer func() { time.Local = old }()
		c.Count("period_cases_with_a_non_utc_local_zone", 1)
	}
	for i := 0; i < 500; i++ {
		d := time.Duration(1+c.Rand.Int63n(3000*24*3600)) * time.Second
		switch i % 5 {
		case 0:
			d = time.Duration(c.Rand.Int63n(86400)) * time.Second
		case 1:
			d = -d
		}
		if i%4 == 3 {
			d = -d // absolute end times in the past as often as in the future
		}
		var tp model.TimePeriodType
		form := "relative"
		if i%2 == 0 {
			tp = model.TimePeriodType{EndTime: model.NewAbsoluteOrRelativeTimeTypeFromDuration(d)}
		} else {
			form = "absolute"
			tp = model.TimePeriodType{EndTime: model.NewAbsoluteOrRelativeTimeTypeFromTime(time.Now().UTC().Add(d))}
		}
		try := func() (want, got time.Duration, js string, err error) {
			want, err = tp.GetDuration()
			if err != nil {
				return 0, 0, "", fmt.Errorf("GetDuration of the original: %w", err)
			}
			b, err := json.Marshal(tp)
			if err != nil {
				return want, 0, "", err
			}
			var out model.TimePeriodType
			if err := json.Unmarshal(b, &out); err != nil {
				return want, 0, string(b), err
			}
			got, err = out.GetDuration()
			return want, got, string(b) + " -> " + c18Str(out.EndTime), err
		}
		want, got, js, err := try()
		diff := got - want
		if diff < 0 {
			diff = -diff
		}
		if err == nil && diff > time.Second {
			want, got, js, err = try() // may have straddled a second boundary
			diff = got - want
			if diff < 0 {
				diff = -diff
			}
		}
		if err != nil {
			c.Violate("period/"+form+"/codec-error", "end=%s: %v (%s)", c18Str(tp.EndTime), err, js)
		} else if diff > time.Second {
			c.Violate("period/"+form+"/remaining-duration", "end=%s: remaining %v before, %v after the round trip (%s)", c18Str(tp.EndTime), want, got, js)
		}
		if len(ex) < 3 {
			ex = append(ex, fmt.Sprintf("%s %s: %v -> %s -> %v", form, c18Str(tp.EndTime), want, js, got))
		}
		// independently of GetDuration: the instant the end time denotes, before and after (past and future alike)
		out, js2, eq, err := c18Roundtrip(&tp)
		if err != nil {
			c.Violate("period/"+form+"/codec-error", "end=%s: %v", c18Str(tp.EndTime), err)
		} else if df := eq.diff(reflect.ValueOf(&tp), reflect.ValueOf(out), "period"); df != "" {
			c.Violate("period/"+form+"/denoted-instant", "%s\n json=%s", df, c18Clip(js2))
		} else if d < 0 {
			c.Count("periods_ending_in_the_past", 1)
		}
		n++
	}
	// embedded in a payload: judged by the walker with the measured window
	for i := 0; i < 100; i++ {
		d := time.Duration(1+c.Rand.Int63n(3000*24*3600)) * time.Second
		id := model.LoadControlLimitIdType(i)
		in := &model.LoadControlLimitListDataType{LoadControlLimitData: []model.LoadControlLimitDataType{{LimitId: &id, TimePeriod: &model.TimePeriodType{EndTime: model.NewAbsoluteOrRelativeTimeTypeFromDuration(d)}}}}
		out, js, eq, err := c18Roundtrip(in)
		if err != nil {
			c.Violate("period/embedded/codec-error", "%v", err)
		} else if df := eq.diff(reflect.ValueOf(in), reflect.ValueOf(out), "limits"); df != "" {
			c.Violate("period/embedded/differs", "%s\n json=%s", df, c18Clip(js))
		} else {
			c.Count("embedded_end_times_reexpressed", int64(eq.rel))
		}
		n++
	}
	c.Count("periods", int64(n))
	c.Events(int64(n))
	c.Shape(fmt.Sprintf("periods block=%d", c.Index%10))
	c.NonTrivial(n >= 400)
	c.Sample(map[string]any{"periods": n, "examples": ex})
}

// ---------------------------------------------------------------------------
// part api

func c18APITypes() []model.FeatureTypeType {
	var ts []model.FeatureTypeType
	for _, ft := range rig.FeatureTypes() {
		if ft != model.FeatureTypeTypeNodeManagement && len(rig.FunctionsOf(ft)) > 0 {
			ts = append(ts, ft)
		}
	}
	return ts
}

func c18API(c *rig.Ctx) {
	types := c18APITypes()
	FT := types[c.Index%len(types)]
	all := rig.FunctionsOf(FT)
	// draw the functions: list functions whose selector covers the identifiers first (they have every update form)
	var rich, plain []rig.FnInfo
	for _, i := range c.Rand.Perm(len(all)) {
		if li := rig.ListByFn(all[i].Fn); li != nil && li.SelCoversKeys {
			rich = append(rich, all[i])
		} else {
			plain = append(plain, all[i])
		}
	}
	k := c.Pick(3, 12)
	var fns []rig.FnInfo
	for len(fns) < k && (len(rich) > 0 || len(plain) > 0) {
		if len(rich) > 0 && (len(fns)%3 != 2 || len(plain) == 0) {
			fns, rich = append(fns, rich[0]), rich[1:]
		} else {
			fns, plain = append(fns, plain[0]), plain[1:]
		}
	}
	w := rig.NewWorld(c.Tag())
	defer w.Close()
	e := w.AddEntity(model.EntityTypeTypeCEM, []uint{1}, time.Hour)
	srv := e.GetOrAddFeature(FT, model.RoleTypeServer)
	cli := e.GetOrAddFeature(FT, model.RoleTypeClient)
	var props []model.FunctionPropertyType
	for _, f := range fns {
		srv.AddFunctionType(f.Fn, true, true)
		props = append(props, rig.FnProp(f.Fn, true, true))
	}
	// a DeviceDiagnosis server with the heartbeat function starts the entity's heartbeat: its notifications must not
	// fall between a call and the datagram taken for it (the period is an hour here, and the stream is stopped)
	if hm := e.HeartbeatManager(); hm != nil {
		hm.StopHeartbeat()
	}
	p := w.AddPeer(0)
	p.Ctr = 100000
	peerClient, peerServer := rig.FA(p.Addr, []uint{1}, 1), rig.FA(p.Addr, []uint{1}, 2)
	p.Announce([]rig.FS{rig.NMFS, {Ent: []uint{1}, Id: 1, Typ: FT, Role: model.RoleTypeClient}, {Ent: []uint{1}, Id: 2, Typ: FT, Role: model.RoleTypeServer, Fns: props}})
	p.Subscribe(peerClient, srv.Address(), FT)
	p.Tap.Take()
	rf := p.RD.FeatureByAddress(peerServer)
	if rig.IsNil(rf) || len(w.Local.SubscriptionManager().SubscriptionsOnFeature(*srv.Address())) != 1 {
		c.Inconclusive("%s: the world could not be set up (remote server feature known=%v, subscriptions on the local server=%d)", FT, !rig.IsNil(rf), len(w.Local.SubscriptionManager().SubscriptionsOnFeature(*srv.Address())))
		return
	}
	judged := 0
	var trace, names []string
	var notifies []c18SentNotify

	// one: run an API call, take what the stack wrote to the connection and judge the single command in it
	one := func(f rig.FnInfo, s c18Shape, cl model.CmdClassifierType, src, dst *model.FeatureAddressType, want func() any, call func() (*model.MsgCounterType, *model.ErrorType)) {
		fn := f.Fn
		selT, elT := c18FilterTypes(fn)
		id := fmt.Sprintf("%s/%s %s", FT, fn, s.name)
		bad := func(dev, format string, a ...any) {
			c.Violate("api/"+s.name+"/"+dev, "%s: %s", id, fmt.Sprintf(format, a...))
		}
		p.Tap.Take()
		m0 := time.Now()
		var mc *model.MsgCounterType
		var err *model.ErrorType
		ok, pan := rig.Guard(20*time.Second, func() { mc, err = call() })
		if pan != "" && s.foreign != "" {
			// an argument outside the quantifier: a panic is not this property's; it stays part of the history
			c.Count("foreign_calls_that_panic", 1)
			c.Seen("foreign_calls_that_panic", "api:"+s.name+" <- "+s.foreign)
			return
		}
		if pan != "" {
			bad("api-panics", "the call panics: %s\n sel=%s el=%s delSel=%s delEl=%s", pan, rig.JS(s.sel), rig.JS(s.el), rig.JS(s.delSel), rig.JS(s.delEl))
			return
		}
		if !ok {
			c.Inconclusive("%s: the call did not return within 20 s", id)
			return
		}
		outs := p.Tap.Take()
		eq := &c18Eq{m0: m0, t1: time.Now()}
		c.Count("api:"+s.name, 1)
		if err != nil {
			// a refused update sends nothing; which updates are accepted is not this property's
			c.Count("api_calls_refused", 1)
			c.Seen("api_calls_refused", s.name+": "+err.String())
			if len(outs) != 0 {
				bad("sent-although-refused", "the call returned %s and %d datagram(s) were written", err.String(), len(outs))
			}
			return
		}
		if len(outs) != 1 || len(outs[0].Payload.Cmd) != 1 {
			bad("not-one-command-sent", "the call succeeded and %d datagram(s) were written to the peer's connection: %s", len(outs), c18Clip([]byte(rig.JS(outs))))
			return
		}
		h := outs[0].Header
		if h.CmdClassifier == nil || *h.CmdClassifier != cl || rig.JS(h.AddressSource) != rig.JS(src) || rig.JS(h.AddressDestination) != rig.JS(dst) || (mc != nil && (h.MsgCounter == nil || *h.MsgCounter != *mc)) {
			bad("header", "classifier/addresses/counter of the datagram differ from the call: %s (want %s from %s to %s, counter %s)", rig.JS(h), cl, rig.JS(src), rig.JS(dst), rig.JS(mc))
		}
		oc := outs[0].Payload.Cmd[0]
		wv := want()
		if c18JudgeCmd(c, "api", id, s, fn, f.T, selT, elT, wv, oc, eq, []byte(rig.JS(oc))) {
			judged++
		}
		if cl == model.CmdClassifierTypeNotify && h.MsgCounter != nil {
			notifies = append(notifies, c18SentNotify{ctr: *h.MsgCounter, h: &c18Held{s: s, want: wv, m0: m0, fn: fn, T: f.T, selT: selT, elT: elT, id: fmt.Sprintf("%s/%s", FT, fn)}})
		}
		trace = append(trace, string(fn)+" "+s.name)
	}
	emptyOf := func(f rig.FnInfo) func() any { return func() any { return reflect.New(f.T).Interface() } }
	stored := func(f rig.FnInfo) func() any {
		return func() any {
			if d := srv.DataCopy(f.Fn); !rig.IsNil(d) {
				return d
			}
			return reflect.New(f.T).Interface()
		}
	}
	for fi, f := range fns {
		f := f
		fn := f.Fn
		names = append(names, string(fn))
		selT, elT := c18FilterTypes(fn)
		mk := func(t reflect.Type) any {
			if t == nil {
				return nil
			}
			g := c18NewGen(c.Rand, c.Rand.Intn(72))
			g.maxDepth = 2 + c.Rand.Intn(2)
			return g.ptrTo(t)
		}
		// omitted filter parts as typed nil pointers for every second function
		var nS, nE any
		if fi%2 == 1 && selT != nil {
			nS = reflect.Zero(reflect.PtrTo(selT)).Interface()
		}
		if fi%2 == 1 && elT != nil {
			nE = reflect.Zero(reflect.PtrTo(elT)).Interface()
		}
		read := func(name string, sel, el any) {
			s := c18Shape{name: name, kind: "read", wantPartial: sel != nil || el != nil, sel: sel, el: el}
			sa, ea := sel, el
			if sa == nil {
				sa = nS
			}
			if ea == nil {
				ea = nE
			}
			one(f, s, model.CmdClassifierTypeRead, cli.Address(), peerServer, emptyOf(f), func() (*model.MsgCounterType, *model.ErrorType) {
				return cli.RequestRemoteData(fn, sa, ea, rf)
			})
		}
		// the Sender does not write a request that equals an unanswered one a second time: repeated forms carry fresh values
		sentReads := map[string]bool{}
		fresh := func(t reflect.Type) any {
			if t == nil {
				return nil
			}
			var v any
			for try := 0; try < 12; try++ {
				if v = mk(t); !sentReads[rig.JS(v)] {
					break
				}
			}
			if v == nil || sentReads[rig.JS(v)] {
				return nil
			}
			sentReads[rig.JS(v)] = true
			return v
		}
		read("request", nil, nil)
		if s := fresh(selT); s != nil {
			read("request+selector", s, nil)
		}
		if e := fresh(elT); e != nil {
			read("request+elements", nil, e)
		}
		if s, e := fresh(selT), fresh(elT); s != nil && e != nil {
			read("request+selector+elements", s, e)
		}
		// history: the caller hands over an argument the function has no place for (judged for function and payload only),
		// then every read form the statement decides once more
		fargs := c18ForeignArgs(c.Rand, f.T, selT, elT, nil)
		fa := fargs[(fi+c.Index)%len(fargs)]
		if (selT == nil && !c18IsType(fa.v, elT)) || (selT != nil && elT == nil && !c18IsType(fa.v, selT)) {
			name, sa, ea := "request+foreign-selector", fa.v, any(nil)
			if selT != nil {
				name, sa, ea = "request+foreign-elements", nil, fa.v
			}
			c.Seen("foreign_argument_kinds", fa.kind)
			one(f, c18Shape{name: name, kind: "read", foreign: fa.kind}, model.CmdClassifierTypeRead, cli.Address(), peerServer, emptyOf(f), func() (*model.MsgCounterType, *model.ErrorType) {
				return cli.RequestRemoteData(fn, sa, ea, rf)
			})
			if e := fresh(elT); e != nil {
				read("request+elements@after-foreign-argument", nil, e)
			}
			if s := fresh(selT); s != nil {
				read("request+selector@after-foreign-argument", s, nil)
			}
		}
		update := func(s c18Shape, data any, fp, fdl *model.FilterType) {
			s.kind, s.payload = "notify", true
			one(f, s, model.CmdClassifierTypeNotify, srv.Address(), peerClient, stored(f), func() (*model.MsgCounterType, *model.ErrorType) {
				return nil, srv.UpdateData(fn, data, fp, fdl)
			})
		}
		g := c18NewGen(c.Rand, fi+c.Index)
		g.fill, g.maxDepth = 1.0, 3
		li := rig.ListByFn(fn)
		first := g.ptrTo(f.T)
		if li != nil && li.SelCoversKeys {
			var items []reflect.Value
			for id := 0; id < 4; id++ {
				items = append(items, li.NewItem(c.Rand, id))
			}
			first = li.MkList(items)
		}
		one(f, c18Shape{name: "setdata", kind: "notify", payload: true}, model.CmdClassifierTypeNotify, srv.Address(), peerClient, func() any { return first },
			func() (*model.MsgCounterType, *model.ErrorType) { srv.SetData(fn, first); return nil, nil })
		if li == nil || !li.SelCoversKeys {
			update(c18Shape{name: "updatedata", partialOptional: true}, g.ptrTo(f.T), nil, nil)
			continue
		}
		const dom = 4
		if u, ok := li.GenUpdate(c.Rand, 3, dom); ok { // partial + selector
			fp, _, _ := li.Filters(u)
			update(c18Shape{name: "updatedata-partial+selector", wantPartial: true, sel: li.Selector(u.SelKey).Interface()}, li.MkList(rig.CloneItems(u.Items)), fp, nil)
		}
		if u, ok := li.GenUpdate(c.Rand, 1, dom); ok { // partial by identifiers, no selector
			fp, _, _ := li.Filters(u)
			update(c18Shape{name: "updatedata-partial", wantPartial: true}, li.MkList(rig.CloneItems(u.Items)), fp, nil)
		}
		if u, ok := li.GenUpdate(c.Rand, 4, dom); ok { // pure delete by selector: FeatureLocal passes partialWithoutSelector=true
			_, fdl, _ := li.Filters(u)
			update(c18Shape{name: "updatedata-delete+selector", observeDeleteDrop: true, delSel: li.Selector(u.DelSel).Interface()}, li.MkList(nil), nil, fdl)
		}
		if u, ok := li.GenUpdate(c.Rand, 5, dom); ok { // pure delete of elements
			_, fdl, _ := li.Filters(u)
			update(c18Shape{name: "updatedata-delete+elements", observeDeleteDrop: true}, li.MkList(nil), nil, fdl)
		}
		if u, ok := li.GenUpdate(c.Rand, 7, dom); ok { // delete by selector + partial by identifiers (no partial selector)
			fp, fdl, _ := li.Filters(u)
			update(c18Shape{name: "updatedata-delete+selector,partial", observeDeleteDrop: true, delSel: li.Selector(u.DelSel).Interface()}, li.MkList(rig.CloneItems(u.Items)), fp, fdl)
		}
		// delete by selector AND partial by selector: both filters are decided by the statement
		up, ok1 := li.GenUpdate(c.Rand, 3, dom)
		ud, ok2 := li.GenUpdate(c.Rand, 4, dom)
		if ok1 && ok2 {
			fp, _, _ := li.Filters(up)
			_, fdl, _ := li.Filters(ud)
			update(c18Shape{name: "updatedata-delete+selector,partial+selector", wantPartial: true, wantDelete: true, sel: li.Selector(up.SelKey).Interface(), delSel: li.Selector(ud.DelSel).Interface()},
				li.MkList(rig.CloneItems(up.Items)), fp, fdl)
		}
		update(c18Shape{name: "updatedata", partialOptional: true}, li.MkList(items4(li, c.Rand)), nil, nil)
	}
	judged += c18APIBatch(c, FT, fns, cli, peerServer, rf, p)
	judged += c18APINotifyCache(c, rf.Device().Sender(), notifies)
	if len(p.Tap.Broken) > 0 {
		c.Violate("api/undecodable-datagram", "%s: %d datagram(s) written by the stack do not decode: %s", FT, len(p.Tap.Broken), c18Clip([]byte(p.Tap.Broken[0])))
	}
	c.Count("api_datagrams_judged", int64(judged))
	c.Events(int64(judged))
	c.Seen("api_feature_types", string(FT))
	c.Shape(fmt.Sprintf("api/%s/%s", FT, strings.Join(names, ",")))
	c.NonTrivial(judged >= 6)
	c.Sample(map[string]any{"feature_type": FT, "functions": names, "calls": trace, "datagrams_judged": judged})
}

func items4(li *rig.ListInfo, r *rand.Rand) []reflect.Value {
	var items []reflect.Value
	for id := 0; id < 3; id++ {
		items = append(items, li.NewItem(r, id))
	}
	return items
}
