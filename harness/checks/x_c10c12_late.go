package checks

import (
	"fmt"
	"math/rand"
	"runtime"
	"strings"
	"sync"
	"time"

	"github.com/enbility/spine-go/api"
	"github.com/enbility/spine-go/model"
	"github.com/enbility/spine-go/spine"
	"github.com/enbility/spine-go/util"

	"verifharness/rig"
)

// History shared by C10 (part late-verdict) and C12 (part late-verdict): the application's verdict for a write of a
// connection that no longer exists arrives after the same SKI has connected again and has a write pending under the
// SAME message counter (counters restart with every connection; approvals may take a human).
//
//	k in {1,2,3} approval callbacks on a LoadControl server feature, approval timeout "never within the case".
//	X (bound) writes W_old (element e := v_old); the callbacks hold its message. X's connection is removed (C10: its
//	pending approvals disappear) and set up again; X announces, binds, and writes W_new (element e' := v_new) with the
//	same counter; the callbacks hold that message too. Now the application answers the OLD message — every callback
//	approves, or one denies — and only afterwards the new one (all approve, or one denies after the approvals).
//
// Verdicts at the return of each ApproveOrDenyWrite call (logical steps, no clock):
//   - after the verdicts for the old message: nothing was written to the old connection since its removal returned
//     (C10: "no further datagram is written to the removed connection"), W_new has no result yet and neither element
//     changed (C12: a write is applied iff every callback approved IT), W_new is still pending;
//   - after the verdicts for the new message: W_new has exactly its one outcome (applied + one success result iff ack, or
//     one error result and the data unchanged), and W_old's value was never applied.
//
// Found on the tree before the repair: D73.
func xLateVerdict(c *rig.Ctx, r *rand.Rand, pre string) {
	w := rig.NewWorld(c.Tag())
	defer w.Close()
	k := 1 + r.Intn(3)
	long := 30 * time.Minute
	var trace []string
	fail := func(sig, format string, a ...any) {
		c.Violate(pre+"/"+sig, "%s\n history (last is the failing step):\n   %s", fmt.Sprintf(format, a...), strings.Join(trace, "\n   "))
		c.Witness(map[string]any{"history": trace})
	}
	e := w.AddEntity(model.EntityTypeTypeCEM, []uint{1}, 4*time.Second)
	f := e.GetOrAddFeature(model.FeatureTypeTypeLoadControl, model.RoleTypeServer).(*spine.FeatureLocal)
	f.AddFunctionType(c12Fn, true, true)
	var items []model.LoadControlLimitDataType
	for i := 1; i <= c12Elems; i++ {
		items = append(items, model.LoadControlLimitDataType{LimitId: util.Ptr(model.LoadControlLimitIdType(i)), IsLimitChangeable: util.Ptr(true),
			Value: &model.ScaledNumberType{Number: util.Ptr(model.NumberType(i))}})
	}
	f.SetData(c12Fn, &model.LoadControlLimitListDataType{LoadControlLimitData: items})
	f.SetWriteApprovalTimeout(long)
	type ckey struct {
		cb int
		rd api.DeviceRemoteInterface
		mc model.MsgCounterType
	}
	var mu sync.Mutex
	captured := map[ckey]*api.Message{}
	for cb := 0; cb < k; cb++ {
		cb := cb
		_ = f.AddWriteApprovalCallback(func(m *api.Message) {
			if m == nil || m.DeviceRemote == nil || m.RequestHeader == nil || m.RequestHeader.MsgCounter == nil {
				return
			}
			mu.Lock()
			if kk := (ckey{cb, m.DeviceRemote, *m.RequestHeader.MsgCounter}); captured[kk] == nil {
				captured[kk] = m
			}
			mu.Unlock()
		})
	}
	msgOf := func(cb int, rd api.DeviceRemoteInterface, mc model.MsgCounterType) *api.Message {
		mu.Lock()
		defer mu.Unlock()
		return captured[ckey{cb, rd, mc}]
	}
	value := func(elem int) int64 {
		d, _ := f.DataCopy(c12Fn).(*model.LoadControlLimitListDataType)
		if d == nil {
			return -1
		}
		for _, it := range d.LoadControlLimitData {
			if it.LimitId != nil && int(*it.LimitId) == elem && it.Value != nil && it.Value.Number != nil {
				return int64(*it.Value.Number)
			}
		}
		return -1
	}
	tree := []rig.FS{rig.NMFS, {Ent: []uint{1}, Id: 1, Typ: model.FeatureTypeTypeLoadControl, Role: model.RoleTypeClient}}
	X := w.AddPeer(0)
	const ctr0 = 7000
	sameElem := r.Intn(2) == 0
	oldElem, newElem := 1, 2
	if sameElem {
		newElem = 1
	}
	oldAck, newAck := r.Intn(2) == 0, r.Intn(2) == 0
	oldVerdict := []string{"approve", "approve", "deny"}[r.Intn(3)]
	newVerdict := []string{"approve", "approve", "deny"}[r.Intn(3)]
	parked := k >= 2 && r.Intn(3) == 0
	c.Shape(fmt.Sprintf("%s k=%d same-element=%v old-verdict=%s new-verdict=%s acks=%v/%v parked-approval=%v", pre, k, sameElem, oldVerdict, newVerdict, oldAck, newAck, parked))
	connect := func(what string, elem int, val int64, ack bool) (model.MsgCounterType, bool) {
		X.Ctr = ctr0
		X.Announce(tree)
		mc := X.Bind(rig.FA(X.Addr, []uint{1}, 1), f.Address(), model.FeatureTypeTypeLoadControl)
		if res := rig.Classify(X.Tap.Take(), mc); res.Success != 1 || res.Errors != 0 {
			fail(what+"-binding-not-granted", "%s binds [1]/1 -> the server feature: %s", X.Addr, res)
			return 0, false
		}
		wmc := X.Send(model.CmdClassifierTypeWrite, rig.FA(X.Addr, []uint{1}, 1), f.Address(), ack, nil, c12WriteCmd(elem, val))
		trace = append(trace, fmt.Sprintf("%s (%s): announces, binds, writes element %d := %d with counter %d (ack=%v): presented to %d callbacks", X.Addr, what, elem, val, wmc, ack, k))
		return wmc, true
	}
	waitCaptured := func(rd api.DeviceRemoteInterface, mc model.MsgCounterType) bool {
		return rig.WaitFor(10*time.Second, func() bool {
			for cb := 0; cb < k; cb++ {
				if msgOf(cb, rd, mc) == nil {
					return false
				}
			}
			return true
		})
	}
	deliver := func(msg *api.Message, et model.ErrorType) bool {
		okA, p := rig.Guard(30*time.Second, func() { f.ApproveOrDenyWrite(msg, et) })
		if p != "" {
			fail("verdict-panic", "%s", p)
		} else if !okA {
			c.Inconclusive("ApproveOrDenyWrite did not return within 30s")
		}
		return okA && p == ""
	}
	approve := model.ErrorType{ErrorNumber: 0}
	deny := model.ErrorType{ErrorNumber: 7, Description: util.Ptr(model.DescriptionType("denied by the application"))}

	baseline := runtime.NumGoroutine()
	const vOld, vNew = 111, 222
	oldMc, ok := connect("first connection", oldElem, vOld, oldAck)
	if !ok {
		return
	}
	oldRD, oldTap := X.RD, X.Tap
	if !waitCaptured(oldRD, oldMc) {
		c.Inconclusive("approval callbacks were not invoked within 10s")
		return
	}
	origOld, origNew := value(oldElem), value(newElem)
	if parked {
		// one approval of the old write is inside ApproveOrDenyWrite (past its lookup of the pending entry) while the
		// connection is removed, and continues afterwards: it must not leave anything behind that counts for a later write
		h := rig.InstallHooks()
		h.SetMaxWait(30 * time.Second)
		release := h.Gate("ApproveOrDenyWrite.afterLookup")
		done := make(chan bool, 1)
		cb0 := r.Intn(k)
		go func() { done <- deliver(msgOf(cb0, oldRD, oldMc), approve) }()
		forced := rig.WaitFor(10*time.Second, func() bool { return h.GateWaiting("ApproveOrDenyWrite.afterLookup") >= 1 })
		w.Local.RemoveRemoteDeviceConnection(X.Ski)
		release()
		select {
		case okD := <-done:
			if !okD {
				h.Uninstall()
				return
			}
		case <-time.After(40 * time.Second):
			h.Uninstall()
			c.Inconclusive("the approval parked across the removal did not return within 40s")
			return
		}
		h.Uninstall()
		if forced {
			c.Count("late-verdict:approval-parked-across-the-removal", 1)
		} else {
			c.Count("late-verdict:approval-not-parked(window-not-forced)", 1)
		}
		trace = append(trace, fmt.Sprintf("callback %d approves the first connection's write %d; the call is parked after its lookup (forced=%v), the connection of %s is removed, the call continues and returns", cb0, oldMc, forced, X.Addr))
	} else {
		w.Local.RemoveRemoteDeviceConnection(X.Ski)
		trace = append(trace, "connection of "+X.Addr+" removed while its write is pending approval")
	}
	oldTap.Take()
	X.Tap = &rig.Tap{}
	w.Local.SetupRemoteDevice(X.Ski, X.Tap)
	X.RD = w.Local.RemoteDeviceForSki(X.Ski)
	newMc, ok := connect("second connection, same SKI", newElem, vNew, newAck)
	if !ok {
		return
	}
	if newMc != oldMc {
		c.Inconclusive("harness: the second connection did not reproduce the counter of the first")
		return
	}
	if !waitCaptured(X.RD, newMc) {
		if rig.WaitQuiet(baseline, 10*time.Second) {
			fail("callback-not-invoked", "the write of the second connection was not presented to all %d callbacks", k)
		} else {
			c.Inconclusive("approval callbacks were not invoked within 10s")
		}
		return
	}
	X.Tap.Take()

	// ---- late verdicts for the OLD message
	order := r.Perm(k)
	for n, cb := range order {
		et := approve
		if oldVerdict == "deny" && n == len(order)-1 {
			et = deny
		}
		if !deliver(msgOf(cb, oldRD, oldMc), et) {
			return
		}
		trace = append(trace, fmt.Sprintf("callback %d answers the message of the FIRST connection's write %d (errorNumber %d)", cb, oldMc, et.ErrorNumber))
		c.Events(3)
		if outs := oldTap.Take(); len(outs) > 0 {
			fail("datagram-to-removed-connection", "a verdict for a write of the removed connection made the stack write to that connection: %s", rig.JS(outs))
			return
		}
		if res := rig.Classify(X.Tap.Peek(), newMc); len(res.All) > 0 {
			fail("old-message-decides-the-new-write", "the write of the second connection (counter %d) got a result although no verdict for it was given: %s", newMc, res)
			return
		}
		if vo, vn := value(oldElem), value(newElem); vo != origOld || vn != origNew {
			fail("old-message-applied", "data changed by a verdict for a write of the removed connection: element %d = %d (was %d), element %d = %d (was %d)", oldElem, vo, origOld, newElem, vn, origNew)
			return
		}
	}
	if pm, _ := f.VerifApprovalState(); pm[X.Ski] != 1 {
		c.Events(1)
		fail("new-write-no-longer-pending", "after verdicts for the old message the stack holds %d pending approvals for %s (the new write has had no verdict)", pm[X.Ski], X.Ski)
		return
	}

	// ---- verdicts for the NEW message
	order = r.Perm(k)
	for n, cb := range order {
		et := approve
		last := n == len(order)-1
		if newVerdict == "deny" && last {
			et = deny
		}
		if !deliver(msgOf(cb, X.RD, newMc), et) {
			return
		}
		trace = append(trace, fmt.Sprintf("callback %d answers the message of the SECOND connection's write %d (errorNumber %d)", cb, newMc, et.ErrorNumber))
		res := rig.Classify(X.Tap.Peek(), newMc)
		c.Events(2)
		switch {
		case !last:
			if len(res.All) > 0 || value(newElem) != origNew {
				fail("decided-before-unanimous", "after %d of %d approvals: %s, element %d = %d", n+1, k, res, newElem, value(newElem))
				return
			}
		case newVerdict == "approve":
			wantOK := 0
			if newAck {
				wantOK = 1
			}
			if value(newElem) != vNew || res.Success != wantOK || res.Errors != 0 {
				fail("approved-new-write-without-its-outcome", "all %d callbacks approved write %d of the second connection: %s (want ok=%d), element %d = %d (want %d)", k, newMc, res, wantOK, newElem, value(newElem), vNew)
				return
			}
		default:
			if value(newElem) != origNew || res.Errors != 1 || res.Success != 0 {
				fail("denied-new-write-without-its-outcome", "write %d of the second connection was denied: %s (want one error), element %d = %d (want %d)", newMc, res, newElem, value(newElem), origNew)
				return
			}
		}
	}
	if outs := oldTap.Take(); len(outs) > 0 {
		fail("datagram-to-removed-connection", "written to the removed connection: %s", rig.JS(outs))
		return
	}
	if !sameElem && value(oldElem) != origOld {
		fail("old-message-applied", "element %d = %d (was %d): the write of the removed connection was applied", oldElem, value(oldElem), origOld)
		return
	}
	c.NonTrivial(true)
	c.Count("late-verdict:histories-judged", 1)
	rig.WaitQuiet(baseline, 10*time.Second)
}
