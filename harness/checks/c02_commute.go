package checks

import (
	"fmt"
	"reflect"
	"sort"
	"strings"
	"sync"
	"time"

	"github.com/enbility/spine-go/model"

	"verifharness/rig"
)

// C02, part "commute": the fold must also hold when updates of one function are applied at the same time.
// Goroutines own DISJOINT identifiers and apply partial updates (merge by identifier) for them through the
// local API, the remote-feature API and — for the local store — real write datagrams of a bound peer, all on
// the same function of the same feature. Updates of different identifiers commute, so the fold of the
// sequence is the same for every order: the final list must hold, for every identifier, exactly the overlay
// of that owner's updates in the owner's program order, ordered by numeric identifier. A lost update (two
// overlapping read-modify-write cycles on the stored list) leaves an identifier missing or stale.

func init() {
	ck := rig.Lookup("C02")
	if ck == nil {
		panic("c02_commute.go must be initialised after c02.go")
	}
	cases := func(q, t int) func(rig.Tier) int {
		return func(tier rig.Tier) int {
			if tier == rig.Thorough {
				return t
			}
			return q
		}
	}
	ck.Parts = append(ck.Parts,
		rig.Part{Name: "commute", Cases: cases(240, 4000), Run: c02Commute, Procs: 4},
		rig.Part{Name: "commute-race", Race: true, Cases: cases(48, 600), Run: c02Commute, Procs: 4},
	)
	ck.Rule += " Part commute: 3-4 goroutines apply 6-10 partial updates each for disjoint identifiers of one function at the same time (local API, remote-feature API, write datagrams of a bound peer); " +
		"a fifth of the API and datagram updates are confined to an owned identifier by a selector (partial+selector) and a fifth delete an owned identifier (delete+selector); for the remote store one goroutine is the peer itself sending notify and reply datagrams; " +
		"the final list must equal the per-identifier overlay of each owner's updates in program order (non-trivial: every goroutine completed at least 3 updates and at least two call intervals overlapped)."
	ck.Assumptions = append(ck.Assumptions, "part commute: updates of different identifiers commute, so the expected final list does not depend on the schedule; only list types whose keys are all numeric are used there")
}

func c02Commute(c *rig.Ctx) {
	r := c.Rand
	var cand []*rig.ListInfo
	for i, li := range rig.DiscoverLists() {
		if li.AllUint && li.FeatureType != model.FeatureTypeTypeNodeManagement {
			cand = append(cand, &rig.DiscoverLists()[i])
		}
	}
	li := cand[c.Index%len(cand)]
	store := []string{"local", "remote"}[(c.Index/len(cand))%2]
	lw, err := newListWorld(c.Tag(), li, featureTypeOf(li.Fn), true)
	if err != nil {
		c.Inconclusive("world: %v", err)
		return
	}
	defer lw.close()

	workers := 3 + r.Intn(2)
	const perWorker = 2 // identifiers owned by one goroutine
	type step struct {
		id int
		u  rig.Update
	}
	plans := make([][]step, workers)
	// start from a list that already holds every identifier (remote writes cannot add identifiers)
	var start []reflect.Value
	for w := 0; w < workers; w++ {
		for k := 0; k < perWorker; k++ {
			start = append(start, li.NewItem(r, w*perWorker+k))
		}
	}
	sort.SliceStable(start, func(a, b int) bool { ka, _ := li.KeyOf(start[a]); kb, _ := li.KeyOf(start[b]); return ka < kb })
	if store == "local" {
		lw.local.SetData(li.Fn, li.MkList(rig.CloneItems(start)))
	} else {
		if _, e := lw.remote.UpdateData(true, li.Fn, li.MkList(rig.CloneItems(start)), nil, nil); e != nil {
			c.Inconclusive("start: %s", e.String())
			return
		}
	}
	// per worker: path (the peer can only be one goroutine: it is one connection)
	paths := make([]string, workers)
	for w := range paths {
		paths[w] = "api"
	}
	if store == "local" && lw.bound && li.WriteCheck < 0 {
		// lists whose elements carry a changeability flag are left to the API paths: whether a remote write is
		// accepted there is C04's subject
		paths[0] = "write"
	}
	if store == "remote" {
		// the peer itself reports changes of its data: reply and notify datagrams to the local client feature
		paths[0] = "datagram"
	}
	for w := range plans {
		n := 6 + r.Intn(5)
		for s := 0; s < n; s++ {
			id := w*perWorker + r.Intn(perWorker)
			u := rig.Update{Kind: "partial", SelKey: -1, DelSel: -1, Items: []reflect.Value{li.NewItem(r, id)}}
			// updates confined to an OWNED identifier by a selector commute with the other owners' updates as well; a
			// remote write may not name an identifier the list does not hold, so the writer never deletes
			if paths[w] != "write" && li.SelCoversKeys {
				switch r.Intn(5) {
				case 0:
					u = rig.Update{Kind: "partial-sel", SelKey: id, DelSel: -1, Items: []reflect.Value{li.NewItem(r, -1)}}
				case 1:
					u = rig.Update{Kind: "delete-sel", SelKey: -1, DelSel: id}
				}
			}
			plans[w] = append(plans[w], step{id, u})
			c.Count("commute:"+paths[w]+":"+u.Kind, 1)
		}
	}
	type span struct{ call, ret int64 }
	spans := make([][]span, workers)
	errs := make([]string, workers)
	var wg sync.WaitGroup
	startc := make(chan struct{})
	for w := 0; w < workers; w++ {
		wg.Add(1)
		go func(w int) {
			defer wg.Done()
			<-startc
			for _, st := range plans[w] {
				u := st.u
				fp, fd, _ := li.Filters(u)
				sp := span{call: rig.Seq()}
				switch {
				case paths[w] == "write":
					b, _, mc, e := lw.wire(u, model.CmdClassifierTypeWrite, lw.peerCli, lw.local.Address(), true)
					if e != nil {
						errs[w] = e.Error()
						return
					}
					lw.p.Raw(b)
					_ = mc
				case paths[w] == "datagram":
					cl := model.CmdClassifierTypeNotify
					if len(spans[w])%2 == 1 {
						cl = model.CmdClassifierTypeReply
					}
					b, _, _, e := lw.wire(u, cl, lw.remoteAddr, lw.localCli.Address(), false)
					if e != nil {
						errs[w] = e.Error()
						return
					}
					if rec := lw.p.Raw(b); rec != "" {
						errs[w] = "panic: " + rec
					}
				case store == "local":
					if e := lw.local.UpdateData(li.Fn, li.MkList(rig.CloneItems(u.Items)), fp, fd); e != nil {
						errs[w] = e.String()
					}
				default:
					if _, e := lw.remote.UpdateData(true, li.Fn, li.MkList(rig.CloneItems(u.Items)), fp, fd); e != nil {
						errs[w] = e.String()
					}
				}
				sp.ret = rig.Seq()
				spans[w] = append(spans[w], sp)
			}
		}(w)
	}
	done := make(chan struct{})
	go func() { wg.Wait(); close(done) }()
	close(startc)
	select {
	case <-done:
	case <-time.After(10 * time.Minute): // a wedge: stay quiet so that the parent takes the goroutine dump
		<-done
	}
	for w, e := range errs {
		if e != "" {
			c.Violate("commute/update-failed", "%s (%s store): an update of goroutine %d for its own identifiers failed: %s", li.Fn, store, w, e)
		}
	}
	// expectation: overlay of every owner's updates in program order
	want := rig.CloneItems(start)
	for w := range plans {
		for _, st := range plans[w] {
			want = li.RefApply(want, st.u)
		}
	}
	var got []reflect.Value
	if store == "local" {
		got = li.Items(lw.local.DataCopy(li.Fn))
	} else {
		got = li.Items(lw.remote.DataCopy(li.Fn))
	}
	c.Events(int64(len(got)))
	overlaps := 0
	for a := 0; a < workers; a++ {
		for b := a + 1; b < workers; b++ {
			for _, x := range spans[a] {
				for _, y := range spans[b] {
					if x.call < y.ret && y.call < x.ret {
						overlaps++
					}
				}
			}
		}
	}
	c.Count("commute:overlapping-call-pairs", int64(overlaps))
	c.Count("commute:updates", int64(func() int {
		n := 0
		for _, p := range plans {
			n += len(p)
		}
		return n
	}()))
	if rig.Multiset(got) != rig.Multiset(want) {
		var hist []string
		for w := range plans {
			for _, st := range plans[w] {
				hist = append(hist, fmt.Sprintf("g%d(%s) id=%d %s", w, paths[w], st.id, st.u))
			}
		}
		c.Violate("commute/final-differs-from-fold", "%s (%s store): %d goroutines applied partial updates for disjoint identifiers at the same time (%d overlapping call pairs); the final list is not the fold\n got:  %s\n want: %s\n updates (program order per goroutine):\n   %s",
			li.Fn, store, workers, overlaps, renderItems(got), renderItems(want), strings.Join(hist, "\n   "))
		c.Witness(map[string]any{"function": li.Fn, "store": store, "updates": hist})
	} else {
		if d := duplicateId(li, got); d != "" {
			c.Violate("commute/duplicate-identifier", "%s (%s store): %s in %s", li.Fn, store, d, renderItems(got))
		}
		if !orderedByNumericId(li, got) {
			c.Violate("commute/not-ordered", "%s (%s store): %s", li.Fn, store, renderItems(got))
		}
	}
	minSteps := 1 << 30
	for _, s := range spans {
		if len(s) < minSteps {
			minSteps = len(s)
		}
	}
	c.Shape(fmt.Sprintf("commute/%s/%s/w%d", li.Fn, store, workers))
	c.NonTrivial(minSteps >= 3 && overlaps >= 1)
	c.Seen("commute_functions", string(li.Fn))
	c.Sample(map[string]any{"function": li.Fn, "store": store, "goroutines": workers, "paths": paths, "overlapping_call_pairs": overlaps, "final_items": len(got)})
}
