package checks

import (
	"fmt"

	"github.com/enbility/spine-go/api"
	"github.com/enbility/spine-go/model"
	"github.com/enbility/spine-go/util"

	"verifharness/rig"
)

// C14 helpers: where the counters of a history come from, and how a callback value comes about.
//
// Counter provenance. The counters callbacks are registered for are what a request returns. Every connection has its
// own Sender (its own numbering), the peers are set up identically, so the n-th message to peer0 and the n-th message to
// peer1 carry the SAME counter. Each counter of a history is therefore obtained in a drawn way:
//   made-up       a number no request returned (registrations for arbitrary counters, as in the repository's unit tests)
//   both          local feature X reads from peer0 and from peer1 (drawn order): both requests return counter n
//   two-features  X reads from one peer, another local feature Y from the other one: n on both connections
//   one-peer      X reads from one peer only (the device sends some other message to the other peer, which keeps the
//                 numbering of the two connections aligned)
// The statement keys a registration by local feature and counter: whichever request(s) returned the counter, the first
// accepted reply / result referencing it that arrives at the feature serves the registrations, with the data and the
// remote feature of THAT message. The oracle is unchanged; the provenance is a workload dimension and is counted.

type c14Prov struct {
	kind string
	// requests that returned this counter: local feature index -> peers asked, in order
	asked map[int][]int
}

// c14ReqTarget: what local feature x reads, and from which feature of the peer
func c14ReqTarget(x int) (model.FunctionType, uint) {
	switch x {
	case 1:
		return model.FunctionTypeElectricalConnectionDescriptionListData, 2
	case 2:
		return model.FunctionTypeMeasurementListData, 3
	}
	return model.FunctionTypeMeasurementListData, 1
}

// request lets local feature x read from peer pi through the public API and returns the counter of the request.
//
// The Sender hands the counter of a still unanswered identical read (same destination, same cmd) out again instead of
// sending a new one, so the reads of one history differ: the first read of a function is unrestricted, a later one
// carries a selector for id sel.
func (cw *c14World) request(x, pi, sel int) (model.MsgCounterType, bool) {
	p := cw.w.Peers[pi]
	fn, src := c14ReqTarget(x)
	rf := p.RD.FeatureByAddress(rig.FA(p.Addr, []uint{1}, src))
	if rf == nil {
		return 0, false
	}
	var selector any
	if sel > 0 {
		if fn == model.FunctionTypeMeasurementListData {
			selector = &model.MeasurementListDataSelectorsType{MeasurementId: util.Ptr(model.MeasurementIdType(sel))}
		} else {
			selector = &model.ElectricalConnectionDescriptionListDataSelectorsType{ElectricalConnectionId: util.Ptr(model.ElectricalConnectionIdType(sel))}
		}
	}
	ctr, err := cw.feats[x].RequestRemoteData(fn, selector, nil, rf)
	p.Tap.Take()
	if err != nil || ctr == nil {
		cw.logf("%s.RequestRemoteData(%s) to peer%d failed: %v", cw.names[x], fn, pi, err)
		return 0, false
	}
	cw.logf("%s.RequestRemoteData(%s, selector id %d) to peer%d [1]/%d -> counter %d", cw.names[x], fn, sel, pi, src, *ctr)
	return *ctr, true
}

// otherMessage: the device sends a message that is no request of any feature to peer pi (a node management notify)
func (cw *c14World) otherMessage(pi int) (model.MsgCounterType, bool) {
	p := cw.w.Peers[pi]
	ctr, err := p.RD.Sender().Notify(rig.LNM, p.NM(), model.CmdType{NodeManagementUseCaseData: &model.NodeManagementUseCaseDataType{}})
	p.Tap.Take()
	if err != nil || ctr == nil {
		return 0, false
	}
	return *ctr, true
}

// obtainCounters returns n distinct counters of drawn provenance (called at the quiet start of a history).
func (cw *c14World) obtainCounters(n int) []model.MsgCounterType {
	r := cw.c.Rand
	cw.prov = map[model.MsgCounterType]*c14Prov{}
	madeUp := func(i int) model.MsgCounterType { return model.MsgCounterType(30 + i) }
	// align the numbering of the two connections (identical set-up: they are aligned already)
	c0, ok0 := cw.otherMessage(0)
	c1, ok1 := cw.otherMessage(1)
	for i := 0; ok0 && ok1 && c0 != c1 && i < 64; i++ {
		if c0 < c1 {
			c0, ok0 = cw.otherMessage(0)
		} else {
			c1, ok1 = cw.otherMessage(1)
		}
	}
	aligned := ok0 && ok1 && c0 == c1
	if !aligned {
		cw.c.Count("counter-provenance:connections-could-not-be-aligned", 1)
	}
	var ctrs []model.MsgCounterType
	used := map[model.MsgCounterType]bool{}
	for i := 0; i < n; i++ {
		kind := []string{"made-up", "both", "both", "both", "two-features", "one-peer"}[r.Intn(6)]
		x := []int{0, 0, 1, 1, 2}[r.Intn(5)]
		first := r.Intn(2)
		if !aligned {
			kind = "made-up"
		}
		pv := &c14Prov{kind: kind, asked: map[int][]int{}}
		var ctr model.MsgCounterType
		switch kind {
		case "made-up":
			ctr = madeUp(i)
		default:
			var n1, n2 model.MsgCounterType
			var okA, okB bool
			n1, okA = cw.request(x, first, i)
			pv.asked[x] = append(pv.asked[x], first)
			switch kind {
			case "both":
				n2, okB = cw.request(x, 1-first, i)
				pv.asked[x] = append(pv.asked[x], 1-first)
			case "two-features":
				y := (x + 1 + r.Intn(2)) % 3
				n2, okB = cw.request(y, 1-first, i)
				pv.asked[y] = append(pv.asked[y], 1-first)
			default:
				n2, okB = cw.otherMessage(1 - first)
			}
			if !okA || !okB || n1 != n2 || n1 >= 30 || used[n1] {
				// not what the workload wants (never seen): fall back, the numbering may be out of step from here on
				cw.c.Count("counter-provenance:request-did-not-return-the-expected-counter", 1)
				cw.logf("requests returned %d (ok=%v) and %d (ok=%v): falling back to made-up counters", n1, okA, n2, okB)
				aligned = false
				pv = &c14Prov{kind: "made-up", asked: map[int][]int{}}
				ctr = madeUp(i)
			} else {
				ctr = n1
			}
		}
		used[ctr] = true
		cw.prov[ctr] = pv
		ctrs = append(ctrs, ctr)
		cw.c.Count("counter-provenance:"+pv.kind, 1)
		cw.shape = append(cw.shape, "ctr-"+pv.kind)
		cw.logf("counter %d: %s", ctr, pv.kind)
	}
	cw.baseline = c14Settle()
	return ctrs
}

// noteServed counts, for an arrival that serves pending registrations of a requested counter, how the answering peer
// relates to the requests of the feature the message arrives at.
func (cw *c14World) noteServed(feat int, ctr model.MsgCounterType, peer int) {
	pv := cw.prov[ctr]
	if pv == nil || pv.kind == "made-up" {
		return
	}
	asked := pv.asked[feat]
	rel := "a-peer-this-feature-did-not-ask"
	switch {
	case len(asked) == 0:
		rel = "a-feature-that-did-not-request-it"
	case len(asked) == 2 && asked[0] == peer:
		rel = "the-peer-asked-FIRST-of-two-with-the-same-counter"
	case len(asked) == 2 && asked[1] == peer:
		rel = "the-peer-asked-LAST-of-two-with-the-same-counter"
	case asked[0] == peer:
		rel = "the-only-peer-asked"
	}
	cw.c.Count("callbacks-served-for-a-requested-counter("+pv.kind+"):message-from/at:"+rel, 1)
	cw.c.Seen("requested_counter_classes", fmt.Sprintf("%s/%s/%s", pv.kind, cw.names[feat], rel))
}

// Callback values. "The same callback" handed in twice is not always the same func VALUE: a method value (h.on0) is
// evaluated anew at every call site, a capturing closure is built anew by the code that registers it. c14H is a handler
// object whose methods are registered as method values; fn(i) evaluates the method value expression anew at every call.
type c14H struct {
	l   *c14Log
	reg int
}

func (h *c14H) on0(m api.ResponseMessage) { h.l.rec(h.reg, 0, m) }
func (h *c14H) on1(m api.ResponseMessage) { h.l.rec(h.reg, 1, m) }
func (h *c14H) on2(m api.ResponseMessage) { h.l.rec(h.reg, 2, m) }
func (h *c14H) on3(m api.ResponseMessage) { h.l.rec(h.reg, 3, m) }

func (h *c14H) fn(i int) func(api.ResponseMessage) {
	switch i {
	case 0:
		return h.on0
	case 1:
		return h.on1
	case 2:
		return h.on2
	}
	return h.on3
}
