package checks

import (
	"fmt"
	"reflect"
	"runtime"
	"sort"
	"strings"
	"sync"
	"time"

	"github.com/enbility/spine-go/api"
	"github.com/enbility/spine-go/model"
	"github.com/enbility/spine-go/spine"

	"verifharness/rig"
)

// C10 — teardown of one peer or entity never leaks into another.
//
// One case = one World with three peers that announce the SAME tree ([1], [1,1], [2], each with client
// features 1..6 and server features 7, 8). A seeded history lets every peer subscribe and bind to the six
// local server features from random entities and lets two local client features SubscribeToRemote /
// BindToRemote to the peers' server features. At a random point of that history 0-2 writes per peer are
// left pending approval (silent approval callbacks, approval timeout 50 ms) and then one peer is torn
// down: connection dropped, or entity [1] / [1,1] announced as removed; in a third of the cases while
// another peer's messages are processed on a second goroutine (jitter at RemoveRemoteDevice.beforeCleanup).
// In half of the cases the application then gives late verdicts: an approval for every write whose
// device/entity is gone (must have no effect, no datagram) and for one surviving write, preferably of
// another entity of the same peer (must still be carried out). The rest of the history is then played
// for what survived, every surviving peer is probed (read, new subscription, authorised write), and the
// taps are observed until 5 x the approval timeout after the teardown returned. Reference registries
// decide what must be gone and what must still be there; see c10Case for the individual oracles.
//
// expiry / expiry-race (c10Expiry): two peers, approval timeout 200 us - 2 ms, the teardown is aimed at
// the moment the victim's timers expire (optionally held at the hook inside RemoveRemoteDevice), so the
// race between a firing timer and the cleanup is exercised deliberately.

const c10Timeout = 50 * time.Millisecond
const c10Horizon = 5 * c10Timeout

var c10SrvTypes = []model.FeatureTypeType{model.FeatureTypeTypeLoadControl, model.FeatureTypeTypeDeviceConfiguration, model.FeatureTypeTypeTimeSeries, // writes need approval
	model.FeatureTypeTypeSetpoint, model.FeatureTypeTypeHvac, model.FeatureTypeTypeIncentiveTable} // writes are applied at once
var c10CliTypes = []model.FeatureTypeType{model.FeatureTypeTypeMeasurement, model.FeatureTypeTypeElectricalConnection}
var c10Ents = [][]uint{{1}, {1, 1}, {2}}

func init() {
	rule := "case = 3 identically numbered peers; seeded history of subscribe/bind calls of the peers (about 5 subscriptions per peer over 3 entities x 6 local server features, every server feature bound by one random peer/entity) and " +
		"SubscribeToRemote/BindToRemote of 2 local client features, cut at a random point; 0-2 writes per peer pending approval at the cut (timeout 50 ms, callbacks silent, one feature with a second approving callback); " +
		"teardown = disconnect | remove [1] | remove [1,1] of a random peer (preferring one with pending writes), one third with another peer's reads/subscribes/binds processed concurrently; then the rest of the history and a service probe per surviving peer. " +
		"A case is non-trivial if the torn-down device/entity held at least one registry entry and one bookkeeping flag, and another peer held an entry with the same entity and feature numbers. " +
		"distinct = distinct (teardown kind, concurrent, #entries removed, #flags removed, #pending writes of the removed peer, #pending writes of others). " +
		"expiry parts: case = 2 identically numbered peers, each bound to one approval feature, 1-3 writes of the victim and 0-2 of the other peer pending under a very short approval timeout (200 us - 2 ms); the disconnect (half of them held at the hook " +
		"RemoveRemoteDevice.beforeCleanup) or the entity-removal notification is aimed at the expiry of those timers (offset within +-150 us); non-trivial if the expiry of at least one timer of the victim fell between start and return of the teardown call; " +
		"distinct = distinct (kind, timeout, held at hook, #writes, how many of the victim's writes were answered before the teardown returned)."
	assume := []string{
		"absence of datagrams on the removed connection is observed until all pending approval timers of the other peers have fired, the process is back at its baseline goroutine count and at least 5 x the approval timeout (250 ms) has passed since the removal call returned; the verdict is on the tap content (logical sequence numbers), the clock only bounds the observation",
		"pending approvals of surviving peers are judged by their outcome (every such write receives exactly one result, the timeout error), because their timers legitimately fire during the case; state read immediately after the teardown is only judged where timers cannot change the verdict",
		"concurrent messages of the other peer are reads, subscribes, unsubscribes and binds of free features: nothing that fans out to the removed peer, so an in-flight notification racing with the removal is not generated",
		"events are observed at the core level (synchronous)",
	}
	rig.Register(&rig.Check{
		ID:          "C10",
		Floor:       170,
		Rule:        rule,
		Assumptions: assume,
		Parts: []rig.Part{
			{Name: "teardown", Cases: func(t rig.Tier) int { return map[rig.Tier]int{rig.Quick: 300, rig.Thorough: 6000}[t] }, Run: c10Case, Procs: 2, Workers: 32, Quiet: 90 * time.Second},
			{Name: "teardown-race", Race: true, Cases: func(t rig.Tier) int { return map[rig.Tier]int{rig.Quick: 48, rig.Thorough: 600}[t] }, Run: c10Case, Procs: 4, Workers: 16, Quiet: 120 * time.Second},
			{Name: "expiry", Cases: func(t rig.Tier) int { return map[rig.Tier]int{rig.Quick: 600, rig.Thorough: 8000}[t] }, Run: c10Expiry, Procs: 4, Workers: 16, Quiet: 90 * time.Second},
			{Name: "expiry-race", Race: true, Cases: func(t rig.Tier) int { return map[rig.Tier]int{rig.Quick: 160, rig.Thorough: 1600}[t] }, Run: c10Expiry, Procs: 4, Workers: 16, Quiet: 120 * time.Second},
		},
	})
}

type c10Op struct {
	kind string // sub | bind | lsub | lbind
	peer int
	ent  []uint
	srv  int // index of the local server feature (sub, bind)
	lc   int // index of the local client feature (lsub, lbind)
}

func (o c10Op) String() string {
	switch o.kind {
	case "sub", "bind":
		return fmt.Sprintf("peer%d %s %s/%d -> local server %d", o.peer, o.kind, c06Key(o.ent), o.srv+1, o.srv)
	}
	return fmt.Sprintf("local client %d %s -> peer%d %s/%d", o.lc, o.kind, o.peer, c06Key(o.ent), 7+o.lc)
}

type c10Write struct {
	peer, srv int
	ent       []uint
	mc        model.MsgCounterType
}

type c10World struct {
	c     *rig.Ctx
	w     *rig.World
	srv   []api.FeatureLocalInterface
	cli   []api.FeatureLocalInterface
	peers []*rig.Peer
	// reference
	regs  map[string]c10Ent // registry entries that must exist
	flags map[string]c10Ent // bookkeeping flags that must be set; every flag ever set stays in flagUniverse
	univ  map[string]c10Flag
	trace []string
	log   [][]rig.Out // everything taken from the taps, per peer, with its logical sequence number
	hard  bool        // a deviation after which the reference is no longer trustworthy
}

// Two deviations found by this check on earlier trees keep their own narrow signatures (both are repaired
// in /repo now, so both are plain violations if they come back):
//   - a write pending approval survived the announcement that removed its entity (and binding);
//   - an approval timer that had fired while the device was being removed sent its timeout result after
//     RemoveRemoteDeviceConnection had returned. A late result in a case that took longer than the timeout
//     between arming the timers and the end of the removal is attributed to this race, a late result in a
//     faster case (where no timer can have fired yet: timers never fire early) to timers that were never stopped.
const c10SigPendingEntity = "entity-removal/pending-approval-of-removed-entity-survives"
const c10SigInFlight = "disconnect/timeout-result-of-timer-in-flight-at-removal"

// take empties the tap of peer pi into the log and returns the new datagrams.
func (cw *c10World) take(pi int) []model.DatagramType {
	outs := cw.peers[pi].Tap.TakeOut()
	cw.log[pi] = append(cw.log[pi], outs...)
	ds := make([]model.DatagramType, len(outs))
	for i, o := range outs {
		ds[i] = o.D
	}
	return ds
}

// logged returns the datagrams of peer pi logged so far, those with a sequence number above after.
func (cw *c10World) logged(pi int, after int64) []model.DatagramType {
	var ds []model.DatagramType
	for _, o := range cw.log[pi] {
		if o.Seq > after {
			ds = append(ds, o.D)
		}
	}
	return ds
}

type c10Ent struct {
	peer int
	ent  string
	kind string
	srv  int
	fid  uint
}

type c10Flag struct {
	kind   string
	lc     int
	remote *model.FeatureAddressType
	peer   int
	ent    string
}

func (cw *c10World) fail(sig, format string, a ...any) {
	if sig != c10SigPendingEntity {
		cw.hard = true // every other deviation makes the reference untrustworthy for the rest of the case
	}
	cw.c.Violate(sig, "%s\n history (last is the failing step):\n   %s", fmt.Sprintf(format, a...), strings.Join(cw.trace, "\n   "))
	cw.c.Witness(map[string]any{"history": cw.trace})
}

func (cw *c10World) regKey(kind string, peer int, ent []uint, fid uint, srv int) string {
	return fmt.Sprintf("%-4s peer%d client=%s server=%s", kind, peer, rig.FA(cw.peers[peer].Addr, ent, fid).String(), cw.srv[srv].Address().String())
}

// observed registries of all peers (also of a disconnected one: nothing of it may be left), keyed like regKey
func (cw *c10World) readRegs() map[string]int {
	m := map[string]int{}
	for i, p := range cw.peers {
		rd := p.RD
		for _, s := range cw.w.Local.SubscriptionManager().Subscriptions(rd) {
			m[fmt.Sprintf("%-4s peer%d client=%s server=%s", "sub", i, s.ClientFeature.Address().String(), s.ServerFeature.Address().String())]++
		}
		for _, b := range cw.w.Local.BindingManager().Bindings(rd) {
			m[fmt.Sprintf("%-4s peer%d client=%s server=%s", "bind", i, b.ClientFeature.Address().String(), b.ServerFeature.Address().String())]++
		}
	}
	return m
}

func (cw *c10World) flagKey(f c10Flag) string {
	return fmt.Sprintf("%-5s local client %d -> %s", f.kind, f.lc, f.remote.String())
}

func (cw *c10World) readFlag(f c10Flag) bool {
	if f.kind == "lsub" {
		return cw.cli[f.lc].HasSubscriptionToRemote(f.remote)
	}
	return cw.cli[f.lc].HasBindingToRemote(f.remote)
}

// compare compares registries and bookkeeping with the reference. removedPeer/removedEnt describe the
// teardown ("" = whole device) for the classification of a deviation.
func (cw *c10World) compare(when string, removedPeer int, removedEnt string) {
	got := cw.readRegs()
	cw.c.Events(int64(len(got) + len(cw.univ)))
	for k, e := range cw.regs {
		if got[k] != 1 {
			who := "other-peer"
			if e.peer == removedPeer {
				who = "other-entity-of-that-peer"
			}
			cw.fail(fmt.Sprintf("%s/%s-entry-of-%s-lost", when, e.kind, who), "registry entry expected but found %d times: %s", got[k], k)
		}
	}
	for k, n := range got {
		if _, ok := cw.regs[k]; !ok {
			cw.fail(fmt.Sprintf("%s/%s-entry-survives", when, strings.TrimSpace(k[:4])), "registry entry must be gone but is present %d times: %s", n, k)
		}
	}
	for k, f := range cw.univ {
		_, want := cw.flags[k]
		if g := cw.readFlag(f); g != want {
			switch {
			case g:
				cw.fail(fmt.Sprintf("%s/bookkeeping-survives", when), "%s still reported although its device/entity was removed", k)
			case f.peer == removedPeer:
				cw.fail(fmt.Sprintf("%s/bookkeeping-of-other-entity-of-that-peer-lost", when), "%s lost", k)
			default:
				cw.fail(fmt.Sprintf("%s/bookkeeping-of-other-peer-lost", when), "%s lost", k)
			}
		}
	}
}

// exec runs one history operation and checks that it is granted.
func (cw *c10World) exec(o c10Op, phase string) {
	p := cw.peers[o.peer]
	cw.trace = append(cw.trace, o.String())
	switch o.kind {
	case "sub", "bind":
		fid := uint(o.srv + 1)
		ca, sa := rig.FA(p.Addr, o.ent, fid), cw.srv[o.srv].Address()
		cw.take(o.peer)
		var mc model.MsgCounterType
		if o.kind == "sub" {
			mc = p.Subscribe(ca, sa, c10SrvTypes[o.srv])
		} else {
			mc = p.Bind(ca, sa, c10SrvTypes[o.srv])
		}
		res := rig.Classify(cw.take(o.peer), mc)
		cw.c.Events(1)
		if res.Success != 1 || res.Errors != 0 {
			cw.fail(fmt.Sprintf("%s/%s-not-granted", phase, o.kind), "%s: %s", o, res)
			return
		}
		cw.regs[cw.regKey(o.kind, o.peer, o.ent, fid, o.srv)] = c10Ent{peer: o.peer, ent: c06Key(o.ent), kind: o.kind, srv: o.srv, fid: fid}
	default:
		ra := rig.FA(p.Addr, o.ent, uint(7+o.lc))
		var err *model.ErrorType
		if o.kind == "lsub" {
			_, err = cw.cli[o.lc].SubscribeToRemote(ra)
		} else {
			_, err = cw.cli[o.lc].BindToRemote(ra)
		}
		if err != nil {
			cw.fail(fmt.Sprintf("%s/%s-failed", phase, o.kind), "%s: %s", o, err.String())
			return
		}
		f := c10Flag{kind: o.kind, lc: o.lc, remote: ra, peer: o.peer, ent: c06Key(o.ent)}
		cw.univ[cw.flagKey(f)] = f
		cw.flags[cw.flagKey(f)] = c10Ent{peer: o.peer, ent: c06Key(o.ent)}
	}
}

func c10Case(c *rig.Ctx) {
	r := c.Rand
	w := rig.NewWorld(c.Tag())
	defer w.Close()
	cw := &c10World{c: c, w: w, regs: map[string]c10Ent{}, flags: map[string]c10Ent{}, univ: map[string]c10Flag{}}

	// ---- local device
	e := w.AddEntity(model.EntityTypeTypeCEM, []uint{1}, 4*time.Second)
	writeFn := make([]rig.FnInfo, len(c10SrvTypes))
	var approveMu sync.Mutex
	approved := 0
	captured := map[model.MsgCounterType]*api.Message{} // what the silent callbacks were handed (peers use disjoint counters)
	for i, t := range c10SrvTypes {
		f := e.GetOrAddFeature(t, model.RoleTypeServer)
		fns := c06FnsOf(t)
		writeFn[i] = fns[len(fns)-1]
		for _, fn := range fns {
			f.AddFunctionType(fn.Fn, true, true)
		}
		if i < 3 {
			f.SetWriteApprovalTimeout(c10Timeout)
			if i == 1 {
				// a second callback that approves: the write stays pending (approval is not unanimous) and
				// the stack additionally remembers one received approval for it
				ff := f
				_ = f.AddWriteApprovalCallback(func(m *api.Message) {
					ff.ApproveOrDenyWrite(m, model.ErrorType{ErrorNumber: 0})
					approveMu.Lock()
					approved++
					approveMu.Unlock()
				})
			}
			_ = f.AddWriteApprovalCallback(func(m *api.Message) { // stays silent, only remembers what it was asked
				approveMu.Lock()
				if m != nil && m.RequestHeader != nil && m.RequestHeader.MsgCounter != nil {
					captured[*m.RequestHeader.MsgCounter] = m
				}
				approveMu.Unlock()
			})
		}
		cw.srv = append(cw.srv, f)
	}
	for _, t := range c10CliTypes {
		cw.cli = append(cw.cli, e.GetOrAddFeature(t, model.RoleTypeClient))
	}

	// ---- peers with identical trees
	var tree []rig.FS
	tree = append(tree, rig.NMFS)
	for _, ea := range c10Ents {
		for i, t := range c10SrvTypes {
			tree = append(tree, rig.FS{Ent: ea, Id: uint(i + 1), Typ: t, Role: model.RoleTypeClient})
		}
		for i, t := range c10CliTypes {
			tree = append(tree, rig.FS{Ent: ea, Id: uint(7 + i), Typ: t, Role: model.RoleTypeServer})
		}
	}
	for i := 0; i < 3; i++ {
		p := w.AddPeer(i)
		p.Ctr = uint64(i+1) * 100000
		p.Announce(tree)
		p.Tap.Take()
		cw.peers = append(cw.peers, p)
		cw.log = append(cw.log, nil)
	}
	w.Core.Take()
	baseline := runtime.NumGoroutine()

	// ---- history
	var ops []c10Op
	for pi := range cw.peers {
		for _, ea := range c10Ents {
			for s := range cw.srv {
				if r.Intn(10) < 3 {
					ops = append(ops, c10Op{kind: "sub", peer: pi, ent: ea, srv: s})
				}
			}
			for l := range cw.cli {
				if r.Intn(2) == 0 {
					ops = append(ops, c10Op{kind: "lsub", peer: pi, ent: ea, lc: l})
				}
				if r.Intn(2) == 0 {
					ops = append(ops, c10Op{kind: "lbind", peer: pi, ent: ea, lc: l})
				}
			}
		}
	}
	holder := make([]int, len(cw.srv)) // -1 = never bound in the history
	for s := range cw.srv {
		holder[s] = r.Intn(4) - 1
		if r.Intn(10) < 6 {
			holder[s] = s % 3
		}
		if holder[s] >= 0 {
			ops = append(ops, c10Op{kind: "bind", peer: holder[s], ent: c10Ents[r.Intn(len(c10Ents))], srv: s})
		}
	}
	r.Shuffle(len(ops), func(i, j int) { ops[i], ops[j] = ops[j], ops[i] })
	cut := len(ops)/3 + r.Intn(len(ops)-len(ops)/3+1)
	for _, o := range ops[:cut] {
		cw.exec(o, "setup")
	}
	if cw.hard {
		return
	}

	// ---- writes pending approval, sent immediately before the teardown
	boundBy := func(pi int, approvalOnly bool) []c10Ent {
		var bs []c10Ent
		var ks []string
		for k := range cw.regs {
			ks = append(ks, k)
		}
		sort.Strings(ks)
		for _, k := range ks {
			if en := cw.regs[k]; en.kind == "bind" && en.peer == pi && (en.srv < 3) == approvalOnly {
				bs = append(bs, en)
			}
		}
		return bs
	}
	entOf := func(k string) []uint {
		for _, ea := range c10Ents {
			if c06Key(ea) == k {
				return ea
			}
		}
		return nil
	}
	var writes []c10Write
	wantApproved := 0
	tWrites := time.Now() // no approval timer is armed before this moment
	for pi, p := range cw.peers {
		bs := boundBy(pi, true)
		if len(bs) == 0 {
			continue
		}
		for n := r.Intn(3); n > 0; n-- {
			b := bs[r.Intn(len(bs))]
			fn := writeFn[b.srv]
			mc := p.Send(model.CmdClassifierTypeWrite, rig.FA(p.Addr, entOf(b.ent), b.fid), cw.srv[b.srv].Address(), true, nil, rig.CmdFor(fn.Fn, reflect.New(fn.T).Interface()))
			writes = append(writes, c10Write{peer: pi, srv: b.srv, ent: entOf(b.ent), mc: mc})
			cw.trace = append(cw.trace, fmt.Sprintf("peer%d writes %s from %s/%d to local server %d: left pending approval (counter %d)", pi, fn.Fn, b.ent, b.fid, b.srv, mc))
			if b.srv == 1 {
				wantApproved++
			}
		}
	}
	// the approving callback runs on a goroutine of the stack: wait until it has been counted
	if !rig.WaitFor(10*time.Second, func() bool {
		approveMu.Lock()
		defer approveMu.Unlock()
		return approved >= wantApproved && len(captured) >= len(writes)
	}) {
		c.Inconclusive("approval callbacks were not invoked within 10s")
		return
	}
	pendingOf := func(pi int) (pend, recv int) {
		for s := 0; s < 3; s++ {
			pm, rm := cw.srv[s].(*spine.FeatureLocal).VerifApprovalState()
			pend += pm[cw.peers[pi].Ski]
			recv += rm[cw.peers[pi].Ski]
		}
		return
	}
	recvBefore := make([]int, 3)
	nWrites := make([]int, 3)
	for _, wr := range writes {
		nWrites[wr.peer]++
	}
	for pi := range cw.peers {
		_, recvBefore[pi] = pendingOf(pi)
	}

	// ---- choose the teardown
	x := r.Intn(3)
	if r.Intn(3) > 0 { // prefer a peer with pending writes
		var cand []int
		for pi := range cw.peers {
			if nWrites[pi] > 0 {
				cand = append(cand, pi)
			}
		}
		if len(cand) > 0 {
			x = cand[r.Intn(len(cand))]
		}
	}
	X := cw.peers[x]
	kind := []string{"disconnect", "remove[1]", "remove[1,1]"}[r.Intn(3)]
	remEnt := map[string]string{"disconnect": "", "remove[1]": "[1]", "remove[1,1]": "[1,1]"}[kind]
	conc := r.Intn(3) == 0 || c.Race
	hit := func(en c10Ent) bool { return en.peer == x && (remEnt == "" || en.ent == remEnt) }

	// expectations
	wantEv := map[string]int{}
	nRegs, nFlags, nTwins := 0, 0, 0
	for k, en := range cw.regs {
		if hit(en) {
			wantEv[fmt.Sprintf("%s/remove ent=%s feature=%d local=%s", map[string]string{"sub": "Subscription", "bind": "Binding"}[en.kind], en.ent, en.fid, cw.srv[en.srv].Address().String())]++
			delete(cw.regs, k)
			nRegs++
		}
	}
	for _, en := range cw.regs { // same numbers on another peer
		if en.peer != x && (remEnt == "" || en.ent == remEnt) {
			nTwins++
		}
	}
	for k, en := range cw.flags {
		if hit(en) {
			delete(cw.flags, k)
			nFlags++
		}
	}
	if kind == "disconnect" {
		wantEv["Device/remove"] = 1
	} else {
		wantEv["Entity/remove ent="+remEnt] = 1
	}
	var wX, wXent, wOther []c10Write // writes of X, of the removed entity of X, of everybody else
	for _, wr := range writes {
		switch {
		case wr.peer == x && (remEnt == "" || c06Key(wr.ent) == remEnt):
			wXent = append(wXent, wr)
			wX = append(wX, wr)
		case wr.peer == x:
			wX = append(wX, wr)
			wOther = append(wOther, wr)
		default:
			wOther = append(wOther, wr)
		}
	}

	// ---- messages of another peer processed concurrently
	y := (x + 1 + r.Intn(2)) % 3
	Y := cw.peers[y]
	type yop struct {
		desc string
		run  func() (model.MsgCounterType, string) // returns counter and the response class expected
		post func()
	}
	var yops []yop
	if conc {
		for n := 3 + r.Intn(4); n > 0; n-- {
			ea := c10Ents[r.Intn(len(c10Ents))]
			s := r.Intn(len(cw.srv))
			fid := uint(s + 1)
			ca, sa := rig.FA(Y.Addr, ea, fid), cw.srv[s].Address()
			key := cw.regKey("sub", y, ea, fid, s)
			_, have := cw.regs[key]
			switch op := r.Intn(4); {
			case op == 0:
				fn := c06FnsOf(c10SrvTypes[s])[0]
				yops = append(yops, yop{desc: fmt.Sprintf("peer%d reads %s of local server %d", y, fn.Fn, s), run: func() (model.MsgCounterType, string) {
					return Y.Send(model.CmdClassifierTypeRead, ca, sa, false, nil, rig.CmdFor(fn.Fn, reflect.New(fn.T).Interface())), "reply=1 ok=0 err=0"
				}})
			case op == 1 && !have:
				cw.regs[key] = c10Ent{peer: y, ent: c06Key(ea), kind: "sub", srv: s, fid: fid}
				yops = append(yops, yop{desc: fmt.Sprintf("peer%d subscribes %s/%d -> local server %d", y, c06Key(ea), fid, s), run: func() (model.MsgCounterType, string) {
					return Y.Subscribe(ca, sa, c10SrvTypes[s]), "reply=0 ok=1 err=0"
				}})
			case op == 2 && have:
				delete(cw.regs, key)
				yops = append(yops, yop{desc: fmt.Sprintf("peer%d unsubscribes %s/%d from local server %d", y, c06Key(ea), fid, s), run: func() (model.MsgCounterType, string) {
					return Y.Unsubscribe(ca, sa), "reply=0 ok=1 err=0"
				}})
			case op == 3:
				// bind a server feature nobody holds and nobody is going to bind later
				free := true
				for _, en := range cw.regs {
					if en.kind == "bind" && en.srv == s {
						free = false
					}
				}
				for _, o := range ops[cut:] {
					if o.kind == "bind" && o.srv == s {
						free = false
					}
				}
				if free && holder[s] != x {
					cw.regs[cw.regKey("bind", y, ea, fid, s)] = c10Ent{peer: y, ent: c06Key(ea), kind: "bind", srv: s, fid: fid}
					yops = append(yops, yop{desc: fmt.Sprintf("peer%d binds %s/%d -> local server %d", y, c06Key(ea), fid, s), run: func() (model.MsgCounterType, string) {
						return Y.Bind(ca, sa, c10SrvTypes[s]), "reply=0 ok=1 err=0"
					}})
				}
			}
		}
	}

	// ---- teardown
	cw.trace = append(cw.trace, fmt.Sprintf("TEARDOWN peer%d %s (concurrent messages of peer%d: %d)", x, kind, y, len(yops)))
	for pi := range cw.peers {
		cw.take(pi) // results of the setup; the pending writes have not been answered unless their timer fired already
	}
	w.Core.Take()
	var hooks *rig.Hooks
	if conc {
		hooks = rig.InstallHooks()
		hooks.Jitter("RemoveRemoteDevice.beforeCleanup", r.Int63(), 2*time.Millisecond)
	}
	var yres []string
	var ywg sync.WaitGroup
	if len(yops) > 0 {
		ywg.Add(1)
		go func() {
			defer ywg.Done()
			for _, o := range yops {
				mc, want := o.run()
				yres = append(yres, fmt.Sprintf("%s|%d|%s", o.desc, mc, want))
			}
		}()
	}
	var seqReturn int64
	var tReturn time.Time
	okT, panicked := rig.Guard(30*time.Second, func() {
		if kind == "disconnect" {
			w.Local.RemoveRemoteDeviceConnection(X.Ski)
		} else {
			X.NotifyDiscovery(true, X.Discovery(nil, nil, [][]uint{entOf(remEnt)}))
		}
		seqReturn = rig.Seq()
		tReturn = time.Now()
	})
	if panicked != "" {
		cw.fail(kind+"/panic", "%s", panicked)
		return
	}
	if !okT {
		c.Inconclusive("teardown did not return within 30s")
		return
	}
	if !waitWG(&ywg, 30*time.Second) {
		c.Inconclusive("concurrent messages of peer%d did not return within 30s", y)
		return
	}
	if hooks != nil {
		if hooks.Hits("RemoveRemoteDevice.beforeCleanup") > 0 {
			c.Count("hook_windows_passed", 1)
		}
		hooks.Uninstall()
	}
	if n := X.PanicCount() + Y.PanicCount(); n > 0 {
		cw.fail(kind+"/panic", "panic while handling a message: %v %v", X.Panics, Y.Panics)
		return
	}

	// ---- (1) immediately after: state of the removed device/entity
	when := kind
	if conc {
		when += "+conc"
	}
	if kind == "disconnect" {
		if !rig.IsNil(w.Local.RemoteDeviceForSki(X.Ski)) {
			cw.fail(when+"/still-resolves-by-ski", "RemoteDeviceForSki(%s) still resolves", X.Ski)
		}
		if !rig.IsNil(w.Local.RemoteDeviceForAddress(model.AddressDeviceType(X.Addr))) {
			cw.fail(when+"/still-resolves-by-address", "RemoteDeviceForAddress(%s) still resolves", X.Addr)
		}
		for _, rd := range w.Local.RemoteDevices() {
			if rd.Ski() == X.Ski {
				cw.fail(when+"/still-listed", "RemoteDevices() still lists %s", X.Ski)
			}
		}
		// pending approvals and received approvals of X are gone when the call has returned (timers can
		// only have removed entries, never added any)
		if pend, recv := pendingOf(x); pend != 0 || recv != 0 {
			cw.fail(when+"/pending-approvals-survive", "peer%d had %d writes pending; after the disconnect the stack still holds %d pending timers and %d received-approval records for its SKI", x, len(wX), pend, recv)
		}
	} else {
		if w.Local.RemoteDeviceForSki(X.Ski) != X.RD || w.Local.RemoteDeviceForAddress(model.AddressDeviceType(X.Addr)) != X.RD {
			cw.fail(when+"/device-no-longer-resolves", "peer%d only lost an entity but does not resolve any more", x)
		}
		if got := X.RD.Entity(spine.NewAddressEntityType(entOf(remEnt))); !rig.IsNil(got) {
			cw.fail(when+"/entity-still-present", "entity %s of peer%d still present", remEnt, x)
		}
		// pending approvals that refer to the removed entity: the tap is read first, so timeouts counted
		// here happened before the state is read and the bound is sound
		cw.take(x)
		outs := cw.logged(x, 0)
		resolvedOther := 0
		for _, wr := range wOther {
			if wr.peer == x && len(rig.Classify(outs, wr.mc).All) > 0 {
				resolvedOther++
			}
		}
		nOtherX := 0
		for _, wr := range wOther {
			if wr.peer == x {
				nOtherX++
			}
		}
		pend, recv := pendingOf(x)
		if pend > nOtherX-resolvedOther {
			cw.fail(c10SigPendingEntity, "peer%d left %d writes pending from the removed entity %s and %d from other entities (%d of those already timed out); the stack still holds %d pending approvals for the peer",
				x, len(wXent), remEnt, nOtherX, resolvedOther, pend)
		}
		// received-approval records exist for the writes to server 1 (one of its two callbacks approves).
		// They do not expire with the timer, so those of the surviving entities must all be there; those of
		// the removed entity must be gone unless the write had timed out before the removal (the record of
		// a timed out write is nobody's to clean).
		recvOther, recvEnt, recvEntResolved := 0, 0, 0
		for _, wr := range wOther {
			if wr.peer == x && wr.srv == 1 {
				recvOther++
			}
		}
		for _, wr := range wXent {
			if wr.srv == 1 {
				recvEnt++
				if len(rig.Classify(outs, wr.mc).All) > 0 {
					recvEntResolved++
				}
			}
		}
		// (a write whose timer fired before the approving callback ran never got a record, so the number
		// of records before the teardown, not the number of writes, is the reference)
		if recv < recvBefore[x]-recvEnt {
			cw.fail(when+"/received-approvals-of-other-entity-of-that-peer-lost", "peer%d: %d received-approval records before the removal, at most %d of them belong to the removed entity %s; the stack holds only %d records now",
				x, recvBefore[x], recvEnt, remEnt, recv)
		}
		maxOther := recvOther
		if recvBefore[x] < maxOther {
			maxOther = recvBefore[x]
		}
		if recv > maxOther+recvEntResolved {
			cw.fail("entity-removal/received-approval-of-removed-entity-survives", "peer%d: at most %d received-approval records belong to surviving entities, %d writes of the removed entity %s had one (%d of them timed out earlier); the stack holds %d records",
				x, maxOther, recvEnt, remEnt, recvEntResolved, recv)
		}
	}
	// received-approval records of the other peers do not depend on timers
	for pi := range cw.peers {
		if pi == x {
			continue
		}
		if _, recv := pendingOf(pi); recv != recvBefore[pi] {
			cw.fail(when+"/received-approvals-of-other-peer-changed", "peer%d: %d received-approval records before the teardown of peer%d, %d after", pi, recvBefore[pi], x, recv)
		}
		if w.Local.RemoteDeviceForSki(cw.peers[pi].Ski) != cw.peers[pi].RD || w.Local.RemoteDeviceForAddress(model.AddressDeviceType(cw.peers[pi].Addr)) != cw.peers[pi].RD {
			cw.fail(when+"/other-peer-no-longer-resolves", "peer%d does not resolve any more after the teardown of peer%d", pi, x)
		}
	}

	// ---- (2) registries and bookkeeping
	cw.compare(when, x, remEnt)

	// ---- (3) events
	gotEv := map[string]int{}
	var evList []string
	for _, ev := range w.Core.Take() {
		evList = append(evList, ev.String())
		if ev.P.EventType == api.EventTypeDataChange {
			continue
		}
		k := ""
		switch ev.P.EventType {
		case api.EventTypeSubscriptionChange, api.EventTypeBindingChange:
			name := map[api.EventType]string{api.EventTypeSubscriptionChange: "Subscription", api.EventTypeBindingChange: "Binding"}[ev.P.EventType]
			ent, fid, loc := "?", -1, "?"
			if !rig.IsNil(ev.P.Entity) && ev.P.Entity.Address() != nil {
				ent = c06KeyM(ev.P.Entity.Address().Entity)
			}
			if !rig.IsNil(ev.P.Feature) && ev.P.Feature.Address() != nil && ev.P.Feature.Address().Feature != nil {
				fid = int(*ev.P.Feature.Address().Feature)
			}
			if !rig.IsNil(ev.P.LocalFeature) {
				loc = ev.P.LocalFeature.Address().String()
			}
			k = fmt.Sprintf("%s/%s ent=%s feature=%d local=%s", name, c10Ch(ev.P.ChangeType), ent, fid, loc)
		case api.EventTypeEntityChange:
			ent := "?"
			if !rig.IsNil(ev.P.Entity) && ev.P.Entity.Address() != nil {
				ent = c06KeyM(ev.P.Entity.Address().Entity)
			}
			k = fmt.Sprintf("Entity/%s ent=%s", c10Ch(ev.P.ChangeType), ent)
		case api.EventTypeDeviceChange:
			k = "Device/" + c10Ch(ev.P.ChangeType)
		}
		if ev.P.Ski != X.Ski {
			k = "OTHER-PEER " + k
		}
		gotEv[k]++
	}
	// the concurrent messages of peer y publish their own add/remove events
	for _, o := range yops {
		switch {
		case strings.Contains(o.desc, " subscribes "):
			wantEv["OTHER-PEER Subscription/add"]++
		case strings.Contains(o.desc, " unsubscribes "):
			wantEv["OTHER-PEER Subscription/remove"]++
		case strings.Contains(o.desc, " binds "):
			wantEv["OTHER-PEER Binding/add"]++
		}
	}
	norm := map[string]int{}
	for k, n := range gotEv {
		if strings.HasPrefix(k, "OTHER-PEER Subscription/") || strings.HasPrefix(k, "OTHER-PEER Binding/") {
			k = strings.SplitN(k, " ent=", 2)[0]
		}
		norm[k] += n
	}
	c.Events(int64(len(evList)))
	for k, n := range wantEv {
		if norm[k] < n {
			cw.fail(when+"/removal-event-missing/"+strings.SplitN(k, " ", 2)[0], "expected %d x %q, observed %d; events: %v", n, k, norm[k], evList)
		}
	}
	for k, n := range norm {
		if n > wantEv[k] {
			sig := "removal-event-duplicated-or-unexpected/" + strings.SplitN(k, " ", 2)[0]
			if strings.HasPrefix(k, "OTHER-PEER") {
				sig = "event-for-other-peer"
			}
			cw.fail(when+"/"+sig, "observed %d x %q, expected %d; events: %v", n, k, wantEv[k], evList)
		}
	}

	// ---- (4) the concurrent messages of peer y were served
	if len(yres) > 0 {
		outs := cw.take(y)
		for _, s := range yres {
			f := strings.Split(s, "|")
			var mc uint64
			fmt.Sscan(f[1], &mc)
			cw.trace = append(cw.trace, "  (concurrently) "+f[0])
			if got := rig.Classify(outs, model.MsgCounterType(mc)).String(); got != f[2] {
				cw.fail(when+"/concurrent-message-of-other-peer-not-served", "%s: got %s, want %s", f[0], got, f[2])
			}
			c.Events(1)
		}
	}
	if cw.hard {
		return
	}

	// ---- (4b) late verdicts of the application, in half of the cases: an approval for every write that
	// referred to the removed device/entity must have no effect; an approval for one surviving write
	// (preferably of another entity of the same peer) must still be carried out
	type late struct {
		demandSuccess bool
	}
	lateApproved := map[model.MsgCounterType]late{}
	lateDead := map[model.MsgCounterType]bool{}
	if r.Intn(2) == 0 && len(writes) > 0 {
		msgOf := func(mc model.MsgCounterType) *api.Message {
			approveMu.Lock()
			defer approveMu.Unlock()
			return captured[mc]
		}
		for _, wr := range wXent {
			if m := msgOf(wr.mc); m != nil {
				cw.srv[wr.srv].ApproveOrDenyWrite(m, model.ErrorType{ErrorNumber: 0})
				lateDead[wr.mc] = true
				cw.trace = append(cw.trace, fmt.Sprintf("application approves write %d of peer%d (its device/entity is gone)", wr.mc, wr.peer))
				c.Count("late_approvals_for_removed_writes", 1)
			}
		}
		var cand []c10Write
		for _, wr := range wOther {
			if wr.peer == x {
				cand = append(cand, wr)
			}
		}
		if len(cand) == 0 {
			cand = wOther
		}
		if len(cand) > 0 {
			wr := cand[r.Intn(len(cand))]
			if m := msgOf(wr.mc); m != nil {
				cw.srv[wr.srv].ApproveOrDenyWrite(m, model.ErrorType{ErrorNumber: 0})
				// timers never fire early: if the verdict was in before the timeout can have passed, it must win
				inTime := time.Since(tWrites) < c10Timeout
				lateApproved[wr.mc] = late{demandSuccess: inTime}
				cw.trace = append(cw.trace, fmt.Sprintf("application approves surviving write %d of peer%d from %s (before the timeout can have passed: %v)", wr.mc, wr.peer, c06Key(wr.ent), inTime))
				if inTime {
					c.Count("late_approvals_for_surviving_writes_in_time", 1)
					if wr.peer == x {
						c.Count("late_approvals_for_other_entity_of_the_affected_peer_in_time", 1)
					}
				}
			}
		}
	}

	// ---- (5) the rest of the history, for everything that survived
	alive := func(pi int, ent []uint) bool {
		return pi != x || (remEnt != "" && c06Key(ent) != remEnt)
	}
	for _, o := range ops[cut:] {
		if !alive(o.peer, o.ent) {
			continue
		}
		if o.kind == "sub" {
			if _, dup := cw.regs[cw.regKey("sub", o.peer, o.ent, uint(o.srv+1), o.srv)]; dup {
				continue // subscribed concurrently already
			}
		}
		if o.kind == "bind" {
			taken := false
			for _, en := range cw.regs {
				if en.kind == "bind" && en.srv == o.srv {
					taken = true
				}
			}
			if taken {
				continue
			}
		}
		cw.exec(o, "after-"+kind)
	}
	// a server feature the removed peer/entity held is free again: a surviving peer can bind it
	for s := range cw.srv {
		taken := false
		for _, en := range cw.regs {
			if en.kind == "bind" && en.srv == s {
				taken = true
			}
		}
		if !taken && holder[s] == x {
			q := (x + 1 + r.Intn(2)) % 3
			cw.exec(c10Op{kind: "bind", peer: q, ent: c10Ents[r.Intn(len(c10Ents))], srv: s}, "after-"+kind+"/rebind-freed-feature")
		}
	}

	// ---- (6) service probe for every surviving peer (and for the surviving entities of a peer that lost one)
	served := 0
	for pi, p := range cw.peers {
		if kind == "disconnect" && pi == x {
			continue
		}
		var ea []uint
		for _, i := range r.Perm(len(c10Ents)) {
			if alive(pi, c10Ents[i]) {
				ea = c10Ents[i]
				break
			}
		}
		cw.take(pi)
		// read
		s := r.Intn(len(cw.srv))
		fn := c06FnsOf(c10SrvTypes[s])[0]
		mc := p.Send(model.CmdClassifierTypeRead, rig.FA(p.Addr, ea, uint(s+1)), cw.srv[s].Address(), false, nil, rig.CmdFor(fn.Fn, reflect.New(fn.T).Interface()))
		if res := rig.Classify(cw.take(pi), mc); res.Replies != 1 || res.Errors != 0 {
			cw.fail("after-"+kind+"/read-of-surviving-peer-not-served", "peer%d reads %s from %s: %s", pi, fn.Fn, c06Key(ea), res)
		}
		// subscribe (a pair that does not exist yet)
		for _, s := range r.Perm(len(cw.srv)) {
			if _, dup := cw.regs[cw.regKey("sub", pi, ea, uint(s+1), s)]; !dup {
				cw.exec(c10Op{kind: "sub", peer: pi, ent: ea, srv: s}, "after-"+kind+"/probe")
				break
			}
		}
		// authorised write on a feature without approval callbacks
		bs := boundBy(pi, false)
		var usable []c10Ent
		for _, b := range bs {
			if alive(pi, entOf(b.ent)) {
				usable = append(usable, b)
			}
		}
		if len(usable) > 0 {
			b := usable[r.Intn(len(usable))]
			fn := writeFn[b.srv]
			cw.take(pi)
			mc := p.Send(model.CmdClassifierTypeWrite, rig.FA(p.Addr, entOf(b.ent), b.fid), cw.srv[b.srv].Address(), true, nil, rig.CmdFor(fn.Fn, reflect.New(fn.T).Interface()))
			cw.trace = append(cw.trace, fmt.Sprintf("peer%d writes %s from %s/%d to local server %d (bound, no approval needed)", pi, fn.Fn, b.ent, b.fid, b.srv))
			if res := rig.Classify(cw.take(pi), mc); res.Success != 1 || res.Errors != 0 {
				cw.fail("after-"+kind+"/authorised-write-of-surviving-peer-not-accepted", "peer%d writes %s to local server %d over its binding from %s/%d: %s", pi, fn.Fn, b.srv, b.ent, b.fid, res)
			}
			c.Count("probe_writes", 1)
		}
		served++
		c.Events(3)
	}
	cw.compare("after-"+kind, x, remEnt)

	// ---- (7) observe until the horizon: timers of the other peers fire, nothing reaches the removed connection
	settled := rig.WaitFor(20*time.Second, func() bool {
		for pi := range cw.peers {
			if p, _ := pendingOf(pi); p != 0 {
				return false
			}
		}
		return time.Since(tReturn) >= c10Horizon
	})
	quiet := rig.WaitQuiet(baseline, 10*time.Second)
	if !settled || !quiet {
		c.Inconclusive("pending approvals did not time out / goroutines did not finish within the watchdog (settled=%v quiet=%v)", settled, quiet)
		return
	}
	if kind == "disconnect" {
		var late []rig.Out
		cw.take(x)
		for _, o := range cw.log[x] {
			if o.Seq > seqReturn {
				late = append(late, o)
			}
		}
		c.Events(1)
		if len(late) > 0 {
			what := "datagram"
			if len(late[0].D.Payload.Cmd) > 0 && late[0].D.Payload.Cmd[0].ResultData != nil {
				what = "result"
			}
			sig := when + "/" + what + "-written-to-removed-connection"
			if what == "result" && tReturn.Sub(tWrites) >= c10Timeout {
				// the case ran so slowly that an approval timer may have fired while the removal was still
				// running: see the comment at c10SigInFlight
				sig = c10SigInFlight
				c.Count("slow_cases_where_a_timer_may_have_been_in_flight", 1)
			}
			cw.fail(sig, "%d datagrams were written to the connection of peer%d after RemoveRemoteDeviceConnection had returned (observed for %v after quiescence): %s",
				len(late), x, c10Horizon, rig.JS(late[0].D))
		}
	}
	// every write of a surviving peer got exactly one outcome; with silent callbacks that is the timeout error
	for pi := range cw.peers {
		if kind == "disconnect" && pi == x {
			continue
		}
		cw.take(pi)
		for _, wr := range writes {
			if wr.peer != pi {
				continue
			}
			res := rig.Classify(cw.logged(pi, 0), wr.mc)
			c.Events(1)
			removedEntityWrite := pi == x && c06Key(wr.ent) == remEnt
			la, wasApproved := lateApproved[wr.mc]
			switch {
			case removedEntityWrite:
				// The approval disappeared with the entity: nothing may answer that write after the
				// notification returned, except the timeout of a timer that was already firing (only
				// possible if the case took longer than the timeout). A success result is never right.
				after := rig.Classify(cw.logged(pi, seqReturn), wr.mc)
				switch {
				case res.Success > 0:
					cw.fail("entity-removal/write-of-removed-entity-applied", "write %d of peer%d from the removed entity %s was acknowledged: %s (late approval by the application: %v)", wr.mc, pi, remEnt, res, lateDead[wr.mc])
				case len(res.All) > 1:
					cw.fail(when+"/pending-write-answered-twice", "write %d of peer%d: %s", wr.mc, pi, res)
				case len(after.All) > 0 && tReturn.Sub(tWrites) < c10Timeout:
					cw.fail("entity-removal/write-of-removed-entity-answered-after-removal", "write %d of peer%d from the removed entity %s received %s after the removal notification had returned", wr.mc, pi, remEnt, after)
				}
			case wasApproved:
				if len(res.All) != 1 || res.Replies != 0 || (la.demandSuccess && res.Success != 1) {
					who := "other-peer"
					if pi == x {
						who = "other-entity-of-that-peer"
					}
					cw.fail(when+"/approval-of-surviving-write-of-"+who+"-not-carried-out", "write %d of peer%d (from %s) was approved by the application after the teardown of peer%d (verdict in before the timeout: %v); results: %s",
						wr.mc, pi, c06Key(wr.ent), x, la.demandSuccess, res)
				}
			case res.Errors != 1 || res.Success != 0 || res.Replies != 0:
				who := "other-peer"
				if pi == x {
					who = "other-entity-of-that-peer"
				}
				cw.fail(when+"/pending-approval-of-"+who+"-lost", "write %d of peer%d (pending approval at the teardown of peer%d) must receive exactly one result, the approval timeout; got %s", wr.mc, pi, x, res)
			}
		}
	}
	cw.compare("horizon-"+kind, x, remEnt)

	c.Count("teardown:"+kind, 1)
	if conc {
		c.Count("teardown_with_concurrent_messages", 1)
		c.Count("concurrent_messages", int64(len(yops)))
	}
	c.Count("registry_entries_removed", int64(nRegs))
	c.Count("bookkeeping_flags_removed", int64(nFlags))
	c.Count("entries_of_other_peers_with_the_same_numbers", int64(nTwins))
	c.Count("pending_writes_of_removed_device_or_entity", int64(len(wXent)))
	c.Count("pending_writes_of_others", int64(len(wOther)))
	c.Count("surviving_peers_probed", int64(served))
	c.Shape(fmt.Sprintf("%s conc=%v regs=%d flags=%d pendX=%d pendO=%d", kind, conc, nRegs, nFlags, len(wXent), len(wOther)))
	c.NonTrivial(nRegs > 0 && nFlags > 0 && nTwins > 0)
	tr := cw.trace
	if len(tr) > 40 {
		tr = append(append([]string{}, tr[:12]...), append([]string{"..."}, tr[len(tr)-27:]...)...)
	}
	c.Sample(map[string]any{"history": tr, "teardown": kind, "peer": x, "concurrent": conc, "entries_removed": nRegs, "flags_removed": nFlags,
		"pending_writes": len(writes), "horizon": c10Horizon.String(), "events_at_teardown": evList})
}

func c10Ch(t api.ElementChangeType) string {
	switch t {
	case api.ElementChangeAdd:
		return "add"
	case api.ElementChangeRemove:
		return "remove"
	case api.ElementChangeUpdate:
		return "update"
	}
	return "?"
}

func waitWG(wg *sync.WaitGroup, max time.Duration) bool {
	done := make(chan struct{})
	go func() { wg.Wait(); close(done) }()
	select {
	case <-done:
		return true
	case <-time.After(max):
		return false
	}
}

// c10Expiry aims a teardown at the moment the approval timers of the victim expire. Whatever the
// interleaving, a timer that lost against the cleanup must stay silent and one that won must have
// written its result before the teardown call returned; the other peer's writes each time out once.
func c10Expiry(c *rig.Ctx) {
	r := c.Rand
	w := rig.NewWorld(c.Tag())
	defer w.Close()
	T := []time.Duration{200 * time.Microsecond, 500 * time.Microsecond, time.Millisecond, 2 * time.Millisecond}[r.Intn(4)]
	types := c10SrvTypes[:2]
	e := w.AddEntity(model.EntityTypeTypeCEM, []uint{1}, 4*time.Second)
	var srv []api.FeatureLocalInterface
	var fn []rig.FnInfo
	for _, t := range types {
		f := e.GetOrAddFeature(t, model.RoleTypeServer)
		fns := c06FnsOf(t)
		for _, x := range fns {
			f.AddFunctionType(x.Fn, true, true)
		}
		fn = append(fn, fns[len(fns)-1])
		f.SetWriteApprovalTimeout(T)
		_ = f.AddWriteApprovalCallback(func(m *api.Message) {}) // silent
		srv = append(srv, f)
	}
	ents := [][]uint{{1}, {1, 1}}
	var tree []rig.FS
	tree = append(tree, rig.NMFS)
	for _, ea := range ents {
		for i, t := range types {
			tree = append(tree, rig.FS{Ent: ea, Id: uint(i + 1), Typ: t, Role: model.RoleTypeClient})
		}
	}
	var peers []*rig.Peer
	from := make([][]uint, 2)
	for i := 0; i < 2; i++ {
		p := w.AddPeer(i)
		p.Ctr = uint64(i+1) * 100000
		p.Announce(tree)
		from[i] = ents[r.Intn(2)]
		mc := p.Bind(rig.FA(p.Addr, from[i], uint(i+1)), srv[i].Address(), types[i])
		if res := rig.Classify(p.Tap.Take(), mc); res.Success != 1 {
			c.Inconclusive("setup: binding of peer%d not granted (%s)", i, res)
			return
		}
		peers = append(peers, p)
	}
	w.Core.Take()
	baseline := runtime.NumGoroutine()

	x := r.Intn(2)
	y := 1 - x
	X, Y := peers[x], peers[y]
	kind := []string{"disconnect", "remove-entity"}[r.Intn(2)]
	atHook := kind == "disconnect" && r.Intn(2) == 0
	nX, nY := 1+r.Intn(3), r.Intn(3)
	spread := int64(150 * time.Microsecond)
	if int64(T)/2 < spread {
		spread = int64(T) / 2
	}
	offset := time.Duration(r.Int63n(2*spread) - spread)

	var hooks *rig.Hooks
	var target time.Time
	spin := func() {
		for time.Now().Before(target) {
			runtime.Gosched()
		}
	}
	if atHook {
		hooks = rig.InstallHooks()
		defer hooks.Uninstall()
		hooks.On("RemoveRemoteDevice.beforeCleanup", func(any) { spin() })
	}

	type wr struct {
		peer int
		mc   model.MsgCounterType
	}
	var writes []wr
	order := r.Perm(nX + nY)
	t0 := time.Now() // no timer is armed before this moment
	for _, i := range order {
		pi := y
		if i < nX {
			pi = x
		}
		p := peers[pi]
		mc := p.Send(model.CmdClassifierTypeWrite, rig.FA(p.Addr, from[pi], uint(pi+1)), srv[pi].Address(), true, nil, rig.CmdFor(fn[pi].Fn, reflect.New(fn[pi].T).Interface()))
		writes = append(writes, wr{pi, mc})
	}
	tArmed := time.Now() // every timer is armed by now
	target = t0.Add(T + offset)
	if !atHook {
		spin()
	}
	var seqReturn int64
	var tStart, tReturn time.Time
	okT, panicked := rig.Guard(30*time.Second, func() {
		tStart = time.Now()
		if kind == "disconnect" {
			w.Local.RemoveRemoteDeviceConnection(X.Ski)
		} else {
			X.NotifyDiscovery(true, X.Discovery(nil, nil, [][]uint{from[x]}))
		}
		seqReturn = rig.Seq()
		tReturn = time.Now()
	})
	if panicked != "" {
		c.Violate("expiry/"+kind+"/panic", "%s", panicked)
		return
	}
	if !okT {
		c.Inconclusive("teardown did not return within 30s")
		return
	}
	pendingOf := func(pi int) int {
		n := 0
		for _, f := range srv {
			pm, _ := f.(*spine.FeatureLocal).VerifApprovalState()
			n += pm[peers[pi].Ski]
		}
		return n
	}
	desc := fmt.Sprintf("timeout %v, %s of peer%d (writes from %s) aimed %v after the expiry of its first timer, held at the hook: %v; %d writes of peer%d, %d of peer%d pending",
		T, kind, x, c06Key(from[x]), offset, atHook, nX, x, nY, y)
	if n := pendingOf(x); n != 0 {
		c.Violate("expiry/"+kind+"/pending-approvals-survive", "%s: the stack still holds %d pending approvals for the victim after the teardown returned", desc, n)
	}
	if n := len(w.Local.BindingManager().Bindings(X.RD)); n != 0 {
		c.Violate("expiry/"+kind+"/binding-survives", "%s: %d bindings of the victim left", desc, n)
	}
	if n := len(w.Local.BindingManager().Bindings(Y.RD)); n != 1 {
		c.Violate("expiry/"+kind+"/binding-of-other-peer-lost", "%s: the other peer has %d bindings", desc, n)
	}

	// observe: until the other peer's timers have fired, the process is quiet again and 5 timeouts (at least 5 ms) have passed
	horizon := 5 * T
	if horizon < 5*time.Millisecond {
		horizon = 5 * time.Millisecond
	}
	settled := rig.WaitFor(20*time.Second, func() bool { return pendingOf(y) == 0 && time.Since(tReturn) >= horizon })
	quiet := rig.WaitQuiet(baseline, 10*time.Second)
	if !settled || !quiet {
		c.Inconclusive("timers did not fire / goroutines did not finish within the watchdog (settled=%v quiet=%v)", settled, quiet)
		return
	}
	outs := [][]rig.Out{peers[0].Tap.TakeOut(), peers[1].Tap.TakeOut()}
	answeredBefore := 0
	for _, wv := range writes {
		var all, late []model.DatagramType
		for _, o := range outs[wv.peer] {
			if o.D.Header.MsgCounterReference != nil && *o.D.Header.MsgCounterReference == wv.mc {
				all = append(all, o.D)
				if o.Seq > seqReturn {
					late = append(late, o.D)
				}
			}
		}
		c.Events(1)
		res := rig.Classify(all, wv.mc)
		if wv.peer == y {
			if res.Errors != 1 || res.Success != 0 || len(all) != 1 {
				c.Violate("expiry/"+kind+"/pending-approval-of-other-peer-lost", "%s: write %d of the other peer must receive exactly one result (the timeout), got %s", desc, wv.mc, res)
			}
			continue
		}
		if len(all) > 1 || res.Success > 0 {
			c.Violate("expiry/"+kind+"/write-answered-twice-or-applied", "%s: write %d of the victim: %s", desc, wv.mc, res)
		}
		if len(late) > 0 {
			sig := "expiry/disconnect/result-written-to-removed-connection"
			if kind != "disconnect" {
				sig = "expiry/entity-removal/write-of-removed-entity-answered-after-removal"
			}
			c.Violate(sig, "%s: write %d of the victim was answered after the teardown call had returned (observed for %v after quiescence): %s", desc, wv.mc, horizon, rig.JS(late[0]))
		} else if len(all) == 1 {
			answeredBefore++
		}
	}
	if kind == "disconnect" {
		for _, o := range outs[x] {
			if o.Seq > seqReturn && (o.D.Header.MsgCounterReference == nil) {
				c.Violate("expiry/disconnect/datagram-written-to-removed-connection", "%s: %s", desc, rig.JS(o.D))
			}
		}
	}
	// evidence: did the expiry of one of the victim's timers fall into the teardown call?
	overlap := !tStart.After(tArmed.Add(T)) && !tReturn.Before(t0.Add(T))
	if overlap {
		c.Count("expiry_inside_teardown_call", 1)
	}
	switch {
	case answeredBefore == 0:
		c.Count("victim_writes:all_silenced_by_cleanup", 1)
	case answeredBefore == nX:
		c.Count("victim_writes:all_timed_out_before_return", 1)
	default:
		c.Count("victim_writes:some_timed_out_some_silenced", 1)
	}
	c.Count("expiry:"+kind, 1)
	c.Seen("expiry_outcomes", fmt.Sprintf("%s hook=%v T=%v answered=%d/%d", kind, atHook, T, answeredBefore, nX))
	c.Shape(fmt.Sprintf("%s T=%v hook=%v nX=%d nY=%d answered=%d", kind, T, atHook, nX, nY, answeredBefore))
	c.NonTrivial(overlap)
	if c.Failed() {
		c.Witness(map[string]any{"case": desc})
	}
	c.Sample(map[string]any{"case": desc, "victim_writes_answered_before_return": answeredBefore, "expiry_inside_teardown_call": overlap,
		"teardown_call_took": tReturn.Sub(tStart).String(), "horizon": horizon.String()})
}
