package checks

import (
	"encoding/json"
	"fmt"
	"math/rand"
	"reflect"
	"runtime"
	"sort"
	"strings"
	"sync"
	"sync/atomic"
	"time"

	"github.com/enbility/spine-go/api"
	"github.com/enbility/spine-go/model"
	"github.com/enbility/spine-go/spine"
	"github.com/enbility/spine-go/util"

	"verifharness/rig"
)

// C10 — teardown of one peer or entity never leaks into another.
//
// One case = one World with three peers that announce the SAME tree ([1], [1,1], [2], each with client
// features 1..6 and server features 7, 8). A seeded history lets every peer subscribe and bind to the six
// local server features from random entities and lets two local client features SubscribeToRemote /
// BindToRemote to the peers' server features. At a random point of that history 0-2 writes per peer are
// left pending approval (silent approval callbacks, approval timeout 50 ms) and then one peer is torn
// down: connection dropped, or entity [1] / [1,1] announced as removed; in a third of the cases while
// another peer's messages are processed on a second goroutine (jitter at RemoveRemoteDevice.beforeCleanup).
// In half of the cases the application then gives late verdicts: an approval for every write whose
// device/entity is gone (must have no effect, no datagram) and for one surviving write, preferably of
// another entity of the same peer (must still be carried out). The rest of the history is then played
// for what survived, every surviving peer is probed (read, new subscription, authorised write), and the
// taps are observed until 5 x the approval timeout after the teardown returned. Reference registries
// decide what must be gone and what must still be there; see c10Case for the individual oracles.
// Repeated announcements (second PRNG c10Aux, so that the histories drawn from c.Rand stay what they were): every
// peer, with probability 1/2, announces its unchanged tree once more somewhere in the history - the whole detailed
// discovery reply again, or a partial notify lastStateChange=added for one known entity with its features - and in
// a quarter of the cases a random set of peers does so right before the cut. The stack rebuilds the feature objects
// of a re-announced entity; what the teardown removes and keeps must not depend on that (all oracles unchanged:
// all and only the victim's entries go, one removal event per entry, a freed server feature can be bound by
// another peer). Window and expiry parts do the same in a third / a quarter of their cases. In half of the entity
// removals the notify additionally lists a never announced entity as removed, before or after the known one.
//
// Features that no longer resolve at the teardown (third PRNG): a second local entity [2] whose server features hold
// entries and which the application removes (DeviceLocal.RemoveEntity) right before the teardown; a victim that
// announces an entity again with a feature list lacking client features that hold entries. All and only the victim's
// entries go, one removal event per entry (the unresolvable part of the event is a wildcard).
// Early registrations (fourth PRNG): subscriptions / bindings of a peer's NodeManagement feature to the local
// NodeManagement feature requested BEFORE the peer's detailed discovery reply (client address with or without device
// part); after the teardown the application adds a local entity (notification fan-out to NodeManagement subscribers).
//
// expiry / expiry-race (c10Expiry): two peers, approval timeout 200 us - 2 ms, the teardown is aimed at
// the moment the victim's timers expire (optionally held at the hook inside RemoveRemoteDevice), so the
// race between a firing timer and the cleanup is exercised deliberately.
//
// window / window-race (c10Window): the teardown of one peer is held INSIDE the registry cleanup (in the
// synchronous core-level delivery of one of the victim's subscription/binding removal events) while two
// other peers send subscribe/unsubscribe resp. bind/unbind requests for their own pairs on their own
// goroutines. Whatever the stack does with those requests (serve them at once or make them wait), every
// request that was acknowledged with a success result must be reflected in the registries afterwards: the
// teardown and the other peers' requests concern different pairs, so they commute and the final state is
// unique.
//
// reconnect / reconnect-race (c10Reconnect): a peer with writes pending approval under a short timeout is
// disconnected and reconnects with the same SKI and the same message counters before the timeout has
// passed; the re-sent writes are pending again (long timeout). Whatever was armed for the OLD connection
// must neither write to the old connection nor touch the pending approvals of the new one. A quarter of
// the cases instead removes the connection while an approval of the application is between the lookup of
// the pending write and its execution (hook ApproveOrDenyWrite.afterLookup). Another quarter (second PRNG) is the
// stale-approvals history of x_c10c12_stale.go: k in {2,3} callbacks, the writes of the first connection collect
// up to k-1 approvals and TIME OUT before the connection is removed; the writes re-sent with the same counters on
// the second connection must not be applied before all k callbacks approved them (judged at the return of every
// single ApproveOrDenyWrite call), a denial yields exactly one error result and unchanged data.
//
// co-pending / co-pending-race (c10CoPending, c10_copending.go): the one binding of a local server feature is handed from
// sender to sender, so that writes of several entities of one peer and of several peers wait for approval on the SAME
// feature, partly approved, when one of the senders is torn down; all remaining verdicts are given afterwards and every
// write is judged by its outcome at the return of every call.

const c10Timeout = 50 * time.Millisecond
const c10Horizon = 5 * c10Timeout

var c10SrvTypes = []model.FeatureTypeType{model.FeatureTypeTypeLoadControl, model.FeatureTypeTypeDeviceConfiguration, model.FeatureTypeTypeTimeSeries, // writes need approval
	model.FeatureTypeTypeSetpoint, model.FeatureTypeTypeHvac, model.FeatureTypeTypeIncentiveTable} // writes are applied at once
var c10CliTypes = []model.FeatureTypeType{model.FeatureTypeTypeMeasurement, model.FeatureTypeTypeElectricalConnection}
var c10Ents = [][]uint{{1}, {1, 1}, {2}}

func init() {
	rule := "case = 3 identically numbered peers; seeded history of subscribe/bind calls of the peers (about 5 subscriptions per peer over 3 entities x 6 local server features, every server feature bound by one random peer/entity) and " +
		"SubscribeToRemote/BindToRemote of 2 local client features, cut at a random point; 0-2 writes per peer pending approval at the cut (timeout 50 ms, callbacks silent, one feature with a second approving callback); " +
		"teardown = disconnect | remove [1] | remove [1,1] of a random peer (preferring one with pending writes), one third with another peer's reads/subscribes/binds processed concurrently; then the rest of the history and a service probe per surviving peer. " +
		"A case is non-trivial if the torn-down device/entity held at least one registry entry and one bookkeeping flag, and another peer held an entry with the same entity and feature numbers. " +
		"distinct = distinct (teardown kind, concurrent, #entries removed, #flags removed, #pending writes of the removed peer, #pending writes of others, victim re-announced, unknown entity listed). " +
		"Repeated announcements (second per-case PRNG): every peer with probability 1/2 repeats its unchanged detailed discovery reply or announces one known entity again (partial notify lastStateChange=added with the entity's features) at a random point of the history, " +
		"in a quarter of the cases additionally a random set of peers right before the cut; half of the entity-removal notifies also list a never announced entity [9] as removed, before or after the known one. " +
		"Features that no longer resolve at the teardown (third PRNG): a second local entity [2] with two server features exists in every case; in half of the cases the peers subscribe to them from random entities (about 2 per peer) and each is bound by a random peer or nobody; " +
		"in half of those the application removes that local entity (DeviceLocal.RemoveEntity) right before the teardown, and in a third of all cases the victim announces one of the entities the teardown is going to remove AGAIN (whole reply or partial 'added' notify) with a feature list that lacks client features holding entries: " +
		"every entry of the victim is removed all the same and exactly one removal event is published per entry (matched on entity / client feature / local feature with the part that cannot resolve as a wildcard); whether entries of SURVIVING peers on features of the removed local entity stay is not judged. " +
		"Early registrations (fourth PRNG), half of the cases: before its detailed discovery reply is processed a peer subscribes (2 in 3) / binds (the first that draws 1 in 3) with its NodeManagement feature [0]/0 to the local NodeManagement feature, client address with or without device part; one in four of these entries is given up again in the history (must be granted); " +
		"they are entries of that connection (gone with it, one removal event each; kept when another entity is removed); after the teardown the application adds a local entity: every surviving NodeManagement subscriber is notified once, nothing is written to a removed connection; " +
		"in half of these cases two further connections never complete discovery (no device address known), each subscribed to the local NodeManagement feature; one is dropped after the main teardown: exactly its entry goes (one subscription and one device removal event, none for others), the other keeps its subscription and is notified. " +
		"How an entity removal is announced (fifth PRNG): partial notify with device part (1/2), partial notify whose entityAddress lacks the device part (1/4), notify WITHOUT filter that restates the whole tree and omits the entities (1/4); a third of the removals take one or two FURTHER entities of the victim in the same datagram; " +
		"half of the partial ones also list one or two still existing entities with lastStateChange modified / added (the known entity again, with its unchanged features) / absent (only behind the removed ones), before, between or behind the removed ones: all and only the entities announced as removed lose entries, flags and pending approvals, one entity removal event each, the others stay present and are served. " +
		"A third of the entity removals are followed (after the horizon) by: the removed entity announced again, 1-3 new subscriptions, a binding, a local subscribe and bind, and a SECOND removal: exactly the new entries and flags go, exactly one removal event per new entry and one for the entity, everybody else is still served. " +
		"NodeManagement dimension: the stack's own subscription of the local NodeManagement feature to every peer's (HasSubscriptionToRemote) is part of the flag universe (gone with the connection only); in a quarter of the cases peers subscribe their NodeManagement feature after discovery; after the teardown AddEntity and AddUseCaseSupport: every surviving NodeManagement subscriber gets exactly one notification each, a removed connection nothing. " +
		"Every second concurrent case also overlaps the teardown with 6-25 SubscribeToRemote / BindToRemote calls of the application towards the other peer (at a disconnect released by an observer at RemoveRemoteDevice.beforeCleanup; every flag must be set afterwards) and 0-2 approval-requiring writes of the other peer (half of them approved by the application at once, unless the applied write would fan out to the victim): exactly one result, the success if the verdict was in before the timeout can have passed. " +
		"expiry parts: case = 2 identically numbered peers, each bound to one approval feature, 1-3 writes of the victim and 0-2 of the other peer pending under a very short approval timeout (200 us - 2 ms); the disconnect (half of them held at the hook " +
		"RemoveRemoteDevice.beforeCleanup) or the entity-removal notification is aimed at the expiry of those timers (offset within +-150 us); non-trivial if the expiry of at least one timer of the victim fell between start and return of the teardown call; " +
		"distinct = distinct (kind, timeout, held at hook, #writes, how many of the victim's writes were answered before the teardown returned). " +
		"window parts: case = 3 identically numbered peers; the victim holds 1-3 subscriptions and 1-2 bindings that the teardown (disconnect | remove [1] | remove [1,1] | remove [2]) removes, the other two peers hold 2-4 / 0-2 subscriptions and 1-2 / 0-1 bindings with overlapping numbers; " +
		"a core-level event handler of the harness (called synchronously by the stack inside the cleanup of the registry) reacts to a randomly chosen removal event of the victim's subscriptions by releasing a goroutine on which the second peer sends 1-3 subscribe/unsubscribe requests for its own pairs, " +
		"and to a randomly chosen removal event of the victim's bindings by releasing a goroutine on which the third peer sends 1-2 bind/unbind requests for its own pairs; the handler keeps the teardown inside the cleanup for 150-600 us (x4 on the race binary) after the request was handed to the stack. " +
		"At quiescence every acknowledged request must be reflected: registries == reference (teardown and requests commute), HasLocalFeatureRemoteBinding, a write per binding of the universe (accepted iff bound), a data change per server feature (notifies exactly the subscribers). " +
		"One fifth of the request sequences is instead released 0-200 us BEFORE the teardown call (unaimed overlap, for breaks whose window opens in the other peer's request). " +
		"non-trivial if at least one of the two requests was handed to the stack while the teardown was held inside the cleanup (a window forced); distinct = distinct (teardown, index of the releasing events, request kinds). " +
		"reconnect parts: case = 2 identically numbered peers, X bound to 1-2 approval features with 1-2 writes pending (timeout 25|50 ms, x2 on the race binary), the other peer bound to the rest, subscribed to all three and in half of the cases with a pending write that carries the same counter; " +
		"X's connection is removed and set up again with the same SKI, X repeats announcement, bindings and writes with the SAME message counters (now under a timeout of 30 min); observed until 5 x the short timeout after the removal: nothing on the old connection, the new writes still pending and unanswered, " +
		"then the application approves (3/4) or denies (1/4) them: exactly one matching result on the new connection, one data change event and one notification per approved write. non-trivial if the re-sent writes were pending before the short timeout had passed since the first writes. " +
		"One quarter of the cases (stale-approvals, second PRNG; non-trivial if every approval of the first connection returned before the time-out result of its write was on the tap): one LoadControl server feature with k in {2,3} harness-driven callbacks, 1-2 writes of the first connection collect j<k approvals (mostly k-1) and time out (15|25|40 ms), " +
		"the connection is removed and set up again, the writes are re-sent with the same counters under a 30 min timeout and decided one ApproveOrDenyWrite call at a time in a drawn order (all approve, or one denial after at least one approval; two writes interleaved in half of the cases): " +
		"after every call a write with fewer than k approvals and no denial has no result and unchanged data, a denied one exactly one error result and unchanged data, a unanimously approved one is applied and acknowledged iff requested; no counted approval for the removed SKI is left after the removal returned. " +
		"Of the remaining cases one quarter (approve-at-removal, always non-trivial): the application's approval of a pending write is held at the hook ApproveOrDenyWrite.afterLookup while the connection is removed: the write must not be carried out (no data change event, no notification, nothing on the removed connection). " +
		"co-pending parts (c10_copending.go): case = 2-3 identically numbered peers and ONE local server feature with k in {1,2,3} harness-driven approval callbacks (timeout 30 min: no timer in the case); 2-4 senders (entity of a peer; every second one the previous sender's peer again, mostly another entity) " +
		"take the feature's one binding in turn (bind, write an element of its own, give the binding up), so that writes of several entities of one peer and of several peers are pending on the same feature; each write gets 0..k verdicts before the teardown (mostly some but not all approvals; right after the write or after the last write), " +
		"teardown = disconnect (1/3) | entity removal (2/3; partial, partial without device part, or unfiltered notify; a quarter with a second entity in the datagram) of a sender (5/6) or of somebody else, then ALL remaining verdicts one call at a time in a drawn interleaving (a quarter of the writes with a denial at a drawn position): " +
		"judged at the return of the teardown and of every call: an undecided write of a removed sender never gets a result nor changes data; every other write has no result below k approvals (those received before the teardown count), one error result after a denial, is written and acknowledged iff requested at the k-th approval; " +
		"pending approvals / approval tallies per connection (VerifApprovalState) = undecided writes of existing senders / those of them with at least one approval; the binding is there iff its holder exists; a further write of the holder (or of a sender that is granted the freed binding) is carried out; nothing is written to a removed connection. " +
		"Half of the cases: all peers count from the same start (the first writes of all peers carry the same counter). A third of the cases (all on the race binary): the next 1-2 verdicts for writes of staying senders run during the teardown, half of them held at ApproveOrDenyWrite.afterLookup until it returned; half of those with the holder on another connection also process the holder's further write during the teardown. " +
		"non-trivial if at the teardown at least one undecided write is removed and at least one undecided write of another sender stays on the same feature; distinct = distinct (kind, form, k, #peers, per write: relation to the victim (victim | other entity of its peer | same numbers on another peer | other) and #verdicts before the teardown, same counters, overlap)."
	assume := []string{
		"absence of datagrams on the removed connection is observed until all pending approval timers of the other peers have fired, the process is back at its baseline goroutine count and at least 5 x the approval timeout (250 ms) has passed since the removal call returned; the verdict is on the tap content (logical sequence numbers), the clock only bounds the observation",
		"pending approvals of surviving peers are judged by their outcome (every such write receives exactly one result, the timeout error), because their timers legitimately fire during the case; state read immediately after the teardown is only judged where timers cannot change the verdict",
		"concurrent messages of the other peer are reads, subscribes, unsubscribes and binds of free features: nothing that fans out to the removed peer, so an in-flight notification racing with the removal is not generated",
		"events are observed at the core level (synchronous)",
		"an entity listed WITHOUT lastStateChange in a partial removal notify is only placed behind the removed entities: whether the stack has to process a notify beyond (or up to) such an entry is not decided by the statement; the entity event a notify publishes for a known entity it lists as added is not judged",
		"removal of [1] does not imply removal of its sub-entity [1,1] (each entity is announced on its own), as before",
		"not overlapped with a teardown (not built): a second teardown of another peer running at the same time",
		"window parts: the pause of the harness's event handler only places the other peers' requests; its expiry is never judged, and no verdict depends on whether a request was served during or after the cleanup. All requests concern pairs the teardown does not touch and server features the victim does not hold, so each of them must be acknowledged in every order",
		"repeated announcements carry exactly the content of the first announcement (same entities, features, types, roles), so the announced tree - and with it everything the statement quantifies over - is unchanged; nothing is judged at the repeated announcement itself",
		"a removal event for a registry entry whose server or client feature no longer resolves at the teardown cannot name that feature; the statement demands the event, not its payload, so such an event is accepted with the unresolvable part empty or filled",
		"registry entries are identified by connection (SKI), client entity and feature numbers and server feature; a client address stored without device part (registered before the peer's device address was known) is read as that connection's device",
		"stale-approvals histories: the time-outs of the first connection's writes are awaited by observing their error results (watchdog 20 s => inconclusive); an approval of the first connection that arrives after its write timed out is simply not counted by the stack, which weakens the history but not the verdicts, which are all on the state at the return of a call",
		"reconnect parts: the clock only bounds the observation (5 x the short approval timeout after the removal returned, and until the other peer's timer has fired); the 30 min timeout of the re-sent writes stands for 'does not expire within the case'",
	}
	rig.Register(&rig.Check{
		ID:          "C10",
		Floor:       170,
		Rule:        rule,
		Assumptions: assume,
		Parts: []rig.Part{
			{Name: "teardown", Cases: func(t rig.Tier) int { return map[rig.Tier]int{rig.Quick: 300, rig.Thorough: 6000}[t] }, Run: c10Case, Procs: 2, Workers: 32, Quiet: 90 * time.Second},
			{Name: "teardown-race", Race: true, Cases: func(t rig.Tier) int { return map[rig.Tier]int{rig.Quick: 48, rig.Thorough: 600}[t] }, Run: c10Case, Procs: 4, Workers: 16, Quiet: 120 * time.Second},
			{Name: "expiry", Cases: func(t rig.Tier) int { return map[rig.Tier]int{rig.Quick: 600, rig.Thorough: 8000}[t] }, Run: c10Expiry, Procs: 4, Workers: 16, Quiet: 90 * time.Second},
			{Name: "expiry-race", Race: true, Cases: func(t rig.Tier) int { return map[rig.Tier]int{rig.Quick: 160, rig.Thorough: 1600}[t] }, Run: c10Expiry, Procs: 4, Workers: 16, Quiet: 120 * time.Second},
			{Name: "window", Cases: func(t rig.Tier) int { return map[rig.Tier]int{rig.Quick: 800, rig.Thorough: 8000}[t] }, Run: c10Window, Procs: 4, Workers: 16, Quiet: 90 * time.Second},
			{Name: "window-race", Race: true, Cases: func(t rig.Tier) int { return map[rig.Tier]int{rig.Quick: 128, rig.Thorough: 1280}[t] }, Run: c10Window, Procs: 4, Workers: 16, Quiet: 120 * time.Second},
			{Name: "reconnect", Cases: func(t rig.Tier) int { return map[rig.Tier]int{rig.Quick: 192, rig.Thorough: 2400}[t] }, Run: c10Reconnect, Procs: 2, Workers: 32, Quiet: 90 * time.Second},
			// a connection set up while the only other one is being removed must be served (C15 owns the mechanism: c15_leavejoin.go)
			{Name: "leave-join", Cases: func(t rig.Tier) int { return map[rig.Tier]int{rig.Quick: 40, rig.Thorough: 800}[t] }, Run: c15LeaveJoin, Procs: 4, Quiet: 90 * time.Second},
			{Name: "late-verdict", Cases: func(t rig.Tier) int { return map[rig.Tier]int{rig.Quick: 48, rig.Thorough: 600}[t] }, Run: func(c *rig.Ctx) { xLateVerdict(c, c.Rand, "late-verdict") }, Procs: 2, Quiet: 90 * time.Second},
			{Name: "reconnect-race", Race: true, Cases: func(t rig.Tier) int { return map[rig.Tier]int{rig.Quick: 48, rig.Thorough: 480}[t] }, Run: c10Reconnect, Procs: 4, Workers: 16, Quiet: 120 * time.Second},
			{Name: "co-pending", Cases: func(t rig.Tier) int { return map[rig.Tier]int{rig.Quick: 400, rig.Thorough: 6000}[t] }, Run: c10CoPending, Procs: 2, Workers: 16, Quiet: 90 * time.Second},
			{Name: "co-pending-race", Race: true, Cases: func(t rig.Tier) int { return map[rig.Tier]int{rig.Quick: 48, rig.Thorough: 600}[t] }, Run: c10CoPending, Procs: 4, Workers: 8, Quiet: 120 * time.Second},
		},
	})
}

type c10Op struct {
	kind string // sub | bind | lsub | lbind | reann
	peer int
	ent  []uint
	srv  int    // index of the local server feature (sub, bind)
	lc   int    // index of the local client feature (lsub, lbind)
	how  string // reann: "reply" (the whole detailed discovery reply once more) | "added" (partial notify lastStateChange=added for the known entity ent)
	// sub | bind | unsub | unbind with srv == c10NM: the peer's NodeManagement feature [0]/0 as client of the local
	// NodeManagement feature [0]/0; nodev: the client address of the call omits the device part
	nodev bool
}

func (o c10Op) String() string {
	switch o.kind {
	case "reann":
		if o.how == "reply" {
			return fmt.Sprintf("peer%d announces its (unchanged) tree AGAIN: second detailed discovery reply", o.peer)
		}
		return fmt.Sprintf("peer%d announces its known entity %s AGAIN: partial notify lastStateChange=added with the entity's (unchanged) features", o.peer, c06Key(o.ent))
	case "sub", "bind", "unsub", "unbind":
		if o.srv == c10NM {
			form := "with"
			if o.nodev {
				form = "WITHOUT"
			}
			return fmt.Sprintf("peer%d %s its NodeManagement feature [0]/0 -> local NodeManagement [0]/0 (client address %s device part)", o.peer, o.kind, form)
		}
		if o.srv >= c10E2 {
			return fmt.Sprintf("peer%d %s %s/%d -> server feature %d of the SECOND local entity [2]", o.peer, o.kind, c06Key(o.ent), c10E2Fid[o.srv-c10E2], o.srv-c10E2)
		}
		return fmt.Sprintf("peer%d %s %s/%d -> local server %d", o.peer, o.kind, c06Key(o.ent), o.srv+1, o.srv)
	}
	return fmt.Sprintf("local client %d %s -> peer%d %s/%d", o.lc, o.kind, o.peer, c06Key(o.ent), 7+o.lc)
}

// c10Aux is a second per-case PRNG (a pure function of seed, case index and salt) for dimensions that were added
// to existing histories later: drawing them from c.Rand would have re-dealt every history the check had.
func c10Aux(c *rig.Ctx, salt int64) *rand.Rand {
	return rand.New(rand.NewSource(c.Seed*1000003 + int64(c.Index)*7919 + salt))
}

// c10Reannounce lets p announce something it has announced before once more, with unchanged content: the whole
// detailed discovery reply (what a second discovery read of the local device is answered with), or a partial
// notify with lastStateChange=added for the known entity ent together with that entity's features. The remote
// device tree is the same afterwards (the stack may well have rebuilt its objects), so nothing a later teardown
// has to remove or to keep may depend on whether such a message was received.
func c10Reannounce(p *rig.Peer, tree []rig.FS, how string, ent []uint) {
	if how == "reply" {
		p.Announce(tree)
		return
	}
	var feats []rig.FS
	for _, f := range tree {
		if c06Key(f.Ent) == c06Key(ent) {
			feats = append(feats, f)
		}
	}
	p.NotifyDiscovery(true, p.Discovery(feats, map[string]model.NetworkManagementStateChangeType{fmt.Sprint(ent): model.NetworkManagementStateChangeTypeAdded}, nil))
}

func c10ReannHow(aux *rand.Rand) string {
	if aux.Intn(2) == 0 {
		return "reply"
	}
	return "added"
}

type c10Write struct {
	peer, srv int
	ent       []uint
	mc        model.MsgCounterType
}

type c10World struct {
	c     *rig.Ctx
	w     *rig.World
	srv   []api.FeatureLocalInterface
	cli   []api.FeatureLocalInterface
	peers []*rig.Peer
	// reference
	regs  map[string]c10Ent // registry entries that must exist
	flags map[string]c10Ent // bookkeeping flags that must be set; every flag ever set stays in flagUniverse
	univ  map[string]c10Flag
	trace []string
	log   [][]rig.Out // everything taken from the taps, per peer, with its logical sequence number
	hard  bool        // a deviation after which the reference is no longer trustworthy
	tree  []rig.FS    // what every peer announces
	reann []int       // per peer: number of re-announcements so far
	// a second local entity [2] with two server features (indexes c10E2, c10E2+1 in c10Op.srv / c10Ent.srv) that the
	// application may remove (DeviceLocal.RemoveEntity) before the teardown
	srv2      []api.FeatureLocalInterface
	e2Removed bool
	unjudged  map[string]bool // registry entries of surviving peers on features of the removed local entity: not judged either way
}

// Server features of the second local entity [2] are addressed by the peers' client features 4 and 5 (the client
// features of the same types, Setpoint and Hvac, that also address the local servers 3 and 4 of entity [1]).
const c10E2 = 100
const c10NM = 200 // the local NodeManagement feature [0]/0, addressed by the peers' NodeManagement feature [0]/0

func c10OnE2(srv int) bool { return srv >= c10E2 && srv < c10NM }

var c10E2Fid = []uint{4, 5}
var c10E2Types = []model.FeatureTypeType{model.FeatureTypeTypeSetpoint, model.FeatureTypeTypeHvac}

func (cw *c10World) sf(srv int) api.FeatureLocalInterface {
	if srv == c10NM {
		return cw.w.Local.FeatureByAddress(rig.LNM)
	}
	if srv >= c10E2 {
		return cw.srv2[srv-c10E2]
	}
	return cw.srv[srv]
}

func c10SrvType(srv int) model.FeatureTypeType {
	if srv == c10NM {
		return model.FeatureTypeTypeNodeManagement
	}
	if srv >= c10E2 {
		return c10E2Types[srv-c10E2]
	}
	return c10SrvTypes[srv]
}

func c10CliFid(srv int) uint {
	if srv == c10NM {
		return 0
	}
	if srv >= c10E2 {
		return c10E2Fid[srv-c10E2]
	}
	return uint(srv + 1)
}

// Two deviations found by this check on earlier trees keep their own narrow signatures (both are repaired
// in /repo now, so both are plain violations if they come back):
//   - a write pending approval survived the announcement that removed its entity (and binding);
//   - an approval timer that had fired while the device was being removed sent its timeout result after
//     RemoveRemoteDeviceConnection had returned. A late result in a case that took longer than the timeout
//     between arming the timers and the end of the removal is attributed to this race, a late result in a
//     faster case (where no timer can have fired yet: timers never fire early) to timers that were never stopped.
const c10SigPendingEntity = "entity-removal/pending-approval-of-removed-entity-survives"
const c10SigInFlight = "disconnect/timeout-result-of-timer-in-flight-at-removal"

// take empties the tap of peer pi into the log and returns the new datagrams.
func (cw *c10World) take(pi int) []model.DatagramType {
	outs := cw.peers[pi].Tap.TakeOut()
	cw.log[pi] = append(cw.log[pi], outs...)
	ds := make([]model.DatagramType, len(outs))
	for i, o := range outs {
		ds[i] = o.D
	}
	return ds
}

// logged returns the datagrams of peer pi logged so far, those with a sequence number above after.
func (cw *c10World) logged(pi int, after int64) []model.DatagramType {
	var ds []model.DatagramType
	for _, o := range cw.log[pi] {
		if o.Seq > after {
			ds = append(ds, o.D)
		}
	}
	return ds
}

type c10Ent struct {
	peer int
	ent  string
	kind string
	srv  int
	fid  uint
}

type c10Flag struct {
	kind   string
	lc     int
	remote *model.FeatureAddressType
	peer   int
	ent    string
}

func (cw *c10World) fail(sig, format string, a ...any) {
	if sig != c10SigPendingEntity {
		cw.hard = true // every other deviation makes the reference untrustworthy for the rest of the case
	}
	cw.c.Violate(sig, "%s\n history (last is the failing step):\n   %s", fmt.Sprintf(format, a...), strings.Join(cw.trace, "\n   "))
	cw.c.Witness(map[string]any{"history": cw.trace})
}

func (cw *c10World) regKey(kind string, peer int, ent []uint, fid uint, srv int) string {
	return fmt.Sprintf("%-4s peer%d client=%s server=%s", kind, peer, rig.FA(cw.peers[peer].Addr, ent, fid).String(), cw.sf(srv).Address().String())
}

// observed registries of all peers (also of a disconnected one: nothing of it may be left), keyed like regKey
func (cw *c10World) readRegs() map[string]int {
	m := map[string]int{}
	for i, p := range cw.peers {
		rd := p.RD
		// (the registries are read per connection; a client address that was registered before the peer's device
		// address was known may lack the device part: it is that connection's device)
		cli := func(a *model.FeatureAddressType) string {
			if a != nil && a.Device == nil {
				c := *a
				c.Device = util.Ptr(model.AddressDeviceType(p.Addr))
				return c.String()
			}
			return a.String()
		}
		for _, s := range cw.w.Local.SubscriptionManager().Subscriptions(rd) {
			m[fmt.Sprintf("%-4s peer%d client=%s server=%s", "sub", i, cli(s.ClientFeature.Address()), s.ServerFeature.Address().String())]++
		}
		for _, b := range cw.w.Local.BindingManager().Bindings(rd) {
			m[fmt.Sprintf("%-4s peer%d client=%s server=%s", "bind", i, cli(b.ClientFeature.Address()), b.ServerFeature.Address().String())]++
		}
	}
	return m
}

func (cw *c10World) flagKey(f c10Flag) string {
	if f.kind == "nmsub" {
		return fmt.Sprintf("%-5s local NodeManagement [0]/0 (the stack's own subscription at discovery) -> %s", f.kind, f.remote.String())
	}
	return fmt.Sprintf("%-5s local client %d -> %s", f.kind, f.lc, f.remote.String())
}

func (cw *c10World) readFlag(f c10Flag) bool {
	if f.kind == "nmsub" {
		return cw.w.Local.FeatureByAddress(rig.LNM).HasSubscriptionToRemote(f.remote)
	}
	if f.kind == "lsub" {
		return cw.cli[f.lc].HasSubscriptionToRemote(f.remote)
	}
	return cw.cli[f.lc].HasBindingToRemote(f.remote)
}

// compare compares registries and bookkeeping with the reference. removedPeer/removedEnt describe the
// teardown ("" = whole device) for the classification of a deviation.
func (cw *c10World) compare(when string, removedPeer int, removedEnt string) {
	got := cw.readRegs()
	for k := range cw.unjudged {
		delete(got, k)
	}
	cw.c.Events(int64(len(got) + len(cw.univ)))
	for k, e := range cw.regs {
		if got[k] != 1 {
			who := "other-peer"
			if e.peer == removedPeer {
				who = "other-entity-of-that-peer"
			}
			cw.fail(fmt.Sprintf("%s/%s-entry-of-%s-lost", when, e.kind, who), "registry entry expected but found %d times: %s", got[k], k)
		}
	}
	for k, n := range got {
		if _, ok := cw.regs[k]; !ok {
			cw.fail(fmt.Sprintf("%s/%s-entry-survives", when, strings.TrimSpace(k[:4])), "registry entry must be gone but is present %d times: %s", n, k)
		}
	}
	for k, f := range cw.univ {
		_, want := cw.flags[k]
		if g := cw.readFlag(f); g != want {
			switch {
			case g:
				cw.fail(fmt.Sprintf("%s/bookkeeping-survives", when), "%s still reported although its device/entity was removed", k)
			case f.peer == removedPeer:
				cw.fail(fmt.Sprintf("%s/bookkeeping-of-other-entity-of-that-peer-lost", when), "%s lost", k)
			default:
				cw.fail(fmt.Sprintf("%s/bookkeeping-of-other-peer-lost", when), "%s lost", k)
			}
		}
	}
}

// exec runs one history operation and checks that it is granted.
func (cw *c10World) exec(o c10Op, phase string) {
	p := cw.peers[o.peer]
	cw.trace = append(cw.trace, o.String())
	switch o.kind {
	case "reann":
		c10Reannounce(p, cw.tree, o.how, o.ent)
		cw.reann[o.peer]++
		cw.take(o.peer)
		if n := p.PanicCount(); n > 0 {
			cw.fail(phase+"/panic", "panic while handling a repeated announcement: %v", p.Panics)
		}
	case "unsub", "unbind":
		fid := c10CliFid(o.srv)
		ca, sa := rig.FA(p.Addr, o.ent, fid), cw.sf(o.srv).Address()
		if o.nodev {
			ca = rig.FA("", o.ent, fid)
		}
		cw.take(o.peer)
		var mc model.MsgCounterType
		if o.kind == "unsub" {
			mc = p.Unsubscribe(ca, sa)
		} else {
			mc = p.Unbind(ca, sa)
		}
		res := rig.Classify(cw.take(o.peer), mc)
		cw.c.Events(1)
		if res.Success != 1 || res.Errors != 0 {
			cw.fail(fmt.Sprintf("%s/%s-of-own-entry-not-granted", phase, o.kind), "%s: %s", o, res)
			return
		}
		delete(cw.regs, cw.regKey(strings.TrimPrefix(o.kind, "un"), o.peer, o.ent, fid, o.srv))
	case "sub", "bind":
		fid := c10CliFid(o.srv)
		ca, sa := rig.FA(p.Addr, o.ent, fid), cw.sf(o.srv).Address()
		if o.nodev {
			ca = rig.FA("", o.ent, fid)
		}
		cw.take(o.peer)
		var mc model.MsgCounterType
		if o.kind == "sub" {
			mc = p.Subscribe(ca, sa, c10SrvType(o.srv))
		} else {
			mc = p.Bind(ca, sa, c10SrvType(o.srv))
		}
		res := rig.Classify(cw.take(o.peer), mc)
		cw.c.Events(1)
		if res.Success != 1 || res.Errors != 0 {
			cw.fail(fmt.Sprintf("%s/%s-not-granted", phase, o.kind), "%s: %s", o, res)
			return
		}
		cw.regs[cw.regKey(o.kind, o.peer, o.ent, fid, o.srv)] = c10Ent{peer: o.peer, ent: c06Key(o.ent), kind: o.kind, srv: o.srv, fid: fid}
	default:
		ra := rig.FA(p.Addr, o.ent, uint(7+o.lc))
		var err *model.ErrorType
		if o.kind == "lsub" {
			_, err = cw.cli[o.lc].SubscribeToRemote(ra)
		} else {
			_, err = cw.cli[o.lc].BindToRemote(ra)
		}
		if err != nil {
			cw.fail(fmt.Sprintf("%s/%s-failed", phase, o.kind), "%s: %s", o, err.String())
			return
		}
		f := c10Flag{kind: o.kind, lc: o.lc, remote: ra, peer: o.peer, ent: c06Key(o.ent)}
		cw.univ[cw.flagKey(f)] = f
		cw.flags[cw.flagKey(f)] = c10Ent{peer: o.peer, ent: c06Key(o.ent)}
	}
}

func c10Case(c *rig.Ctx) {
	r := c.Rand
	w := rig.NewWorld(c.Tag())
	defer w.Close()
	cw := &c10World{c: c, w: w, regs: map[string]c10Ent{}, flags: map[string]c10Ent{}, univ: map[string]c10Flag{}}

	// ---- local device
	e := w.AddEntity(model.EntityTypeTypeCEM, []uint{1}, 4*time.Second)
	writeFn := make([]rig.FnInfo, len(c10SrvTypes))
	var approveMu sync.Mutex
	approved := 0
	captured := map[model.MsgCounterType]*api.Message{} // what the silent callbacks were handed (peers use disjoint counters)
	for i, t := range c10SrvTypes {
		f := e.GetOrAddFeature(t, model.RoleTypeServer)
		fns := c06FnsOf(t)
		writeFn[i] = fns[len(fns)-1]
		for _, fn := range fns {
			f.AddFunctionType(fn.Fn, true, true)
		}
		if i < 3 {
			f.SetWriteApprovalTimeout(c10Timeout)
			if i == 1 {
				// a second callback that approves: the write stays pending (approval is not unanimous) and
				// the stack additionally remembers one received approval for it
				ff := f
				_ = f.AddWriteApprovalCallback(func(m *api.Message) {
					ff.ApproveOrDenyWrite(m, model.ErrorType{ErrorNumber: 0})
					approveMu.Lock()
					approved++
					approveMu.Unlock()
				})
			}
			_ = f.AddWriteApprovalCallback(func(m *api.Message) { // stays silent, only remembers what it was asked
				approveMu.Lock()
				if m != nil && m.RequestHeader != nil && m.RequestHeader.MsgCounter != nil {
					captured[*m.RequestHeader.MsgCounter] = m
				}
				approveMu.Unlock()
			})
		}
		cw.srv = append(cw.srv, f)
	}
	for _, t := range c10CliTypes {
		cw.cli = append(cw.cli, e.GetOrAddFeature(t, model.RoleTypeClient))
	}
	// a second local entity [2] with two server features (no approval callbacks): the application may remove it
	// before the teardown, so that the server feature of a registry entry no longer resolves when the entry is removed
	e2 := w.AddEntity(model.EntityTypeTypeHeatPumpAppliance, []uint{2}, 4*time.Second)
	e2Addr := map[string]bool{}
	for _, t := range c10E2Types {
		f := e2.GetOrAddFeature(t, model.RoleTypeServer)
		for _, fn := range c06FnsOf(t) {
			f.AddFunctionType(fn.Fn, true, true)
		}
		cw.srv2 = append(cw.srv2, f)
		e2Addr[f.Address().String()] = true
	}
	cw.unjudged = map[string]bool{}

	// ---- peers with identical trees
	var tree []rig.FS
	tree = append(tree, rig.NMFS)
	for _, ea := range c10Ents {
		for i, t := range c10SrvTypes {
			tree = append(tree, rig.FS{Ent: ea, Id: uint(i + 1), Typ: t, Role: model.RoleTypeClient})
		}
		for i, t := range c10CliTypes {
			tree = append(tree, rig.FS{Ent: ea, Id: uint(7 + i), Typ: t, Role: model.RoleTypeServer})
		}
	}
	cw.tree, cw.reann = tree, make([]int, 3)
	// early registrations (fourth PRNG), in half of the cases: a peer subscribes (two peers in three) and binds (the first
	// that draws it: a server feature has one binding) with its NodeManagement feature [0]/0 to the local NodeManagement
	// feature BEFORE its detailed discovery reply has been processed - both sides read the discovery data at once, the
	// peer got its answer first. The local device does not know the peer's device address at that time. The entries are
	// entries of that connection like any other: they disappear with it, one removal event each, and they stay when
	// another entity of the peer is removed.
	aux3 := c10Aux(c, 30)
	early := aux3.Intn(2) == 0
	aux6 := c10Aux(c, 60)
	nmLate := aux6.Intn(2) == 0
	nmLateSubs := 0
	var earlyOps, earlyUndo []c10Op
	for i := 0; i < 3; i++ {
		p := w.AddPeer(i)
		p.Ctr = uint64(i+1) * 100000
		cw.peers = append(cw.peers, p)
		cw.log = append(cw.log, nil)
		if early {
			bound := false
			for _, o := range earlyOps {
				bound = bound || o.kind == "bind"
			}
			var mine []c10Op
			if aux3.Intn(3) > 0 {
				mine = append(mine, c10Op{kind: "sub", peer: i, ent: []uint{0}, srv: c10NM, nodev: aux3.Intn(2) == 0})
			}
			if !bound && aux3.Intn(3) == 0 {
				mine = append(mine, c10Op{kind: "bind", peer: i, ent: []uint{0}, srv: c10NM, nodev: aux3.Intn(2) == 0})
			}
			for _, o := range mine {
				cw.exec(o, "before-discovery-reply")
				earlyOps = append(earlyOps, o)
				if aux3.Intn(4) == 0 { // given up again somewhere in the history, with either form of the client address
					earlyUndo = append(earlyUndo, c10Op{kind: "un" + o.kind, peer: i, ent: []uint{0}, srv: c10NM, nodev: aux3.Intn(2) == 0})
				}
			}
			cw.trace = append(cw.trace, fmt.Sprintf("peer%d: detailed discovery reply", i))
		}
		p.Announce(tree)
		p.Tap.Take()
		cw.log[i] = nil
		// the stack itself subscribes its NodeManagement feature to the peer's when the discovery reply arrives: client-side
		// bookkeeping that refers to that DEVICE (gone with the connection, kept when one of its entities is removed)
		if f := (c10Flag{kind: "nmsub", lc: -1, remote: p.NM(), peer: i, ent: "[0]"}); cw.readFlag(f) {
			cw.univ[cw.flagKey(f)] = f
			cw.flags[cw.flagKey(f)] = c10Ent{peer: i, ent: "[0]"}
		} else {
			c.Count("peers_the_stack_did_not_subscribe_its_NodeManagement_feature_to", 1)
		}
		// cases without early registrations, every second of them (sixth PRNG): two peers in three subscribe their
		// NodeManagement feature to the local one the ordinary way, after discovery
		if !early && nmLate && aux6.Intn(3) > 0 {
			cw.exec(c10Op{kind: "sub", peer: i, ent: []uint{0}, srv: c10NM}, "setup")
			nmLateSubs++
			p.Tap.Take()
			cw.log[i] = nil
		}
	}
	if cw.hard {
		return
	}
	// in half of the cases with early registrations two more connections exist whose discovery never completes within
	// the case (the local device never learns their device address); each subscribes its NodeManagement feature to the
	// local one. One of them is dropped after the main teardown: the other keeps its subscription.
	var Z []*rig.Peer
	if early && aux3.Intn(2) == 0 {
		for i := 3; i < 5; i++ {
			z := w.AddPeer(i)
			z.Ctr = uint64(i+1) * 100000
			dev := z.Addr
			if aux3.Intn(2) == 0 {
				dev = ""
			}
			mc := z.Subscribe(rig.FA(dev, []uint{0}, 0), rig.LNM, model.FeatureTypeTypeNodeManagement)
			if res := rig.Classify(z.Tap.Take(), mc); res.Success != 1 || res.Errors != 0 {
				cw.fail("before-discovery-reply/sub-not-granted", "peer%d (discovery not completed) subscribes its NodeManagement feature to the local one: %s", i, res)
				return
			}
			cw.trace = append(cw.trace, fmt.Sprintf("peer%d connects, subscribes its NodeManagement feature [0]/0 -> local NodeManagement [0]/0 (client address device part %q) and never sends its discovery reply", i, dev))
			Z = append(Z, z)
		}
	}
	w.Core.Take()
	baseline := runtime.NumGoroutine()
	aux := c10Aux(c, 10)

	// ---- history
	var ops []c10Op
	for pi := range cw.peers {
		for _, ea := range c10Ents {
			for s := range cw.srv {
				if r.Intn(10) < 3 {
					ops = append(ops, c10Op{kind: "sub", peer: pi, ent: ea, srv: s})
				}
			}
			for l := range cw.cli {
				if r.Intn(2) == 0 {
					ops = append(ops, c10Op{kind: "lsub", peer: pi, ent: ea, lc: l})
				}
				if r.Intn(2) == 0 {
					ops = append(ops, c10Op{kind: "lbind", peer: pi, ent: ea, lc: l})
				}
			}
		}
	}
	holder := make([]int, len(cw.srv)) // -1 = never bound in the history
	for s := range cw.srv {
		holder[s] = r.Intn(4) - 1
		if r.Intn(10) < 6 {
			holder[s] = s % 3
		}
		if holder[s] >= 0 {
			ops = append(ops, c10Op{kind: "bind", peer: holder[s], ent: c10Ents[r.Intn(len(c10Ents))], srv: s})
		}
	}
	r.Shuffle(len(ops), func(i, j int) { ops[i], ops[j] = ops[j], ops[i] })
	cut := len(ops)/3 + r.Intn(len(ops)-len(ops)/3+1)
	// repeated announcements (second PRNG): every peer, with probability 1/2, announces its unchanged tree or one of
	// its known entities once more somewhere in the history; in a quarter of the cases a random set of peers does so
	// right before the cut (after everything it has subscribed and bound)
	for pi := range cw.peers {
		if aux.Intn(2) == 0 {
			at := aux.Intn(len(ops) + 1)
			o := c10Op{kind: "reann", peer: pi, how: c10ReannHow(aux), ent: c10Ents[aux.Intn(len(c10Ents))]}
			ops = append(ops[:at], append([]c10Op{o}, ops[at:]...)...)
			if at < cut {
				cut++
			}
		}
	}
	if aux.Intn(4) == 0 {
		for pi := range cw.peers {
			if aux.Intn(2) == 0 {
				o := c10Op{kind: "reann", peer: pi, how: c10ReannHow(aux), ent: c10Ents[aux.Intn(len(c10Ents))]}
				ops = append(ops[:cut], append([]c10Op{o}, ops[cut:]...)...)
				cut++
			}
		}
	}
	// entries on the second local entity (third PRNG): in half of the cases every peer subscribes from random entities
	// to its two server features (about 2 subscriptions per peer) and each of the two is bound by a random peer or by
	// nobody; all of that before the cut
	aux2 := c10Aux(c, 20)
	useE2 := aux2.Intn(2) == 0
	if useE2 {
		var extra []c10Op
		for pi := range cw.peers {
			for _, ea := range c10Ents {
				for s2 := range cw.srv2 {
					if aux2.Intn(10) < 3 {
						extra = append(extra, c10Op{kind: "sub", peer: pi, ent: ea, srv: c10E2 + s2})
					}
				}
			}
		}
		for s2 := range cw.srv2 {
			if h := aux2.Intn(4) - 1; h >= 0 {
				extra = append(extra, c10Op{kind: "bind", peer: h, ent: c10Ents[aux2.Intn(len(c10Ents))], srv: c10E2 + s2})
			}
		}
		for _, o := range extra {
			at := aux2.Intn(cut + 1)
			ops = append(ops[:at], append([]c10Op{o}, ops[at:]...)...)
			cut++
		}
	}
	for _, o := range earlyUndo {
		at := aux3.Intn(cut + 1)
		ops = append(ops[:at], append([]c10Op{o}, ops[at:]...)...)
		cut++
	}
	boundWhenReannounced := make([]int, 3) // bindings a peer held when it (last) announced itself again
	for _, o := range ops[:cut] {
		cw.exec(o, "setup")
		if o.kind == "reann" {
			boundWhenReannounced[o.peer] = 0
			for _, en := range cw.regs {
				if en.kind == "bind" && en.peer == o.peer {
					boundWhenReannounced[o.peer]++
				}
			}
		}
	}
	if cw.hard {
		return
	}

	// ---- writes pending approval, sent immediately before the teardown
	boundBy := func(pi int, approvalOnly bool) []c10Ent {
		var bs []c10Ent
		var ks []string
		for k := range cw.regs {
			ks = append(ks, k)
		}
		sort.Strings(ks)
		for _, k := range ks {
			if en := cw.regs[k]; en.kind == "bind" && en.peer == pi && en.srv < c10E2 && (en.srv < 3) == approvalOnly {
				bs = append(bs, en)
			}
		}
		return bs
	}
	entOf := func(k string) []uint {
		for _, ea := range c10Ents {
			if c06Key(ea) == k {
				return ea
			}
		}
		return nil
	}
	var writes []c10Write
	wantApproved := 0
	tWrites := time.Now() // no approval timer is armed before this moment
	for pi, p := range cw.peers {
		bs := boundBy(pi, true)
		if len(bs) == 0 {
			continue
		}
		for n := r.Intn(3); n > 0; n-- {
			b := bs[r.Intn(len(bs))]
			fn := writeFn[b.srv]
			mc := p.Send(model.CmdClassifierTypeWrite, rig.FA(p.Addr, entOf(b.ent), b.fid), cw.srv[b.srv].Address(), true, nil, rig.CmdFor(fn.Fn, reflect.New(fn.T).Interface()))
			writes = append(writes, c10Write{peer: pi, srv: b.srv, ent: entOf(b.ent), mc: mc})
			cw.trace = append(cw.trace, fmt.Sprintf("peer%d writes %s from %s/%d to local server %d: left pending approval (counter %d)", pi, fn.Fn, b.ent, b.fid, b.srv, mc))
			if b.srv == 1 {
				wantApproved++
			}
		}
	}
	// the approving callback runs on a goroutine of the stack: wait until it has been counted
	if !rig.WaitFor(10*time.Second, func() bool {
		approveMu.Lock()
		defer approveMu.Unlock()
		return approved >= wantApproved && len(captured) >= len(writes)
	}) {
		c.Inconclusive("approval callbacks were not invoked within 10s")
		return
	}
	pendingOf := func(pi int) (pend, recv int) {
		for s := 0; s < 3; s++ {
			pm, rm := cw.srv[s].(*spine.FeatureLocal).VerifApprovalState()
			pend += pm[cw.peers[pi].Ski]
			recv += rm[cw.peers[pi].Ski]
		}
		return
	}
	recvBefore := make([]int, 3)
	nWrites := make([]int, 3)
	for _, wr := range writes {
		nWrites[wr.peer]++
	}
	for pi := range cw.peers {
		_, recvBefore[pi] = pendingOf(pi)
	}

	// ---- choose the teardown
	x := r.Intn(3)
	if r.Intn(3) > 0 { // prefer a peer with pending writes
		var cand []int
		for pi := range cw.peers {
			if nWrites[pi] > 0 {
				cand = append(cand, pi)
			}
		}
		if len(cand) > 0 {
			x = cand[r.Intn(len(cand))]
		}
	}
	X := cw.peers[x]
	reannX := cw.reann[x] > 0 // the victim announced itself again before its teardown
	kind := []string{"disconnect", "remove[1]", "remove[1,1]"}[r.Intn(3)]
	remEnt := map[string]string{"disconnect": "", "remove[1]": "[1]", "remove[1,1]": "[1,1]"}[kind]
	conc := r.Intn(3) == 0 || c.Race
	// ---- how the removal is announced (fifth PRNG):
	//   remForm   "partial": partial notify, entity address with device part (what every case used to do) |
	//             "partial-nodev": partial notify whose entityAddress has NO device part (what devices in the field send) |
	//             "full": a notify WITHOUT filter that restates the device's whole tree and simply omits the removed entities;
	//   extraRem  one or two FURTHER entities of the victim removed by the same datagram (a third of the entity removals);
	//   mixed     (partial forms, half of them) the same notify also lists one or two entities that still exist, with
	//             lastStateChange modified / added (the known entity announced again with its unchanged features) / absent
	//             (absent only behind the removed ones), before, between or behind the removed ones.
	// The statement: all and ONLY what refers to an entity announced as removed disappears; the entities listed in another
	// state keep everything and continue to be served.
	aux5 := c10Aux(c, 50)
	type c10Listed struct {
		ent   []uint
		state string // removed | modified | added | none
		feats bool   // modified: the entity's features are listed as well
	}
	extraRem := map[string]bool{}
	remForm := "partial"
	var listed []c10Listed
	nMixed := 0
	if kind != "disconnect" {
		switch aux5.Intn(4) {
		case 0:
			remForm = "partial-nodev"
		case 1:
			remForm = "full"
		}
		var rest [][]uint
		for _, i := range aux5.Perm(len(c10Ents)) {
			if c06Key(c10Ents[i]) != remEnt {
				rest = append(rest, c10Ents[i])
			}
		}
		if aux5.Intn(3) == 0 {
			n := 1 + aux5.Intn(2)
			for _, ea := range rest[:n] {
				extraRem[c06Key(ea)] = true
			}
			rest = rest[n:]
		}
		listed = append(listed, c10Listed{ent: [][]uint{{1}, {1, 1}}[map[string]int{"[1]": 0, "[1,1]": 1}[remEnt]], state: "removed"})
		for _, ea := range c10Ents {
			if extraRem[c06Key(ea)] {
				listed = append(listed, c10Listed{ent: ea, state: "removed"})
			}
		}
		if remForm != "full" && len(rest) > 0 && aux5.Intn(2) == 0 {
			for _, ea := range rest[:1+aux5.Intn(len(rest))] {
				listed = append(listed, c10Listed{ent: ea, state: []string{"modified", "added", "none"}[aux5.Intn(3)], feats: aux5.Intn(2) == 0})
				nMixed++
			}
		}
		aux5.Shuffle(len(listed), func(i, j int) { listed[i], listed[j] = listed[j], listed[i] })
		// an entity without lastStateChange only behind everything else (whether a notify is to be processed up to, or
		// beyond, an entry without state change is not decided by the statement)
		sort.SliceStable(listed, func(i, j int) bool { return listed[i].state != "none" && listed[j].state == "none" })
	}
	isRem := func(ent string) bool { return ent == remEnt || extraRem[ent] }
	hit := func(en c10Ent) bool { return en.peer == x && (remEnt == "" || isRem(en.ent)) }

	// ---- what the application / the victim does right before the teardown (third PRNG), so that a feature of a
	// registry entry no longer resolves when the teardown removes the entry:
	//   preLocal   the application removes the second local entity (DeviceLocal.RemoveEntity): the SERVER feature of
	//              every entry on its two features is no longer part of the local device;
	//   preShrink  the victim announces one of its entities (one that the teardown is going to remove) AGAIN with a
	//              feature list that lacks some of its client features: the CLIENT feature of every entry of those is no
	//              longer part of the remote entity.
	// The statement: all and only the victim's entries disappear and a removal event is published for EACH of them.
	// An event for such an entry cannot name the feature that no longer resolves, so events are matched per entry on
	// what an event of the unchanged features would carry, with the unresolvable part as a wildcard.
	preLocal := useE2 && aux2.Intn(2) == 0
	preShrink := aux2.Intn(3) == 0
	shrinkEnt := entOf(remEnt)
	if kind == "disconnect" {
		shrinkEnt = c10Ents[aux2.Intn(len(c10Ents))]
	}
	shrinkHow := c10ReannHow(aux2)
	droppedFid := map[uint]bool{}
	if preShrink {
		var held []uint // client features of that entity of the victim that hold entries
		seenF := map[uint]bool{}
		var ks []string
		for k := range cw.regs {
			ks = append(ks, k)
		}
		sort.Strings(ks)
		for _, k := range ks {
			if en := cw.regs[k]; en.peer == x && en.ent == c06Key(shrinkEnt) && !seenF[en.fid] {
				seenF[en.fid] = true
				held = append(held, en.fid)
			}
		}
		for _, f := range held { // every feature holding entries with probability 2/3, at least one of them
			if aux2.Intn(3) > 0 {
				droppedFid[f] = true
			}
		}
		if len(held) > 0 && len(droppedFid) == 0 {
			droppedFid[held[aux2.Intn(len(held))]] = true
		}
		if f := uint(1 + aux2.Intn(len(c10SrvTypes))); aux2.Intn(2) == 0 { // and possibly one without entries
			droppedFid[f] = true
		}
		if len(droppedFid) == 0 {
			preShrink = false
		}
	}
	evKey := func(name, change, ent string, fid int, local string) string {
		f := fmt.Sprint(fid)
		if preShrink && ent == c06Key(shrinkEnt) && (fid < 0 || droppedFid[uint(fid)]) {
			f = "(one the entity no longer announces)"
		}
		if preLocal && (local == "?" || e2Addr[local]) {
			local = "(one of the removed local entity)"
		}
		return fmt.Sprintf("%s/%s ent=%s feature=%s local=%s", name, change, ent, f, local)
	}
	wantEv := map[string]int{}
	nRegs, nFlags, nTwins := 0, 0, 0
	nLocalGone, nClientGone := 0, 0 // entries of the victim whose server resp. client feature will not resolve at the teardown
	xSubSrv := map[int]bool{} // local server features the victim's removed entries subscribe to
	for k, en := range cw.regs {
		if hit(en) && en.kind == "sub" {
			xSubSrv[en.srv] = true
		}
		if hit(en) {
			wantEv[evKey(map[string]string{"sub": "Subscription", "bind": "Binding"}[en.kind], "remove", en.ent, int(en.fid), cw.sf(en.srv).Address().String())]++
			delete(cw.regs, k)
			nRegs++
			if preLocal && c10OnE2(en.srv) {
				nLocalGone++
			}
			if preShrink && en.ent == c06Key(shrinkEnt) && droppedFid[en.fid] {
				nClientGone++
			}
		}
	}
	for _, en := range cw.regs { // same numbers on another peer
		if en.peer != x && (remEnt == "" || isRem(en.ent)) {
			nTwins++
		}
	}
	for k, en := range cw.flags {
		if hit(en) {
			delete(cw.flags, k)
			nFlags++
		}
	}
	if kind == "disconnect" {
		wantEv["Device/remove"] = 1
	} else {
		wantEv["Entity/remove ent="+remEnt] = 1
		for k := range extraRem {
			wantEv["Entity/remove ent="+k] = 1
		}
	}
	var wX, wXent, wOther []c10Write // writes of X, of the removed entity of X, of everybody else
	for _, wr := range writes {
		switch {
		case wr.peer == x && (remEnt == "" || isRem(c06Key(wr.ent))):
			wXent = append(wXent, wr)
			wX = append(wX, wr)
		case wr.peer == x:
			wX = append(wX, wr)
			wOther = append(wOther, wr)
		default:
			wOther = append(wOther, wr)
		}
	}

	// ---- messages of another peer processed concurrently
	y := (x + 1 + r.Intn(2)) % 3
	Y := cw.peers[y]
	type yop struct {
		desc string
		run  func() (model.MsgCounterType, string) // returns counter and the response class expected
		post func()
	}
	var yops []yop
	// what else overlaps the teardown (fifth PRNG, every second concurrent case): the application lets its client
	// features subscribe / bind to server features of the OTHER peer y (a burst of calls; every flag must be set
	// afterwards, whatever the clean-up of x's flags does at the same time), and y sends a write that needs approval to
	// a server feature it holds a binding on (only features with ONE, silent, callback), which the application then
	// approves at once (1 in 2) or leaves to its timeout: exactly one outcome, the success if the verdict was in before
	// the timeout can have passed.
	type c10YWrite struct {
		mc       model.MsgCounterType
		srv      int
		verdict  bool
		inTime   bool
		approved bool
		sent     time.Time
	}
	var yWrites []*c10YWrite
	var yMu sync.Mutex
	var localCalls []func()
	var localDescs []string
	atCleanup := make(chan struct{})
	var atCleanupOnce sync.Once
	var tornDown atomic.Bool
	var repeatedLocal atomic.Int64
	overlapMore := conc && aux5.Intn(2) == 0
	if overlapMore {
		for n := 6 + aux5.Intn(20); n > 0; n-- {
			ea := c10Ents[aux5.Intn(len(c10Ents))]
			l := aux5.Intn(len(cw.cli))
			kd := []string{"lsub", "lbind"}[aux5.Intn(2)]
			ra := rig.FA(Y.Addr, ea, uint(7+l))
			f := c10Flag{kind: kd, lc: l, remote: ra, peer: y, ent: c06Key(ea)}
			cw.univ[cw.flagKey(f)] = f
			cw.flags[cw.flagKey(f)] = c10Ent{peer: y, ent: c06Key(ea)}
			call := func() {
				if kd == "lsub" {
					_, _ = cw.cli[l].SubscribeToRemote(ra)
				} else {
					_, _ = cw.cli[l].BindToRemote(ra)
				}
			}
			localCalls = append(localCalls, call)
			localDescs = append(localDescs, fmt.Sprintf("local client %d %s -> peer%d %s/%d", l, kd, y, c06Key(ea), 7+l))
		}
		var bs []c10Ent
		for _, b := range boundBy(y, true) {
			if b.srv != 1 { // server 1 has a second, approving callback: its received-approval records are judged elsewhere
				bs = append(bs, b)
			}
		}
		for n := aux5.Intn(3); n > 0 && len(bs) > 0; n-- {
			b := bs[aux5.Intn(len(bs))]
			fn := writeFn[b.srv]
			yw := &c10YWrite{srv: b.srv, verdict: aux5.Intn(2) == 0}
			if xSubSrv[b.srv] {
				yw.verdict = false // an applied write would fan out to the peer that is being removed (see the assumptions)
			}
			yWrites = append(yWrites, yw)
			yops = append(yops, yop{desc: fmt.Sprintf("peer%d writes %s from %s/%d to local server %d (needs approval; the application approves at once: %v)", y, fn.Fn, b.ent, b.fid, b.srv, yw.verdict), run: func() (model.MsgCounterType, string) {
				sent := time.Now()
				mc := Y.Send(model.CmdClassifierTypeWrite, rig.FA(Y.Addr, entOf(b.ent), b.fid), cw.srv[b.srv].Address(), true, nil, rig.CmdFor(fn.Fn, reflect.New(fn.T).Interface()))
				yMu.Lock()
				yw.mc, yw.sent = mc, sent
				yMu.Unlock()
				if yw.verdict {
					var m *api.Message
					rig.WaitFor(5*time.Second, func() bool {
						approveMu.Lock()
						defer approveMu.Unlock()
						m = captured[mc]
						return m != nil
					})
					if m != nil {
						cw.srv[b.srv].ApproveOrDenyWrite(m, model.ErrorType{ErrorNumber: 0})
						in := time.Since(sent) < c10Timeout // timers never fire early
						yMu.Lock()
						yw.approved, yw.inTime = true, in
						yMu.Unlock()
					}
				}
				return 0, ""
			}})
		}
		aux5.Shuffle(len(yops), func(i, j int) { yops[i], yops[j] = yops[j], yops[i] })
	}
	if conc {
		for n := 3 + r.Intn(4); n > 0; n-- {
			ea := c10Ents[r.Intn(len(c10Ents))]
			s := r.Intn(len(cw.srv))
			fid := uint(s + 1)
			ca, sa := rig.FA(Y.Addr, ea, fid), cw.srv[s].Address()
			key := cw.regKey("sub", y, ea, fid, s)
			_, have := cw.regs[key]
			switch op := r.Intn(4); {
			case op == 0:
				fn := c06FnsOf(c10SrvTypes[s])[0]
				yops = append(yops, yop{desc: fmt.Sprintf("peer%d reads %s of local server %d", y, fn.Fn, s), run: func() (model.MsgCounterType, string) {
					return Y.Send(model.CmdClassifierTypeRead, ca, sa, false, nil, rig.CmdFor(fn.Fn, reflect.New(fn.T).Interface())), "reply=1 ok=0 err=0"
				}})
			case op == 1 && !have:
				cw.regs[key] = c10Ent{peer: y, ent: c06Key(ea), kind: "sub", srv: s, fid: fid}
				yops = append(yops, yop{desc: fmt.Sprintf("peer%d subscribes %s/%d -> local server %d", y, c06Key(ea), fid, s), run: func() (model.MsgCounterType, string) {
					return Y.Subscribe(ca, sa, c10SrvTypes[s]), "reply=0 ok=1 err=0"
				}})
			case op == 2 && have:
				delete(cw.regs, key)
				yops = append(yops, yop{desc: fmt.Sprintf("peer%d unsubscribes %s/%d from local server %d", y, c06Key(ea), fid, s), run: func() (model.MsgCounterType, string) {
					return Y.Unsubscribe(ca, sa), "reply=0 ok=1 err=0"
				}})
			case op == 3:
				// bind a server feature nobody holds and nobody is going to bind later
				free := true
				for _, en := range cw.regs {
					if en.kind == "bind" && en.srv == s {
						free = false
					}
				}
				for _, o := range ops[cut:] {
					if o.kind == "bind" && o.srv == s {
						free = false
					}
				}
				if free && holder[s] != x {
					cw.regs[cw.regKey("bind", y, ea, fid, s)] = c10Ent{peer: y, ent: c06Key(ea), kind: "bind", srv: s, fid: fid}
					yops = append(yops, yop{desc: fmt.Sprintf("peer%d binds %s/%d -> local server %d", y, c06Key(ea), fid, s), run: func() (model.MsgCounterType, string) {
						return Y.Bind(ca, sa, c10SrvTypes[s]), "reply=0 ok=1 err=0"
					}})
				}
			}
		}
	}

	// ---- teardown
	// an entity removal may come in one notify together with the removal of an entity the local device does not
	// know (never announced): that entry is to be skipped, the known entity is to be removed all the same
	removedList := [][]uint{entOf(remEnt)}
	unknownPos := ""
	if kind != "disconnect" {
		switch aux.Intn(4) {
		case 0:
			removedList, unknownPos = [][]uint{{9}, entOf(remEnt)}, "before"
		case 1:
			removedList, unknownPos = [][]uint{entOf(remEnt), {9}}, "after"
		}
	}
	if remForm == "full" {
		unknownPos = ""
	}
	_ = removedList // (the datagram is assembled below)
	cw.trace = append(cw.trace, fmt.Sprintf("TEARDOWN peer%d %s (concurrent messages of peer%d: %d)", x, kind, y, len(yops)))
	var tearData *model.NodeManagementDetailedDiscoveryDataType
	if kind != "disconnect" {
		featsOf := func(ea []uint) []model.NodeManagementDetailedDiscoveryFeatureInformationType {
			var fs []rig.FS
			for _, f := range cw.tree {
				if c06Key(f.Ent) == c06Key(ea) {
					fs = append(fs, f)
				}
			}
			return X.Discovery(fs, nil, nil).FeatureInformation
		}
		var how []string
		if remForm == "full" {
			var fs []rig.FS
			for _, f := range cw.tree {
				if !isRem(c06Key(f.Ent)) {
					fs = append(fs, f)
				}
			}
			tearData = X.Discovery(fs, nil, nil)
			how = append(how, "a notify WITHOUT filter restates the whole tree of the device and omits the entities")
			for _, l := range listed {
				how = append(how, c06Key(l.ent))
			}
		} else {
			tearData = X.Discovery(nil, nil, nil)
			dev := X.Addr
			if remForm == "partial-nodev" {
				dev = ""
				how = append(how, "partial notify, entity addresses WITHOUT device part, entityInformation in this order:")
			} else {
				how = append(how, "partial notify, entityInformation in this order:")
			}
			add := func(l c10Listed) {
				d := &model.NetworkManagementEntityDescriptionDataType{EntityAddress: rig.EA(dev, l.ent)}
				switch l.state {
				case "removed":
					d.LastStateChange = util.Ptr(model.NetworkManagementStateChangeTypeRemoved)
				case "modified":
					d.LastStateChange = util.Ptr(model.NetworkManagementStateChangeTypeModified)
				case "added":
					d.LastStateChange = util.Ptr(model.NetworkManagementStateChangeTypeAdded)
					d.EntityAddress = rig.EA(X.Addr, l.ent)
				}
				if l.state != "removed" {
					et := rig.EntityTypeFor(l.ent)
					d.EntityType = &et
					d.Description = util.Ptr(model.DescriptionType("entity " + fmt.Sprint(l.ent)))
					if l.state == "added" || l.feats {
						tearData.FeatureInformation = append(tearData.FeatureInformation, featsOf(l.ent)...)
					}
				}
				tearData.EntityInformation = append(tearData.EntityInformation, model.NodeManagementDetailedDiscoveryEntityInformationType{Description: d})
				st := l.state
				if st == "none" {
					st = "no lastStateChange"
				}
				if l.state != "removed" && (l.state == "added" || l.feats) {
					st += " with its (unchanged) features"
				}
				how = append(how, fmt.Sprintf("%s %s;", c06Key(l.ent), st))
			}
			if unknownPos == "before" {
				add(c10Listed{ent: []uint{9}, state: "removed"})
			}
			for _, l := range listed {
				add(l)
			}
			if unknownPos == "after" {
				// (still in front of an entity without lastStateChange)
				add(c10Listed{ent: []uint{9}, state: "removed"})
				ei := tearData.EntityInformation
				for i := len(ei) - 1; i > 0 && ei[i-1].Description.LastStateChange == nil; i-- {
					ei[i], ei[i-1] = ei[i-1], ei[i]
				}
			}
		}
		cw.trace = append(cw.trace, "  "+strings.Join(how, " "))
		c.Count("entity_removals_announced_as:"+remForm, 1)
		c.Count(fmt.Sprintf("entity_removals_of_%d_entities_in_one_datagram", 1+len(extraRem)), 1)
		for _, l := range listed {
			if l.state != "removed" {
				c.Count("removal_notifies_that_also_list_a_still_existing_entity_as:"+l.state, 1)
			}
		}
	}
	if unknownPos != "" {
		cw.trace = append(cw.trace, fmt.Sprintf("  the removal notify also lists the never announced entity [9] as removed, %s the known one", unknownPos))
		c.Count("removal_notifies_listing_an_unknown_entity_"+unknownPos+"_the_known_one", 1)
	}
	for pi := range cw.peers {
		cw.take(pi) // results of the setup; the pending writes have not been answered unless their timer fired already
	}
	w.Core.Take()
	// (events published from here on are judged: should the stack ever drop the entries at these calls already, their
	// removal events count all the same)
	if preLocal {
		cw.trace = append(cw.trace[:len(cw.trace)-1], fmt.Sprintf("the application removes the second local entity [2] (DeviceLocal.RemoveEntity); peer%d holds %d entries on its server features", x, nLocalGone), cw.trace[len(cw.trace)-1])
		okR, pan := rig.Guard(30*time.Second, func() { w.Local.RemoveEntity(e2) })
		if pan != "" {
			cw.fail(kind+"/panic", "DeviceLocal.RemoveEntity of the second local entity: %s", pan)
			return
		}
		if !okR {
			c.Inconclusive("DeviceLocal.RemoveEntity did not return within 30s")
			return
		}
		cw.e2Removed = true
		// whether the entries of the SURVIVING peers on the removed entity's features stay is outside the statement
		for k, en := range cw.regs {
			if c10OnE2(en.srv) {
				cw.unjudged[k] = true
				delete(cw.regs, k)
			}
		}
		c.Count("teardowns_after_the_application_removed_a_local_entity", 1)
		if nLocalGone > 0 {
			c.Count("teardowns_after_the_application_removed_a_local_entity_on_which_the_victim_held_entries", 1)
			c.Count("entries_removed_whose_server_feature_no_longer_resolved", int64(nLocalGone))
		}
	}
	if preShrink {
		var dl []string
		for f := range droppedFid {
			dl = append(dl, fmt.Sprint(f))
		}
		sort.Strings(dl)
		cw.trace = append(cw.trace[:len(cw.trace)-1], fmt.Sprintf("peer%d announces its entity %s AGAIN (%s) with a feature list that lacks the client features {%s}; it holds %d entries from those", x, c06Key(shrinkEnt), shrinkHow, strings.Join(dl, ","), nClientGone), cw.trace[len(cw.trace)-1])
		var feats []rig.FS
		for _, f := range cw.tree {
			if c06Key(f.Ent) == c06Key(shrinkEnt) && f.Role == model.RoleTypeClient && droppedFid[f.Id] {
				continue
			}
			if shrinkHow == "reply" || c06Key(f.Ent) == c06Key(shrinkEnt) {
				feats = append(feats, f)
			}
		}
		if shrinkHow == "reply" {
			X.Announce(feats)
		} else {
			X.NotifyDiscovery(true, X.Discovery(feats, map[string]model.NetworkManagementStateChangeType{fmt.Sprint(shrinkEnt): model.NetworkManagementStateChangeTypeAdded}, nil))
		}
		cw.reann[x]++
		cw.take(x)
		if n := X.PanicCount(); n > 0 {
			cw.fail(kind+"/panic", "panic while handling the repeated announcement with fewer features: %v", X.Panics)
			return
		}
		c.Count("teardowns_after_the_victim_announced_an_entity_again_with_fewer_features", 1)
		if nClientGone > 0 {
			c.Count("teardowns_after_the_victim_announced_an_entity_again_without_client_features_that_held_entries", 1)
			c.Count("entries_removed_whose_client_feature_no_longer_resolved", int64(nClientGone))
		}
	}
	// of what these two calls published only subscription / binding events are carried over to the teardown's account
	// (a repeated discovery reply legitimately publishes its own device event)
	var carried []rig.Ev
	if preLocal || preShrink {
		for _, ev := range w.Core.Take() {
			if ev.P.EventType == api.EventTypeSubscriptionChange || ev.P.EventType == api.EventTypeBindingChange {
				carried = append(carried, ev)
			}
		}
	}
	var hooks *rig.Hooks
	if conc {
		hooks = rig.InstallHooks()
		hooks.Jitter("RemoveRemoteDevice.beforeCleanup", r.Int63(), 2*time.Millisecond)
		hooks.On("RemoveRemoteDevice.beforeCleanup", func(any) { atCleanupOnce.Do(func() { close(atCleanup) }) })
	}
	var yres []string
	var ywg sync.WaitGroup
	if len(yops) > 0 {
		ywg.Add(1)
		go func() {
			defer ywg.Done()
			for _, o := range yops {
				mc, want := o.run()
				yres = append(yres, fmt.Sprintf("%s|%d|%s", o.desc, mc, want))
			}
		}()
	}
	if overlapMore && len(localCalls) > 0 {
		// the application's subscribe / bind calls towards peer y, each distinct call once: at a disconnect they start when
		// the teardown has reached the clean-up of the local features' bookkeeping (observer at the hook), otherwise at once
		ywg.Add(1)
		go func() {
			defer ywg.Done()
			if kind == "disconnect" {
				select {
				case <-atCleanup:
				case <-time.After(10 * time.Second):
				}
			}
			for _, f := range localCalls {
				f()
				if !tornDown.Load() {
					repeatedLocal.Add(1)
				}
			}
		}()
	}
	var seqReturn int64
	var tReturn time.Time
	okT, panicked := rig.Guard(30*time.Second, func() {
		if kind == "disconnect" {
			w.Local.RemoveRemoteDeviceConnection(X.Ski)
		} else {
			X.NotifyDiscovery(remForm != "full", tearData)
		}
		seqReturn = rig.Seq()
		tReturn = time.Now()
		tornDown.Store(true)
	})
	tornDown.Store(true)
	if panicked != "" {
		cw.fail(kind+"/panic", "%s", panicked)
		return
	}
	if !okT {
		c.Inconclusive("teardown did not return within 30s")
		return
	}
	if !waitWG(&ywg, 30*time.Second) {
		c.Inconclusive("concurrent messages of peer%d did not return within 30s", y)
		return
	}
	if hooks != nil {
		if hooks.Hits("RemoveRemoteDevice.beforeCleanup") > 0 {
			c.Count("hook_windows_passed", 1)
		}
		hooks.Uninstall()
	}
	if n := X.PanicCount() + Y.PanicCount(); n > 0 {
		cw.fail(kind+"/panic", "panic while handling a message: %v %v", X.Panics, Y.Panics)
		return
	}

	// ---- (1) immediately after: state of the removed device/entity
	when := kind
	if conc {
		when += "+conc"
	}
	if kind == "disconnect" {
		if !rig.IsNil(w.Local.RemoteDeviceForSki(X.Ski)) {
			cw.fail(when+"/still-resolves-by-ski", "RemoteDeviceForSki(%s) still resolves", X.Ski)
		}
		if !rig.IsNil(w.Local.RemoteDeviceForAddress(model.AddressDeviceType(X.Addr))) {
			cw.fail(when+"/still-resolves-by-address", "RemoteDeviceForAddress(%s) still resolves", X.Addr)
		}
		for _, rd := range w.Local.RemoteDevices() {
			if rd.Ski() == X.Ski {
				cw.fail(when+"/still-listed", "RemoteDevices() still lists %s", X.Ski)
			}
		}
		// pending approvals and received approvals of X are gone when the call has returned (timers can
		// only have removed entries, never added any)
		if pend, recv := pendingOf(x); pend != 0 || recv != 0 {
			cw.fail(when+"/pending-approvals-survive", "peer%d had %d writes pending; after the disconnect the stack still holds %d pending timers and %d received-approval records for its SKI", x, len(wX), pend, recv)
		}
	} else {
		if w.Local.RemoteDeviceForSki(X.Ski) != X.RD || w.Local.RemoteDeviceForAddress(model.AddressDeviceType(X.Addr)) != X.RD {
			cw.fail(when+"/device-no-longer-resolves", "peer%d only lost an entity but does not resolve any more", x)
		}
		for _, ea := range c10Ents {
			got := X.RD.Entity(spine.NewAddressEntityType(ea))
			switch {
			case isRem(c06Key(ea)) && !rig.IsNil(got):
				cw.fail(when+"/entity-still-present", "entity %s of peer%d still present (announced as removed: %s form, %d entities in the datagram)", c06Key(ea), x, remForm, 1+len(extraRem))
			case !isRem(c06Key(ea)) && rig.IsNil(got):
				cw.fail(when+"/other-entity-of-that-peer-removed", "entity %s of peer%d is gone; it was not announced as removed", c06Key(ea), x)
			}
		}
		// pending approvals that refer to the removed entity: the tap is read first, so timeouts counted
		// here happened before the state is read and the bound is sound
		cw.take(x)
		outs := cw.logged(x, 0)
		resolvedOther := 0
		for _, wr := range wOther {
			if wr.peer == x && len(rig.Classify(outs, wr.mc).All) > 0 {
				resolvedOther++
			}
		}
		nOtherX := 0
		for _, wr := range wOther {
			if wr.peer == x {
				nOtherX++
			}
		}
		pend, recv := pendingOf(x)
		if pend > nOtherX-resolvedOther {
			cw.fail(c10SigPendingEntity, "peer%d left %d writes pending from the removed entity %s and %d from other entities (%d of those already timed out); the stack still holds %d pending approvals for the peer",
				x, len(wXent), remEnt, nOtherX, resolvedOther, pend)
		}
		// received-approval records exist for the writes to server 1 (one of its two callbacks approves).
		// They do not expire with the timer, so those of the surviving entities must all be there; those of
		// the removed entity must be gone unless the write had timed out before the removal (the record of
		// a timed out write is nobody's to clean).
		recvOther, recvEnt, recvEntResolved := 0, 0, 0
		for _, wr := range wOther {
			if wr.peer == x && wr.srv == 1 {
				recvOther++
			}
		}
		for _, wr := range wXent {
			if wr.srv == 1 {
				recvEnt++
				if len(rig.Classify(outs, wr.mc).All) > 0 {
					recvEntResolved++
				}
			}
		}
		// (a write whose timer fired before the approving callback ran never got a record, so the number
		// of records before the teardown, not the number of writes, is the reference)
		if recv < recvBefore[x]-recvEnt {
			cw.fail(when+"/received-approvals-of-other-entity-of-that-peer-lost", "peer%d: %d received-approval records before the removal, at most %d of them belong to the removed entity %s; the stack holds only %d records now",
				x, recvBefore[x], recvEnt, remEnt, recv)
		}
		maxOther := recvOther
		if recvBefore[x] < maxOther {
			maxOther = recvBefore[x]
		}
		if recv > maxOther+recvEntResolved {
			cw.fail("entity-removal/received-approval-of-removed-entity-survives", "peer%d: at most %d received-approval records belong to surviving entities, %d writes of the removed entity %s had one (%d of them timed out earlier); the stack holds %d records",
				x, maxOther, recvEnt, remEnt, recvEntResolved, recv)
		}
	}
	// received-approval records of the other peers do not depend on timers
	for pi := range cw.peers {
		if pi == x {
			continue
		}
		if _, recv := pendingOf(pi); recv != recvBefore[pi] {
			cw.fail(when+"/received-approvals-of-other-peer-changed", "peer%d: %d received-approval records before the teardown of peer%d, %d after", pi, recvBefore[pi], x, recv)
		}
		if w.Local.RemoteDeviceForSki(cw.peers[pi].Ski) != cw.peers[pi].RD || w.Local.RemoteDeviceForAddress(model.AddressDeviceType(cw.peers[pi].Addr)) != cw.peers[pi].RD {
			cw.fail(when+"/other-peer-no-longer-resolves", "peer%d does not resolve any more after the teardown of peer%d", pi, x)
		}
	}

	// ---- (2) registries and bookkeeping
	cw.compare(when, x, remEnt)

	// ---- (3) events
	gotEv := map[string]int{}
	var evList []string
	for _, ev := range append(carried, w.Core.Take()...) {
		evList = append(evList, ev.String())
		if ev.P.EventType == api.EventTypeDataChange {
			continue
		}
		k := ""
		switch ev.P.EventType {
		case api.EventTypeSubscriptionChange, api.EventTypeBindingChange:
			name := map[api.EventType]string{api.EventTypeSubscriptionChange: "Subscription", api.EventTypeBindingChange: "Binding"}[ev.P.EventType]
			ent, fid, loc := "?", -1, "?"
			if !rig.IsNil(ev.P.Entity) && ev.P.Entity.Address() != nil {
				ent = c06KeyM(ev.P.Entity.Address().Entity)
			}
			if !rig.IsNil(ev.P.Feature) && ev.P.Feature.Address() != nil && ev.P.Feature.Address().Feature != nil {
				fid = int(*ev.P.Feature.Address().Feature)
			}
			if !rig.IsNil(ev.P.LocalFeature) {
				loc = ev.P.LocalFeature.Address().String()
			}
			k = evKey(name, c10Ch(ev.P.ChangeType), ent, fid, loc)
		case api.EventTypeEntityChange:
			ent := "?"
			if !rig.IsNil(ev.P.Entity) && ev.P.Entity.Address() != nil {
				ent = c06KeyM(ev.P.Entity.Address().Entity)
			}
			k = fmt.Sprintf("Entity/%s ent=%s", c10Ch(ev.P.ChangeType), ent)
		case api.EventTypeDeviceChange:
			k = "Device/" + c10Ch(ev.P.ChangeType)
		}
		if ev.P.Ski != X.Ski {
			k = "OTHER-PEER " + k
		}
		gotEv[k]++
	}
	// the concurrent messages of peer y publish their own add/remove events
	for _, o := range yops {
		switch {
		case strings.Contains(o.desc, " subscribes "):
			wantEv["OTHER-PEER Subscription/add"]++
		case strings.Contains(o.desc, " unsubscribes "):
			wantEv["OTHER-PEER Subscription/remove"]++
		case strings.Contains(o.desc, " binds "):
			wantEv["OTHER-PEER Binding/add"]++
		}
	}
	norm := map[string]int{}
	for k, n := range gotEv {
		if strings.HasPrefix(k, "OTHER-PEER Subscription/") || strings.HasPrefix(k, "OTHER-PEER Binding/") {
			k = strings.SplitN(k, " ent=", 2)[0]
		}
		norm[k] += n
	}
	for _, l := range listed {
		if l.state == "added" { // the known entity that the same notify announces again may publish its own event
			delete(norm, "Entity/add ent="+c06Key(l.ent))
		}
	}
	c.Events(int64(len(evList)))
	for k, n := range wantEv {
		if norm[k] < n {
			cw.fail(when+"/removal-event-missing/"+strings.SplitN(k, " ", 2)[0], "expected %d x %q, observed %d; events: %v", n, k, norm[k], evList)
		}
	}
	for k, n := range norm {
		if n > wantEv[k] {
			sig := "removal-event-duplicated-or-unexpected/" + strings.SplitN(k, " ", 2)[0]
			if strings.HasPrefix(k, "OTHER-PEER") {
				sig = "event-for-other-peer"
			}
			cw.fail(when+"/"+sig, "observed %d x %q, expected %d; events: %v", n, k, wantEv[k], evList)
		}
	}

	for _, d := range localDescs {
		cw.trace = append(cw.trace, "  (concurrently, application) "+d)
	}
	// ---- (4) the concurrent messages of peer y were served
	if len(yres) > 0 {
		outs := cw.take(y)
		for _, s := range yres {
			f := strings.Split(s, "|")
			var mc uint64
			fmt.Sscan(f[1], &mc)
			cw.trace = append(cw.trace, "  (concurrently) "+f[0])
			if f[2] == "" {
				continue // judged by the flags (compare) resp. by the outcome of the write (horizon)
			}
			if got := rig.Classify(outs, model.MsgCounterType(mc)).String(); got != f[2] {
				cw.fail(when+"/concurrent-message-of-other-peer-not-served", "%s: got %s, want %s", f[0], got, f[2])
			}
			c.Events(1)
		}
	}
	if cw.hard {
		return
	}

	// ---- (4a) cases with early registrations: the application adds a local entity after the teardown. Every peer that
	// still holds a NodeManagement subscription is told exactly once, a removed connection is told nothing.
	if early || nmLateSubs > 0 {
		for pi := range cw.peers {
			cw.take(pi)
		}
		if len(Z) == 2 {
			// one of the two connections that never completed discovery is dropped
			w.Core.Take()
			okZ, pan := rig.Guard(30*time.Second, func() { w.Local.RemoveRemoteDeviceConnection(Z[0].Ski) })
			if pan != "" {
				cw.fail(when+"/panic", "RemoveRemoteDeviceConnection of a connection without completed discovery: %s", pan)
				return
			}
			if !okZ {
				c.Inconclusive("RemoveRemoteDeviceConnection did not return within 30s")
				return
			}
			cw.trace = append(cw.trace, "peer3 (discovery never completed) is disconnected; peer4 (the same) stays")
			var subRem, devRem int
			var foreign, evl []string
			for _, ev := range w.Core.Take() {
				evl = append(evl, ev.String())
				switch {
				case ev.P.Ski != Z[0].Ski:
					foreign = append(foreign, ev.String())
				case ev.P.EventType == api.EventTypeSubscriptionChange && ev.P.ChangeType == api.ElementChangeRemove:
					subRem++
				case ev.P.EventType == api.EventTypeDeviceChange && ev.P.ChangeType == api.ElementChangeRemove:
					devRem++
				}
			}
			c.Events(int64(len(evl) + 2))
			if subRem != 1 {
				cw.fail(when+"/undiscovered-peer/removal-events-for-its-subscription", "%d subscription removal events for the one NodeManagement subscription of the disconnected peer3; events: %v", subRem, evl)
			}
			if devRem != 1 {
				cw.fail(when+"/undiscovered-peer/removal-events-for-the-device", "%d device removal events for peer3; events: %v", devRem, evl)
			}
			if len(foreign) > 0 {
				cw.fail(when+"/undiscovered-peer/event-for-other-peer", "the disconnect of peer3 published events for other connections: %v", foreign)
			}
			if n := len(w.Local.SubscriptionManager().Subscriptions(Z[0].RD)); n != 0 {
				cw.fail(when+"/undiscovered-peer/sub-entry-survives", "%d subscriptions of the disconnected peer3 are left", n)
			}
			if n := len(w.Local.SubscriptionManager().Subscriptions(Z[1].RD)); n != 1 {
				cw.fail(when+"/undiscovered-peer/sub-entry-of-other-peer-lost", "peer4 (connected, discovery not completed either) holds %d subscriptions after the disconnect of peer3, it held 1", n)
			}
			if !rig.IsNil(w.Local.RemoteDeviceForSki(Z[0].Ski)) || w.Local.RemoteDeviceForSki(Z[1].Ski) != Z[1].RD {
				cw.fail(when+"/undiscovered-peer/resolvability", "after the disconnect of peer3: peer3 resolves by SKI: %v, peer4 resolves: %v", !rig.IsNil(w.Local.RemoteDeviceForSki(Z[0].Ski)), w.Local.RemoteDeviceForSki(Z[1].Ski) == Z[1].RD)
			}
			cw.compare(when, x, remEnt)
			c.Count("disconnects_of_a_connection_without_completed_discovery_next_to_another_one", 1)
			if cw.hard {
				return
			}
			Z[0].Tap.Take()
			Z[1].Tap.Take()
		}
		e3 := spine.NewEntityLocal(w.Local, model.EntityTypeTypeInverter, spine.NewAddressEntityType([]uint{3}), 4*time.Second)
		e3.GetOrAddFeature(model.FeatureTypeTypeMeasurement, model.RoleTypeServer)
		okA, pan := rig.Guard(30*time.Second, func() { w.Local.AddEntity(e3) })
		if pan != "" {
			cw.fail(when+"/panic", "DeviceLocal.AddEntity after the teardown: %s", pan)
			return
		}
		if !okA {
			c.Inconclusive("DeviceLocal.AddEntity did not return within 30s")
			return
		}
		cw.trace = append(cw.trace, "the application adds a local entity [3] (DeviceLocal.AddEntity): NodeManagement subscribers are notified")
		for pi := range cw.peers {
			n := 0
			outs := cw.take(pi)
			for _, d := range outs {
				if d.Header.CmdClassifier != nil && *d.Header.CmdClassifier == model.CmdClassifierTypeNotify && len(d.Payload.Cmd) > 0 && d.Payload.Cmd[0].NodeManagementDetailedDiscoveryData != nil {
					n++
				}
			}
			_, sub := cw.regs[cw.regKey("sub", pi, []uint{0}, 0, c10NM)]
			c.Events(1)
			switch {
			case kind == "disconnect" && pi == x:
				if len(outs) > 0 {
					cw.fail(when+"/entity-notification-written-to-removed-connection", "%d datagrams were written to the connection of peer%d (removed) when the application added a local entity: %s", len(outs), pi, rig.JS(outs[0]))
				}
			case sub && n != 1:
				cw.fail(when+"/entity-notification-to-surviving-NodeManagement-subscriber-count", "peer%d holds a NodeManagement subscription (requested before its discovery reply) and received %d entity notifications for the added local entity", pi, n)
			case !sub && n != 0:
				cw.fail(when+"/entity-notification-to-peer-without-NodeManagement-subscription", "peer%d holds no NodeManagement subscription and received %d entity notifications", pi, n)
			}
		}
		if len(Z) == 2 {
			count := func(z *rig.Peer) (n, all int) {
				for _, d := range z.Tap.Take() {
					all++
					if d.Header.CmdClassifier != nil && *d.Header.CmdClassifier == model.CmdClassifierTypeNotify && len(d.Payload.Cmd) > 0 && d.Payload.Cmd[0].NodeManagementDetailedDiscoveryData != nil {
						n++
					}
				}
				return
			}
			if _, all := count(Z[0]); all != 0 {
				cw.fail(when+"/undiscovered-peer/entity-notification-written-to-removed-connection", "%d datagrams were written to the removed connection of peer3 when the application added a local entity", all)
			}
			if n, _ := count(Z[1]); n != 1 {
				cw.fail(when+"/undiscovered-peer/entity-notification-to-surviving-NodeManagement-subscriber-count", "peer4 holds a NodeManagement subscription and received %d entity notifications for the added local entity", n)
			}
			c.Events(2)
		}
		// ... and announces a use case for it: the use case data of the local NodeManagement feature changes, every
		// surviving NodeManagement subscriber is notified exactly once, a removed connection is told nothing
		okU, pan := rig.Guard(30*time.Second, func() {
			e3.AddUseCaseSupport(model.UseCaseActorTypeCEM, model.UseCaseNameTypeLimitationOfPowerConsumption, "1.0.0", "release", true, []model.UseCaseScenarioSupportType{1, 2})
		})
		if pan != "" {
			cw.fail(when+"/panic", "AddUseCaseSupport after the teardown: %s", pan)
			return
		}
		if !okU {
			c.Inconclusive("AddUseCaseSupport did not return within 30s")
			return
		}
		cw.trace = append(cw.trace, "the application adds a use case to the local entity [3]: NodeManagement subscribers are notified")
		for pi := range cw.peers {
			n := 0
			outs := cw.take(pi)
			for _, d := range outs {
				if d.Header.CmdClassifier != nil && *d.Header.CmdClassifier == model.CmdClassifierTypeNotify && len(d.Payload.Cmd) > 0 && d.Payload.Cmd[0].NodeManagementUseCaseData != nil {
					n++
				}
			}
			_, sub := cw.regs[cw.regKey("sub", pi, []uint{0}, 0, c10NM)]
			c.Events(1)
			switch {
			case kind == "disconnect" && pi == x:
				if len(outs) > 0 {
					cw.fail(when+"/use-case-notification-written-to-removed-connection", "%d datagrams were written to the connection of peer%d (removed) when the application added a use case: %s", len(outs), pi, rig.JS(outs[0]))
				}
			case sub && n != 1:
				cw.fail(when+"/use-case-notification-to-surviving-NodeManagement-subscriber-count", "peer%d holds a NodeManagement subscription and received %d use case notifications", pi, n)
			case !sub && n != 0:
				cw.fail(when+"/use-case-notification-to-peer-without-NodeManagement-subscription", "peer%d holds no NodeManagement subscription and received %d use case notifications", pi, n)
			}
		}
		if len(Z) == 2 {
			if n := Z[0].Tap.Len(); n != 0 {
				cw.fail(when+"/undiscovered-peer/use-case-notification-written-to-removed-connection", "%d datagrams were written to the removed connection of peer3 when the application added a use case", n)
			}
			Z[0].Tap.Take()
			Z[1].Tap.Take()
		}
		if nmLateSubs > 0 {
			c.Count("teardowns_with_NodeManagement_subscriptions_made_after_discovery", 1)
		}
		if early {
			c.Count("teardowns_with_NodeManagement_registrations_made_before_the_discovery_reply", 1)
		}
		for _, o := range earlyOps {
			if o.peer == x {
				c.Count("teardowns_of_a_peer_with_a_NodeManagement_"+o.kind+"_made_before_its_discovery_reply:"+kind, 1)
			}
		}
		if cw.hard {
			return
		}
	}

	// ---- (4b) late verdicts of the application, in half of the cases: an approval for every write that
	// referred to the removed device/entity must have no effect; an approval for one surviving write
	// (preferably of another entity of the same peer) must still be carried out
	type late struct {
		demandSuccess bool
	}
	lateApproved := map[model.MsgCounterType]late{}
	lateDead := map[model.MsgCounterType]bool{}
	if r.Intn(2) == 0 && len(writes) > 0 {
		msgOf := func(mc model.MsgCounterType) *api.Message {
			approveMu.Lock()
			defer approveMu.Unlock()
			return captured[mc]
		}
		for _, wr := range wXent {
			if m := msgOf(wr.mc); m != nil {
				cw.srv[wr.srv].ApproveOrDenyWrite(m, model.ErrorType{ErrorNumber: 0})
				lateDead[wr.mc] = true
				cw.trace = append(cw.trace, fmt.Sprintf("application approves write %d of peer%d (its device/entity is gone)", wr.mc, wr.peer))
				c.Count("late_approvals_for_removed_writes", 1)
			}
		}
		var cand []c10Write
		for _, wr := range wOther {
			if wr.peer == x {
				cand = append(cand, wr)
			}
		}
		if len(cand) == 0 {
			cand = wOther
		}
		if len(cand) > 0 {
			wr := cand[r.Intn(len(cand))]
			if m := msgOf(wr.mc); m != nil {
				cw.srv[wr.srv].ApproveOrDenyWrite(m, model.ErrorType{ErrorNumber: 0})
				// timers never fire early: if the verdict was in before the timeout can have passed, it must win
				inTime := time.Since(tWrites) < c10Timeout
				lateApproved[wr.mc] = late{demandSuccess: inTime}
				cw.trace = append(cw.trace, fmt.Sprintf("application approves surviving write %d of peer%d from %s (before the timeout can have passed: %v)", wr.mc, wr.peer, c06Key(wr.ent), inTime))
				if inTime {
					c.Count("late_approvals_for_surviving_writes_in_time", 1)
					if wr.peer == x {
						c.Count("late_approvals_for_other_entity_of_the_affected_peer_in_time", 1)
					}
				}
			}
		}
	}

	// ---- (5) the rest of the history, for everything that survived
	alive := func(pi int, ent []uint) bool {
		return pi != x || (remEnt != "" && !isRem(c06Key(ent)))
	}
	for _, o := range ops[cut:] {
		if o.kind == "reann" {
			// a survivor may announce itself again at any time; the peer that lost an entity only repeats a surviving entity
			if o.peer == x && (kind == "disconnect" || o.how == "reply" || !alive(o.peer, o.ent)) {
				continue
			}
			cw.exec(o, "after-"+kind)
			continue
		}
		if !alive(o.peer, o.ent) {
			continue
		}
		if o.kind == "sub" {
			if _, dup := cw.regs[cw.regKey("sub", o.peer, o.ent, uint(o.srv+1), o.srv)]; dup {
				continue // subscribed concurrently already
			}
		}
		if o.kind == "bind" {
			taken := false
			for _, en := range cw.regs {
				if en.kind == "bind" && en.srv == o.srv {
					taken = true
				}
			}
			if taken {
				continue
			}
		}
		cw.exec(o, "after-"+kind)
	}
	// a server feature the removed peer/entity held is free again: a surviving peer can bind it
	for s := range cw.srv {
		taken := false
		for _, en := range cw.regs {
			if en.kind == "bind" && en.srv == s {
				taken = true
			}
		}
		if !taken && holder[s] == x {
			q := (x + 1 + r.Intn(2)) % 3
			cw.exec(c10Op{kind: "bind", peer: q, ent: c10Ents[r.Intn(len(c10Ents))], srv: s}, "after-"+kind+"/rebind-freed-feature")
		}
	}

	// ---- (6) service probe for every surviving peer (and for the surviving entities of a peer that lost one)
	served := 0
	for pi, p := range cw.peers {
		if kind == "disconnect" && pi == x {
			continue
		}
		var ea []uint
		for _, i := range r.Perm(len(c10Ents)) {
			if alive(pi, c10Ents[i]) {
				ea = c10Ents[i]
				break
			}
		}
		if ea == nil {
			continue // every entity of that peer was announced as removed
		}
		cw.take(pi)
		// read
		s := r.Intn(len(cw.srv))
		fn := c06FnsOf(c10SrvTypes[s])[0]
		mc := p.Send(model.CmdClassifierTypeRead, rig.FA(p.Addr, ea, uint(s+1)), cw.srv[s].Address(), false, nil, rig.CmdFor(fn.Fn, reflect.New(fn.T).Interface()))
		if res := rig.Classify(cw.take(pi), mc); res.Replies != 1 || res.Errors != 0 {
			cw.fail("after-"+kind+"/read-of-surviving-peer-not-served", "peer%d reads %s from %s: %s", pi, fn.Fn, c06Key(ea), res)
		}
		// subscribe (a pair that does not exist yet)
		for _, s := range r.Perm(len(cw.srv)) {
			if _, dup := cw.regs[cw.regKey("sub", pi, ea, uint(s+1), s)]; !dup {
				cw.exec(c10Op{kind: "sub", peer: pi, ent: ea, srv: s}, "after-"+kind+"/probe")
				break
			}
		}
		// authorised write on a feature without approval callbacks
		bs := boundBy(pi, false)
		var usable []c10Ent
		for _, b := range bs {
			if alive(pi, entOf(b.ent)) {
				usable = append(usable, b)
			}
		}
		if len(usable) > 0 {
			b := usable[r.Intn(len(usable))]
			fn := writeFn[b.srv]
			cw.take(pi)
			mc := p.Send(model.CmdClassifierTypeWrite, rig.FA(p.Addr, entOf(b.ent), b.fid), cw.srv[b.srv].Address(), true, nil, rig.CmdFor(fn.Fn, reflect.New(fn.T).Interface()))
			cw.trace = append(cw.trace, fmt.Sprintf("peer%d writes %s from %s/%d to local server %d (bound, no approval needed)", pi, fn.Fn, b.ent, b.fid, b.srv))
			if res := rig.Classify(cw.take(pi), mc); res.Success != 1 || res.Errors != 0 {
				cw.fail("after-"+kind+"/authorised-write-of-surviving-peer-not-accepted", "peer%d writes %s to local server %d over its binding from %s/%d: %s", pi, fn.Fn, b.srv, b.ent, b.fid, res)
			}
			c.Count("probe_writes", 1)
		}
		served++
		c.Events(3)
	}
	cw.compare("after-"+kind, x, remEnt)

	// ---- (7) observe until the horizon: timers of the other peers fire, nothing reaches the removed connection
	settled := rig.WaitFor(20*time.Second, func() bool {
		for pi := range cw.peers {
			if p, _ := pendingOf(pi); p != 0 {
				return false
			}
		}
		return time.Since(tReturn) >= c10Horizon
	})
	quiet := rig.WaitQuiet(baseline, 10*time.Second)
	if !settled || !quiet {
		c.Inconclusive("pending approvals did not time out / goroutines did not finish within the watchdog (settled=%v quiet=%v)", settled, quiet)
		return
	}
	if kind == "disconnect" {
		var late []rig.Out
		cw.take(x)
		for _, o := range cw.log[x] {
			if o.Seq > seqReturn {
				late = append(late, o)
			}
		}
		c.Events(1)
		if len(late) > 0 {
			what := "datagram"
			if len(late[0].D.Payload.Cmd) > 0 && late[0].D.Payload.Cmd[0].ResultData != nil {
				what = "result"
			}
			sig := when + "/" + what + "-written-to-removed-connection"
			if what == "result" && tReturn.Sub(tWrites) >= c10Timeout {
				// the case ran so slowly that an approval timer may have fired while the removal was still
				// running: see the comment at c10SigInFlight
				sig = c10SigInFlight
				c.Count("slow_cases_where_a_timer_may_have_been_in_flight", 1)
			}
			cw.fail(sig, "%d datagrams were written to the connection of peer%d after RemoveRemoteDeviceConnection had returned (observed for %v after quiescence): %s",
				len(late), x, c10Horizon, rig.JS(late[0].D))
		}
	}
	// every write of a surviving peer got exactly one outcome; with silent callbacks that is the timeout error
	for pi := range cw.peers {
		if kind == "disconnect" && pi == x {
			continue
		}
		cw.take(pi)
		for _, wr := range writes {
			if wr.peer != pi {
				continue
			}
			res := rig.Classify(cw.logged(pi, 0), wr.mc)
			c.Events(1)
			removedEntityWrite := pi == x && remEnt != "" && isRem(c06Key(wr.ent))
			la, wasApproved := lateApproved[wr.mc]
			switch {
			case removedEntityWrite:
				// The approval disappeared with the entity: nothing may answer that write after the
				// notification returned, except the timeout of a timer that was already firing (only
				// possible if the case took longer than the timeout). A success result is never right.
				after := rig.Classify(cw.logged(pi, seqReturn), wr.mc)
				switch {
				case res.Success > 0:
					cw.fail("entity-removal/write-of-removed-entity-applied", "write %d of peer%d from the removed entity %s was acknowledged: %s (late approval by the application: %v)", wr.mc, pi, remEnt, res, lateDead[wr.mc])
				case len(res.All) > 1:
					cw.fail(when+"/pending-write-answered-twice", "write %d of peer%d: %s", wr.mc, pi, res)
				case len(after.All) > 0 && tReturn.Sub(tWrites) < c10Timeout:
					cw.fail("entity-removal/write-of-removed-entity-answered-after-removal", "write %d of peer%d from the removed entity %s received %s after the removal notification had returned", wr.mc, pi, remEnt, after)
				}
			case wasApproved:
				if len(res.All) != 1 || res.Replies != 0 || (la.demandSuccess && res.Success != 1) {
					who := "other-peer"
					if pi == x {
						who = "other-entity-of-that-peer"
					}
					cw.fail(when+"/approval-of-surviving-write-of-"+who+"-not-carried-out", "write %d of peer%d (from %s) was approved by the application after the teardown of peer%d (verdict in before the timeout: %v); results: %s",
						wr.mc, pi, c06Key(wr.ent), x, la.demandSuccess, res)
				}
			case res.Errors != 1 || res.Success != 0 || res.Replies != 0:
				who := "other-peer"
				if pi == x {
					who = "other-entity-of-that-peer"
				}
				cw.fail(when+"/pending-approval-of-"+who+"-lost", "write %d of peer%d (pending approval at the teardown of peer%d) must receive exactly one result, the approval timeout; got %s", wr.mc, pi, x, res)
			}
		}
	}
	if len(yWrites) > 0 {
		cw.take(y)
		for _, yw := range yWrites {
			res := rig.Classify(cw.logged(y, 0), yw.mc)
			c.Events(1)
			switch {
			case len(res.All) != 1 || res.Replies != 0:
				cw.fail(when+"/write-of-other-peer-sent-during-the-teardown-not-answered-once", "write %d of peer%d to local server %d, sent while peer%d was torn down (approved by the application: %v): %s; expected exactly one result", yw.mc, y, yw.srv, x, yw.approved, res)
			case yw.approved && yw.inTime && res.Success != 1:
				cw.fail(when+"/approval-of-write-of-other-peer-given-during-the-teardown-not-carried-out", "write %d of peer%d to local server %d was approved by the application (before the timeout can have passed) while peer%d was torn down: %s", yw.mc, y, yw.srv, x, res)
			case !yw.verdict && res.Errors != 1:
				cw.fail(when+"/pending-approval-of-other-peer-lost", "write %d of peer%d to local server %d (sent while peer%d was torn down, no verdict) must receive the approval timeout; got %s", yw.mc, y, yw.srv, x, res)
			}
			if yw.approved && yw.inTime {
				c.Count("verdicts_for_another_peer's_write_given_during_a_teardown_in_time", 1)
			}
		}
		c.Count("approval_requiring_writes_of_another_peer_sent_during_a_teardown", int64(len(yWrites)))
	}
	if overlapMore {
		c.Count("teardowns_overlapped_by_local_SubscribeToRemote/BindToRemote_calls_towards_another_peer", 1)
		c.Count("local_SubscribeToRemote/BindToRemote_calls_made_before_the_teardown_returned", repeatedLocal.Load())
	}
	cw.compare("horizon-"+kind, x, remEnt)

	// ---- (8) a third of the entity removals: the victim announces the removed entity AGAIN (partial notify 'added' with
	// its features), takes new subscriptions and a binding from it, local client features subscribe / bind to it again,
	// and the entity is announced as removed a SECOND time. Exactly the new entries and flags go, one removal event per
	// new entry and one for the entity; everything else (other entities of the victim, other peers) stays and is served.
	if kind != "disconnect" && aux5.Intn(3) == 0 && !cw.hard {
		re := entOf(remEnt)
		c10Reannounce(X, cw.tree, "added", re)
		cw.take(x)
		cw.trace = append(cw.trace, fmt.Sprintf("peer%d announces the removed entity %s AGAIN (partial notify lastStateChange=added with its features)", x, remEnt))
		if rig.IsNil(X.RD.Entity(spine.NewAddressEntityType(re))) {
			cw.fail("re-added/entity-not-present", "entity %s of peer%d is not present after it was announced as added again", remEnt, x)
			return
		}
		var again []c10Op
		for _, sidx := range aux5.Perm(len(cw.srv))[:1+aux5.Intn(3)] {
			again = append(again, c10Op{kind: "sub", peer: x, ent: re, srv: sidx})
		}
		for sidx := range cw.srv {
			taken := false
			for _, en := range cw.regs {
				if en.kind == "bind" && en.srv == sidx {
					taken = true
				}
			}
			if !taken {
				again = append(again, c10Op{kind: "bind", peer: x, ent: re, srv: sidx})
				break
			}
		}
		again = append(again, c10Op{kind: "lsub", peer: x, ent: re, lc: aux5.Intn(len(cw.cli))}, c10Op{kind: "lbind", peer: x, ent: re, lc: aux5.Intn(len(cw.cli))})
		for _, o := range again {
			cw.exec(o, "re-added")
		}
		if cw.hard {
			return
		}
		cw.compare("re-added", x, "")
		want2 := map[string]int{"Entity/remove ent=" + remEnt: 1}
		n2 := 0
		for k, en := range cw.regs {
			if en.peer == x && en.ent == remEnt {
				want2[fmt.Sprintf("%s/remove ent=%s feature=%d local=%s", map[string]string{"sub": "Subscription", "bind": "Binding"}[en.kind], en.ent, en.fid, cw.sf(en.srv).Address().String())]++
				delete(cw.regs, k)
				n2++
			}
		}
		for k, en := range cw.flags {
			if en.peer == x && en.ent == remEnt {
				delete(cw.flags, k)
			}
		}
		for pi := range cw.peers {
			cw.take(pi)
		}
		w.Core.Take()
		cw.trace = append(cw.trace, fmt.Sprintf("SECOND TEARDOWN peer%d %s (partial notify); the entity holds %d new entries", x, kind, n2))
		okT2, pan := rig.Guard(30*time.Second, func() { X.NotifyDiscovery(true, X.Discovery(nil, nil, [][]uint{re})) })
		if pan != "" {
			cw.fail("second-"+kind+"/panic", "%s", pan)
			return
		}
		if !okT2 {
			c.Inconclusive("second teardown did not return within 30s")
			return
		}
		if n := X.PanicCount(); n > 0 {
			cw.fail("second-"+kind+"/panic", "panic while handling a message: %v", X.Panics)
			return
		}
		for _, ea := range c10Ents {
			got := X.RD.Entity(spine.NewAddressEntityType(ea))
			gone := c06Key(ea) == remEnt || extraRem[c06Key(ea)]
			switch {
			case gone && !rig.IsNil(got):
				cw.fail("second-"+kind+"/entity-still-present", "entity %s of peer%d still present after its second removal", c06Key(ea), x)
			case !gone && rig.IsNil(got):
				cw.fail("second-"+kind+"/other-entity-of-that-peer-removed", "entity %s of peer%d is gone; it was not announced as removed", c06Key(ea), x)
			}
		}
		cw.compare("second-"+kind, x, remEnt)
		got2 := map[string]int{}
		var evl []string
		for _, ev := range w.Core.Take() {
			evl = append(evl, ev.String())
			k := ""
			switch ev.P.EventType {
			case api.EventTypeSubscriptionChange, api.EventTypeBindingChange:
				name := map[api.EventType]string{api.EventTypeSubscriptionChange: "Subscription", api.EventTypeBindingChange: "Binding"}[ev.P.EventType]
				ent, fid, loc := "?", -1, "?"
				if !rig.IsNil(ev.P.Entity) && ev.P.Entity.Address() != nil {
					ent = c06KeyM(ev.P.Entity.Address().Entity)
				}
				if !rig.IsNil(ev.P.Feature) && ev.P.Feature.Address() != nil && ev.P.Feature.Address().Feature != nil {
					fid = int(*ev.P.Feature.Address().Feature)
				}
				if !rig.IsNil(ev.P.LocalFeature) {
					loc = ev.P.LocalFeature.Address().String()
				}
				k = fmt.Sprintf("%s/%s ent=%s feature=%d local=%s", name, c10Ch(ev.P.ChangeType), ent, fid, loc)
			case api.EventTypeEntityChange:
				ent := "?"
				if !rig.IsNil(ev.P.Entity) && ev.P.Entity.Address() != nil {
					ent = c06KeyM(ev.P.Entity.Address().Entity)
				}
				k = fmt.Sprintf("Entity/%s ent=%s", c10Ch(ev.P.ChangeType), ent)
			case api.EventTypeDeviceChange:
				k = "Device/" + c10Ch(ev.P.ChangeType)
			default:
				continue
			}
			if ev.P.Ski != X.Ski {
				k = "OTHER-PEER " + k
			}
			got2[k]++
		}
		c.Events(int64(len(evl) + 1))
		for k, n := range want2 {
			if got2[k] < n {
				cw.fail("second-"+kind+"/removal-event-missing/"+strings.SplitN(k, " ", 2)[0], "expected %d x %q, observed %d; events: %v", n, k, got2[k], evl)
			}
		}
		for k, n := range got2 {
			if n > want2[k] {
				sig := "removal-event-duplicated-or-unexpected/" + strings.SplitN(k, " ", 2)[0]
				if strings.HasPrefix(k, "OTHER-PEER") {
					sig = "event-for-other-peer"
				}
				cw.fail("second-"+kind+"/"+sig, "observed %d x %q, expected %d; events: %v", n, k, want2[k], evl)
			}
		}
		// everybody else is still served
		for pi, p := range cw.peers {
			var ea []uint
			for _, cand := range c10Ents {
				if alive(pi, cand) {
					ea = cand
					break
				}
			}
			if ea == nil {
				continue
			}
			cw.take(pi)
			sidx := aux5.Intn(len(cw.srv))
			fn := c06FnsOf(c10SrvTypes[sidx])[0]
			mc := p.Send(model.CmdClassifierTypeRead, rig.FA(p.Addr, ea, uint(sidx+1)), cw.srv[sidx].Address(), false, nil, rig.CmdFor(fn.Fn, reflect.New(fn.T).Interface()))
			c.Events(1)
			if res := rig.Classify(cw.take(pi), mc); res.Replies != 1 || res.Errors != 0 {
				cw.fail("second-"+kind+"/read-of-surviving-peer-not-served", "peer%d reads %s from %s: %s", pi, fn.Fn, c06Key(ea), res)
			}
		}
		c.Count("second_teardowns_after_the_removed_entity_was_announced_again", 1)
		c.Count("entries_removed_by_a_second_teardown", int64(n2))
	}

	c.Count("teardown:"+kind, 1)
	if conc {
		c.Count("teardown_with_concurrent_messages", 1)
		c.Count("concurrent_messages", int64(len(yops)))
	}
	c.Count("registry_entries_removed", int64(nRegs))
	c.Count("bookkeeping_flags_removed", int64(nFlags))
	c.Count("entries_of_other_peers_with_the_same_numbers", int64(nTwins))
	c.Count("pending_writes_of_removed_device_or_entity", int64(len(wXent)))
	c.Count("pending_writes_of_others", int64(len(wOther)))
	c.Count("surviving_peers_probed", int64(served))
	nReann := 0
	for _, n := range cw.reann {
		nReann += n
	}
	c.Count("repeated_announcements", int64(nReann))
	if reannX {
		c.Count("teardowns_of_a_peer_that_had_announced_itself_again", 1)
		if boundWhenReannounced[x] > 0 {
			c.Count("teardowns_of_a_peer_that_had_announced_itself_again_while_holding_bindings", 1)
		}
	}
	c.Shape(fmt.Sprintf("%s conc=%v regs=%d flags=%d pendX=%d pendO=%d reannX=%v unk=%s localGone=%d clientGone=%d early=%d form=%s n=%d mixed=%d", kind, conc, nRegs, nFlags, len(wXent), len(wOther), reannX, unknownPos, nLocalGone, nClientGone, len(earlyOps), remForm, 1+len(extraRem), nMixed))
	c.NonTrivial(nRegs > 0 && nFlags > 0 && nTwins > 0)
	tr := cw.trace
	if len(tr) > 40 {
		tr = append(append([]string{}, tr[:12]...), append([]string{"..."}, tr[len(tr)-27:]...)...)
	}
	c.Sample(map[string]any{"history": tr, "teardown": kind, "peer": x, "concurrent": conc, "entries_removed": nRegs, "flags_removed": nFlags,
		"pending_writes": len(writes), "horizon": c10Horizon.String(), "events_at_teardown": evList})
}

func c10Ch(t api.ElementChangeType) string {
	switch t {
	case api.ElementChangeAdd:
		return "add"
	case api.ElementChangeRemove:
		return "remove"
	case api.ElementChangeUpdate:
		return "update"
	}
	return "?"
}

func waitWG(wg *sync.WaitGroup, max time.Duration) bool {
	done := make(chan struct{})
	go func() { wg.Wait(); close(done) }()
	select {
	case <-done:
		return true
	case <-time.After(max):
		return false
	}
}

// c10Expiry aims a teardown at the moment the approval timers of the victim expire. Whatever the
// interleaving, a timer that lost against the cleanup must stay silent and one that won must have
// written its result before the teardown call returned; the other peer's writes each time out once.
func c10Expiry(c *rig.Ctx) {
	r := c.Rand
	w := rig.NewWorld(c.Tag())
	defer w.Close()
	T := []time.Duration{200 * time.Microsecond, 500 * time.Microsecond, time.Millisecond, 2 * time.Millisecond}[r.Intn(4)]
	types := c10SrvTypes[:2]
	e := w.AddEntity(model.EntityTypeTypeCEM, []uint{1}, 4*time.Second)
	var srv []api.FeatureLocalInterface
	var fn []rig.FnInfo
	for _, t := range types {
		f := e.GetOrAddFeature(t, model.RoleTypeServer)
		fns := c06FnsOf(t)
		for _, x := range fns {
			f.AddFunctionType(x.Fn, true, true)
		}
		fn = append(fn, fns[len(fns)-1])
		f.SetWriteApprovalTimeout(T)
		_ = f.AddWriteApprovalCallback(func(m *api.Message) {}) // silent
		srv = append(srv, f)
	}
	ents := [][]uint{{1}, {1, 1}}
	var tree []rig.FS
	tree = append(tree, rig.NMFS)
	for _, ea := range ents {
		for i, t := range types {
			tree = append(tree, rig.FS{Ent: ea, Id: uint(i + 1), Typ: t, Role: model.RoleTypeClient})
		}
	}
	var peers []*rig.Peer
	from := make([][]uint, 2)
	for i := 0; i < 2; i++ {
		p := w.AddPeer(i)
		p.Ctr = uint64(i+1) * 100000
		p.Announce(tree)
		from[i] = ents[r.Intn(2)]
		mc := p.Bind(rig.FA(p.Addr, from[i], uint(i+1)), srv[i].Address(), types[i])
		if res := rig.Classify(p.Tap.Take(), mc); res.Success != 1 {
			c.Inconclusive("setup: binding of peer%d not granted (%s)", i, res)
			return
		}
		peers = append(peers, p)
	}
	// a quarter of the cases: both peers announce their unchanged tree (or the entity they bound from) once more
	reann := ""
	if aux := c10Aux(c, 12); aux.Intn(4) == 0 {
		for i, p := range peers {
			how := c10ReannHow(aux)
			c10Reannounce(p, tree, how, from[i])
			p.Tap.Take()
			reann += fmt.Sprintf(" peer%d announced itself again (%s);", i, how)
		}
		c.Count("expiry_teardowns_after_repeated_announcements", 1)
	}
	w.Core.Take()
	baseline := runtime.NumGoroutine()

	x := r.Intn(2)
	y := 1 - x
	X, Y := peers[x], peers[y]
	kind := []string{"disconnect", "remove-entity"}[r.Intn(2)]
	atHook := kind == "disconnect" && r.Intn(2) == 0
	nX, nY := 1+r.Intn(3), r.Intn(3)
	spread := int64(150 * time.Microsecond)
	if int64(T)/2 < spread {
		spread = int64(T) / 2
	}
	offset := time.Duration(r.Int63n(2*spread) - spread)

	var hooks *rig.Hooks
	var target time.Time
	spin := func() {
		for time.Now().Before(target) {
			runtime.Gosched()
		}
	}
	if atHook {
		hooks = rig.InstallHooks()
		defer hooks.Uninstall()
		hooks.On("RemoveRemoteDevice.beforeCleanup", func(any) { spin() })
	}

	type wr struct {
		peer int
		mc   model.MsgCounterType
	}
	var writes []wr
	order := r.Perm(nX + nY)
	t0 := time.Now() // no timer is armed before this moment
	for _, i := range order {
		pi := y
		if i < nX {
			pi = x
		}
		p := peers[pi]
		mc := p.Send(model.CmdClassifierTypeWrite, rig.FA(p.Addr, from[pi], uint(pi+1)), srv[pi].Address(), true, nil, rig.CmdFor(fn[pi].Fn, reflect.New(fn[pi].T).Interface()))
		writes = append(writes, wr{pi, mc})
	}
	tArmed := time.Now() // every timer is armed by now
	target = t0.Add(T + offset)
	if !atHook {
		spin()
	}
	var seqReturn int64
	var tStart, tReturn time.Time
	okT, panicked := rig.Guard(30*time.Second, func() {
		tStart = time.Now()
		if kind == "disconnect" {
			w.Local.RemoveRemoteDeviceConnection(X.Ski)
		} else {
			X.NotifyDiscovery(true, X.Discovery(nil, nil, [][]uint{from[x]}))
		}
		seqReturn = rig.Seq()
		tReturn = time.Now()
	})
	if panicked != "" {
		c.Violate("expiry/"+kind+"/panic", "%s", panicked)
		return
	}
	if !okT {
		c.Inconclusive("teardown did not return within 30s")
		return
	}
	pendingOf := func(pi int) int {
		n := 0
		for _, f := range srv {
			pm, _ := f.(*spine.FeatureLocal).VerifApprovalState()
			n += pm[peers[pi].Ski]
		}
		return n
	}
	desc := fmt.Sprintf("timeout %v, %s of peer%d (writes from %s) aimed %v after the expiry of its first timer, held at the hook: %v; %d writes of peer%d, %d of peer%d pending;%s",
		T, kind, x, c06Key(from[x]), offset, atHook, nX, x, nY, y, reann)
	if n := pendingOf(x); n != 0 {
		c.Violate("expiry/"+kind+"/pending-approvals-survive", "%s: the stack still holds %d pending approvals for the victim after the teardown returned", desc, n)
	}
	if n := len(w.Local.BindingManager().Bindings(X.RD)); n != 0 {
		c.Violate("expiry/"+kind+"/binding-survives", "%s: %d bindings of the victim left", desc, n)
	}
	if n := len(w.Local.BindingManager().Bindings(Y.RD)); n != 1 {
		c.Violate("expiry/"+kind+"/binding-of-other-peer-lost", "%s: the other peer has %d bindings", desc, n)
	}

	// observe: until the other peer's timers have fired, the process is quiet again and 5 timeouts (at least 5 ms) have passed
	horizon := 5 * T
	if horizon < 5*time.Millisecond {
		horizon = 5 * time.Millisecond
	}
	settled := rig.WaitFor(20*time.Second, func() bool { return pendingOf(y) == 0 && time.Since(tReturn) >= horizon })
	quiet := rig.WaitQuiet(baseline, 10*time.Second)
	if !settled || !quiet {
		c.Inconclusive("timers did not fire / goroutines did not finish within the watchdog (settled=%v quiet=%v)", settled, quiet)
		return
	}
	outs := [][]rig.Out{peers[0].Tap.TakeOut(), peers[1].Tap.TakeOut()}
	answeredBefore := 0
	for _, wv := range writes {
		var all, late []model.DatagramType
		for _, o := range outs[wv.peer] {
			if o.D.Header.MsgCounterReference != nil && *o.D.Header.MsgCounterReference == wv.mc {
				all = append(all, o.D)
				if o.Seq > seqReturn {
					late = append(late, o.D)
				}
			}
		}
		c.Events(1)
		res := rig.Classify(all, wv.mc)
		if wv.peer == y {
			if res.Errors != 1 || res.Success != 0 || len(all) != 1 {
				c.Violate("expiry/"+kind+"/pending-approval-of-other-peer-lost", "%s: write %d of the other peer must receive exactly one result (the timeout), got %s", desc, wv.mc, res)
			}
			continue
		}
		if len(all) > 1 || res.Success > 0 {
			c.Violate("expiry/"+kind+"/write-answered-twice-or-applied", "%s: write %d of the victim: %s", desc, wv.mc, res)
		}
		if len(late) > 0 {
			sig := "expiry/disconnect/result-written-to-removed-connection"
			if kind != "disconnect" {
				sig = "expiry/entity-removal/write-of-removed-entity-answered-after-removal"
			}
			c.Violate(sig, "%s: write %d of the victim was answered after the teardown call had returned (observed for %v after quiescence): %s", desc, wv.mc, horizon, rig.JS(late[0]))
		} else if len(all) == 1 {
			answeredBefore++
		}
	}
	if kind == "disconnect" {
		for _, o := range outs[x] {
			if o.Seq > seqReturn && (o.D.Header.MsgCounterReference == nil) {
				c.Violate("expiry/disconnect/datagram-written-to-removed-connection", "%s: %s", desc, rig.JS(o.D))
			}
		}
	}
	// evidence: did the expiry of one of the victim's timers fall into the teardown call?
	overlap := !tStart.After(tArmed.Add(T)) && !tReturn.Before(t0.Add(T))
	if overlap {
		c.Count("expiry_inside_teardown_call", 1)
	}
	switch {
	case answeredBefore == 0:
		c.Count("victim_writes:all_silenced_by_cleanup", 1)
	case answeredBefore == nX:
		c.Count("victim_writes:all_timed_out_before_return", 1)
	default:
		c.Count("victim_writes:some_timed_out_some_silenced", 1)
	}
	c.Count("expiry:"+kind, 1)
	c.Seen("expiry_outcomes", fmt.Sprintf("%s hook=%v T=%v answered=%d/%d", kind, atHook, T, answeredBefore, nX))
	c.Shape(fmt.Sprintf("%s T=%v hook=%v nX=%d nY=%d answered=%d", kind, T, atHook, nX, nY, answeredBefore))
	c.NonTrivial(overlap)
	if c.Failed() {
		c.Witness(map[string]any{"case": desc})
	}
	c.Sample(map[string]any{"case": desc, "victim_writes_answered_before_return": answeredBefore, "expiry_inside_teardown_call": overlap,
		"teardown_call_took": tReturn.Sub(tStart).String(), "horizon": horizon.String()})
}

// ---------------------------------------------------------------------------------------------------
// window: requests of other peers placed inside the registry cleanup of a teardown

// c10Actor is another peer whose requests are released by the trigger while the teardown of the victim
// is inside the cleanup of one registry.
type c10Actor struct {
	peer    int
	mgr     string        // "sub": subscribe/unsubscribe requests | "bind": bind/unbind requests
	at      int32         // the victim's at-th removal event of that registry releases the actor; 0 = released just before the teardown call (unaimed overlap)
	lead    time.Duration // at == 0: how long before the teardown call
	hold    time.Duration
	ops     []*c10WinOp
	seen    atomic.Int32
	release chan struct{}
	fired   atomic.Bool // the trigger released the actor
	entered atomic.Bool // the actor's goroutine was about to hand its first request to the stack
	inside  atomic.Bool // ... and that was observed before the trigger let the teardown continue
}

type c10WinOp struct {
	kind string // subscribe | unsubscribe | bind | unbind
	ent  []uint
	srv  int
	raw  []byte
	mc   model.MsgCounterType
}

// c10Trigger is a core-level event handler: Events.Publish calls it synchronously on the goroutine that
// runs the teardown, i.e. inside the cleanup of the registry that publishes the removal event.
type c10Trigger struct {
	ski    string
	actors map[api.EventType]*c10Actor
}

func (t *c10Trigger) HandleEvent(p api.EventPayload) {
	if p.Ski != t.ski || p.ChangeType != api.ElementChangeRemove {
		return
	}
	a := t.actors[p.EventType]
	if a == nil || a.seen.Add(1) != a.at {
		return
	}
	a.fired.Store(true)
	close(a.release)
	// Bounded wait, never judged: until the other peer's goroutine is about to enter the stack, then a
	// short pause that lets its request reach the registry. The request itself cannot finish before this
	// handler returns (if the registry lets it in, it stops at the publication of its own event, which is
	// serialised with the publication this handler is part of), so there is nothing more to wait for.
	deadline := time.Now().Add(50 * time.Millisecond)
	for !a.entered.Load() && time.Now().Before(deadline) {
		runtime.Gosched()
	}
	if a.entered.Load() {
		time.Sleep(a.hold)
		a.inside.Store(true)
	}
}

func c10Window(c *rig.Ctx) {
	r := c.Rand
	w := rig.NewWorld(c.Tag())
	defer w.Close()

	// ---- local device: six server features, writes need a binding but no approval
	e := w.AddEntity(model.EntityTypeTypeCEM, []uint{1}, 4*time.Second)
	var srv []api.FeatureLocalInterface
	var wfn []rig.FnInfo
	for _, t := range c10SrvTypes {
		f := e.GetOrAddFeature(t, model.RoleTypeServer)
		fns := c06FnsOf(t)
		for _, fn := range fns {
			f.AddFunctionType(fn.Fn, true, true)
		}
		wfn = append(wfn, fns[len(fns)-1])
		srv = append(srv, f)
	}
	var tree []rig.FS
	tree = append(tree, rig.NMFS)
	for _, ea := range c10Ents {
		for i, t := range c10SrvTypes {
			tree = append(tree, rig.FS{Ent: ea, Id: uint(i + 1), Typ: t, Role: model.RoleTypeClient})
		}
	}
	var peers []*rig.Peer
	for i := 0; i < 3; i++ {
		p := w.AddPeer(i)
		p.Ctr = uint64(i+1) * 100000
		p.Announce(tree)
		p.Tap.Take()
		peers = append(peers, p)
	}

	var trace []string
	fail := func(sig, format string, a ...any) {
		c.Violate(sig, "%s\n history (last is the failing step):\n   %s", fmt.Sprintf(format, a...), strings.Join(trace, "\n   "))
		c.Witness(map[string]any{"history": trace})
	}
	type entry struct {
		kind string // sub | bind
		peer int
		ent  []uint
		srv  int
	}
	caddr := func(en entry) *model.FeatureAddressType { return rig.FA(peers[en.peer].Addr, en.ent, uint(en.srv+1)) }
	key := func(en entry) string {
		return fmt.Sprintf("%-4s peer%d client=%s server=%s", en.kind, en.peer, caddr(en).String(), srv[en.srv].Address().String())
	}
	ref := map[string]entry{}      // what the registries must contain
	universe := map[string]entry{} // every pair that was ever granted
	setup := func(en entry) bool {
		p := peers[en.peer]
		var mc model.MsgCounterType
		if en.kind == "sub" {
			mc = p.Subscribe(caddr(en), srv[en.srv].Address(), c10SrvTypes[en.srv])
		} else {
			mc = p.Bind(caddr(en), srv[en.srv].Address(), c10SrvTypes[en.srv])
		}
		trace = append(trace, fmt.Sprintf("peer%d %s %s/%d -> local server %d", en.peer, en.kind, c06Key(en.ent), en.srv+1, en.srv))
		if res := rig.Classify(p.Tap.Take(), mc); res.Success != 1 || res.Errors != 0 {
			fail("window/setup/"+en.kind+"-not-granted", "%s", res)
			return false
		}
		ref[key(en)], universe[key(en)] = en, en
		return true
	}

	// ---- roles and teardown
	x := r.Intn(3)
	others := []int{(x + 1) % 3, (x + 2) % 3}
	if r.Intn(2) == 0 {
		others[0], others[1] = others[1], others[0]
	}
	sp, bp := others[0], others[1] // the peer that sends subscription requests / binding requests during the teardown
	kind := []string{"disconnect", "disconnect", "remove[1]", "remove[1,1]", "remove[2]"}[r.Intn(5)]
	var remEnt []uint
	switch kind {
	case "remove[1]":
		remEnt = []uint{1}
	case "remove[1,1]":
		remEnt = []uint{1, 1}
	case "remove[2]":
		remEnt = []uint{2}
	}
	randEnt := func() []uint { return c10Ents[r.Intn(len(c10Ents))] }
	vEnt := func(must bool) []uint { // entity of an entry of the victim
		if must && remEnt != nil {
			return remEnt
		}
		return randEnt()
	}

	// ---- setup history: the victim holds 1-3 subscriptions and 1-2 bindings that the teardown removes (plus
	// some that an entity removal leaves alone); the other two peers hold subscriptions and bindings with
	// overlapping numbers
	var ops []entry
	dup := map[string]bool{}
	add := func(en entry) bool {
		if dup[key(en)] {
			return false
		}
		dup[key(en)] = true
		ops = append(ops, en)
		return true
	}
	perm := r.Perm(len(srv))
	nVB := 1 + r.Intn(2)
	for i := 0; i < nVB; i++ {
		add(entry{"bind", x, vEnt(i == 0 || r.Intn(2) == 0), perm[i]})
	}
	nBB := 1 + r.Intn(2) // bindings the binding actor holds before the teardown
	for i := 0; i < nBB; i++ {
		add(entry{"bind", bp, randEnt(), perm[nVB+i]})
	}
	next := nVB + nBB
	if r.Intn(2) == 0 {
		add(entry{"bind", sp, randEnt(), perm[next]})
		next++
	}
	free := append([]int(nil), perm[next:]...) // server features nobody binds in the setup (at least one)
	for n, i := 1+r.Intn(3), 0; i < n; i++ {
		add(entry{"sub", x, vEnt(i == 0 || r.Intn(2) == 0), r.Intn(len(srv))})
	}
	for n := 2 + r.Intn(3); n > 0; n-- {
		add(entry{"sub", sp, randEnt(), r.Intn(len(srv))})
	}
	for n := r.Intn(3); n > 0; n-- {
		add(entry{"sub", bp, randEnt(), r.Intn(len(srv))})
	}
	r.Shuffle(len(ops), func(i, j int) { ops[i], ops[j] = ops[j], ops[i] })
	for _, en := range ops {
		if !setup(en) {
			return
		}
	}
	// a third of the cases: some peers announce their unchanged tree (or one known entity) once more after the setup
	if aux := c10Aux(c, 11); aux.Intn(3) == 0 {
		for pi, p := range peers {
			if aux.Intn(2) == 0 {
				o := c10Op{kind: "reann", peer: pi, how: c10ReannHow(aux), ent: c10Ents[aux.Intn(len(c10Ents))]}
				c10Reannounce(p, tree, o.how, o.ent)
				trace = append(trace, o.String())
				if pi == x {
					c.Count("window_teardowns_of_a_peer_that_had_announced_itself_again", 1)
				}
			}
		}
	}

	// ---- what the teardown removes
	hit := func(en entry) bool { return en.peer == x && (remEnt == nil || c06Key(en.ent) == c06Key(remEnt)) }
	nRem := map[string]int32{}
	twins := 0
	for k, en := range ref {
		if hit(en) {
			nRem[en.kind]++
			delete(ref, k)
		}
	}
	for _, en := range ref {
		if en.peer != x && (remEnt == nil || c06Key(en.ent) == c06Key(remEnt)) {
			twins++
		}
	}

	// ---- the requests of the other two peers, prepared as bytes so that the released goroutine enters the stack at once
	mk := func(pi int, kindOp string, ent []uint, s int) *c10WinOp {
		p := peers[pi]
		ca, sa := rig.FA(p.Addr, ent, uint(s+1)), srv[s].Address()
		var cmd model.CmdType
		switch kindOp {
		case "subscribe":
			cmd = model.CmdType{NodeManagementSubscriptionRequestCall: spine.NewNodeManagementSubscriptionRequestCallType(ca, sa, c10SrvTypes[s])}
		case "unsubscribe":
			cmd = model.CmdType{NodeManagementSubscriptionDeleteCall: spine.NewNodeManagementSubscriptionDeleteCallType(ca, sa)}
		case "bind":
			cmd = model.CmdType{NodeManagementBindingRequestCall: spine.NewNodeManagementBindingRequestCallType(ca, sa, c10SrvTypes[s])}
		case "unbind":
			cmd = model.CmdType{NodeManagementBindingDeleteCall: spine.NewNodeManagementBindingDeleteCallType(ca, sa)}
		}
		mc := p.NextCounter()
		b, err := json.Marshal(rig.Datagram(model.CmdClassifierTypeCall, p.NM(), rig.LNM, mc, true, nil, cmd))
		if err != nil {
			panic("harness: cannot marshal datagram: " + err.Error())
		}
		return &c10WinOp{kind: kindOp, ent: ent, srv: s, raw: b, mc: mc}
	}
	holdOf := func() time.Duration {
		d := time.Duration(150+r.Intn(450)) * time.Microsecond
		if c.Race {
			d *= 4
		}
		return d
	}
	sa := &c10Actor{peer: sp, mgr: "sub", at: 1 + r.Int31n(nRem["sub"]), hold: holdOf(), release: make(chan struct{})}
	ba := &c10Actor{peer: bp, mgr: "bind", at: 1 + r.Int31n(nRem["bind"]), hold: holdOf(), release: make(chan struct{})}
	for _, a := range []*c10Actor{sa, ba} {
		if r.Intn(5) == 0 { // the requests are already on their way when the teardown starts
			a.at, a.lead = 0, time.Duration(r.Intn(200))*time.Microsecond
		}
	}
	{
		have := map[string]entry{} // subscriptions of sp as they develop
		for k, en := range ref {
			if en.kind == "sub" && en.peer == sp {
				have[k] = en
			}
		}
		for n := 1 + r.Intn(3); n > 0; n-- {
			var ks []string
			for k := range have {
				ks = append(ks, k)
			}
			sort.Strings(ks)
			if len(ks) > 0 && r.Intn(2) == 0 {
				en := have[ks[r.Intn(len(ks))]]
				delete(have, key(en))
				sa.ops = append(sa.ops, mk(sp, "unsubscribe", en.ent, en.srv))
				continue
			}
			en := entry{"sub", sp, randEnt(), r.Intn(len(srv))}
			if r.Intn(2) == 0 { // the very pair numbers the victim loses
				for _, o := range ops {
					if o.kind == "sub" && hit(o) {
						en.ent, en.srv = o.ent, o.srv
						break
					}
				}
			}
			if _, dupl := have[key(en)]; dupl {
				continue
			}
			if _, was := universe[key(en)]; was {
				continue // never re-subscribe a pair that is being unsubscribed in the same window
			}
			have[key(en)] = en
			universe[key(en)] = en
			sa.ops = append(sa.ops, mk(sp, "subscribe", en.ent, en.srv))
		}
		if len(sa.ops) == 0 {
			en := entry{"sub", sp, randEnt(), r.Intn(len(srv))}
			for {
				if _, was := universe[key(en)]; !was {
					break
				}
				en = entry{"sub", sp, randEnt(), r.Intn(len(srv))}
			}
			universe[key(en)] = en
			sa.ops = append(sa.ops, mk(sp, "subscribe", en.ent, en.srv))
		}
	}
	{
		var held []entry
		for _, o := range ops {
			if o.kind == "bind" && o.peer == bp {
				held = append(held, o)
			}
		}
		fr := append([]int(nil), free...)
		for n := 1 + r.Intn(2); n > 0; n-- {
			if (len(held) > 0 && r.Intn(2) == 0) || len(fr) == 0 {
				if len(held) == 0 {
					break
				}
				i := r.Intn(len(held))
				en := held[i]
				held = append(held[:i], held[i+1:]...)
				ba.ops = append(ba.ops, mk(bp, "unbind", en.ent, en.srv))
				continue
			}
			i := r.Intn(len(fr))
			en := entry{"bind", bp, randEnt(), fr[i]}
			fr = append(fr[:i], fr[i+1:]...)
			universe[key(en)] = en
			ba.ops = append(ba.ops, mk(bp, "bind", en.ent, en.srv))
		}
	}
	for pi := range peers {
		peers[pi].Tap.Take()
	}
	w.Core.Take()
	baseline := runtime.NumGoroutine()

	// ---- teardown with the trigger installed
	trig := &c10Trigger{ski: peers[x].Ski, actors: map[api.EventType]*c10Actor{api.EventTypeSubscriptionChange: sa, api.EventTypeBindingChange: ba}}
	_ = spine.VerifSubscribeCore(trig)
	defer func() { _ = spine.VerifUnsubscribeCore(trig) }()
	stop := make(chan struct{})
	var wg sync.WaitGroup
	for _, a := range []*c10Actor{sa, ba} {
		wg.Add(1)
		go func(a *c10Actor) {
			defer wg.Done()
			select {
			case <-a.release:
			case <-stop: // the teardown has returned
				if !a.fired.Load() {
					return // never released (judged below)
				}
				// released, but this goroutine was not scheduled before the teardown returned: the
				// requests are sent all the same (both channels are closed, select picks either)
			}
			a.entered.Store(true)
			for _, o := range a.ops {
				peers[a.peer].Raw(o.raw)
			}
		}(a)
	}
	trace = append(trace, fmt.Sprintf("TEARDOWN peer%d %s; at its subscription removal event #%d peer%d sends %s, at its binding removal event #%d peer%d sends %s (#0 = released just before the teardown call)",
		x, kind, sa.at, sp, c10OpList(sa.ops), ba.at, bp, c10OpList(ba.ops)))
	var seqReturn int64
	notify := peers[x].Discovery(nil, nil, [][]uint{remEnt})
	okT, panicked := rig.Guard(30*time.Second, func() {
		var lead time.Duration
		for _, a := range []*c10Actor{sa, ba} {
			if a.at == 0 {
				a.fired.Store(true)
				close(a.release)
				if a.lead > lead {
					lead = a.lead
				}
			}
		}
		for t := time.Now(); lead > 0 && time.Since(t) < lead; {
			runtime.Gosched()
		}
		if kind == "disconnect" {
			w.Local.RemoveRemoteDeviceConnection(peers[x].Ski)
		} else {
			peers[x].NotifyDiscovery(true, notify)
		}
		seqReturn = rig.Seq()
	})
	close(stop)
	if panicked != "" {
		fail("window/"+kind+"/panic", "%s", panicked)
		return
	}
	if !okT {
		c.Inconclusive("teardown did not return within 30s")
		return
	}
	if !waitWG(&wg, 30*time.Second) {
		c.Inconclusive("requests of the other peers did not return within 30s")
		return
	}
	_ = spine.VerifUnsubscribeCore(trig)
	if !rig.WaitQuiet(baseline, 10*time.Second) {
		c.Inconclusive("goroutines did not finish within the watchdog")
		return
	}
	for _, p := range peers {
		if p.PanicCount() > 0 {
			fail("window/"+kind+"/panic", "panic while handling a message: %v", p.Panics)
			return
		}
	}
	outs := make([][]rig.Out, 3)
	ds := make([][]model.DatagramType, 3)
	for pi, p := range peers {
		outs[pi] = p.Tap.TakeOut()
		for _, o := range outs[pi] {
			ds[pi] = append(ds[pi], o.D)
		}
	}

	// ---- (1) a removal event was published for each entry (the trigger counts them), so both actors ran
	for _, a := range []*c10Actor{sa, ba} {
		c.Events(1)
		if !a.fired.Load() {
			fail("window/"+kind+"/removal-event-missing", "peer%d held %d %s entries that the teardown removes, but only %d removal events for them were published", x, nRem[a.mgr], a.mgr, a.seen.Load())
			return
		}
		if n := a.seen.Load(); n != nRem[a.mgr] {
			fail("window/"+kind+"/removal-events-differ-from-entries", "peer%d held %d %s entries that the teardown removes, %d removal events for them were published", x, nRem[a.mgr], a.mgr, n)
		}
	}

	// ---- (2) every request of the other peers is acknowledged (all of them are legitimate whatever the order)
	granted := map[string]string{} // key -> op kind that was acknowledged
	for _, a := range []*c10Actor{sa, ba} {
		for i, o := range a.ops {
			en := entry{map[string]string{"subscribe": "sub", "unsubscribe": "sub", "bind": "bind", "unbind": "bind"}[o.kind], a.peer, o.ent, o.srv}
			res := rig.Classify(ds[a.peer], o.mc)
			c.Events(1)
			trace = append(trace, fmt.Sprintf("  (during the teardown, request %d) peer%d %s %s/%d -> local server %d: %s", i+1, a.peer, o.kind, c06Key(o.ent), o.srv+1, o.srv, res))
			if res.Success != 1 || res.Errors != 0 || len(res.All) != 1 {
				fail("window/"+kind+"/"+o.kind+"-request-of-other-peer-not-served", "peer%d %s %s/%d -> local server %d during the teardown of peer%d: %s", a.peer, o.kind, c06Key(o.ent), o.srv+1, o.srv, x, res)
				return
			}
			granted[key(en)] = o.kind
			if o.kind == "subscribe" || o.kind == "bind" {
				ref[key(en)] = en
			} else {
				delete(ref, key(en))
			}
		}
	}

	// ---- (3) registries == reference
	got := map[string]int{}
	for i, p := range peers {
		for _, s := range w.Local.SubscriptionManager().Subscriptions(p.RD) {
			got[fmt.Sprintf("%-4s peer%d client=%s server=%s", "sub", i, s.ClientFeature.Address().String(), s.ServerFeature.Address().String())]++
		}
		for _, b := range w.Local.BindingManager().Bindings(p.RD) {
			got[fmt.Sprintf("%-4s peer%d client=%s server=%s", "bind", i, b.ClientFeature.Address().String(), b.ServerFeature.Address().String())]++
		}
	}
	c.Events(int64(len(got) + len(ref)))
	bad := false
	var keys []string
	for k := range universe {
		keys = append(keys, k)
	}
	for k := range got {
		if _, ok := universe[k]; !ok {
			keys = append(keys, k)
		}
	}
	sort.Strings(keys)
	for _, k := range keys {
		en, known := universe[k]
		_, want := ref[k]
		n := got[k]
		switch {
		case want && n == 1, !want && n == 0:
			continue
		case want && n == 0 && granted[k] != "":
			fail("window/"+kind+"/"+en.kind+"-granted-to-other-peer-during-teardown-lost", "the %s request was acknowledged with a success result while peer%d was torn down, but the registry has no such entry: %s", granted[k], x, k)
		case want && n == 0:
			who := "other-peer"
			if en.peer == x {
				who = "other-entity-of-that-peer"
			}
			fail("window/"+kind+"/"+en.kind+"-entry-of-"+who+"-lost", "registry entry expected but not found: %s", k)
		case !want && granted[k] != "":
			fail("window/"+kind+"/"+en.kind+"-deleted-by-other-peer-during-teardown-resurrected", "the %s request was acknowledged with a success result while peer%d was torn down, but the registry holds the entry (%d times): %s", granted[k], x, n, k)
		case !want && known && hit(en):
			fail("window/"+kind+"/"+en.kind+"-entry-survives", "registry entry of the removed device/entity is still present %d times: %s", n, k)
		default:
			fail("window/"+kind+"/registry-differs", "registry entry found %d times, expected %v: %s", n, want, k)
		}
		bad = true
	}
	// HasLocalFeatureRemoteBinding for every pair that was ever bound
	for _, k := range keys {
		en, ok := universe[k]
		if !ok || en.kind != "bind" {
			continue
		}
		_, want := ref[k]
		c.Events(1)
		if g := w.Local.BindingManager().HasLocalFeatureRemoteBinding(srv[en.srv].Address(), caddr(en)); g != want && !bad {
			fail("window/"+kind+"/has-binding-differs", "HasLocalFeatureRemoteBinding reports %v, expected %v: %s", g, want, k)
			bad = true
		}
	}

	// ---- (4) authorisation follows the acknowledged requests: a peer that unbound is refused, one that bound (or kept its binding) is accepted
	for _, k := range keys {
		en, ok := universe[k]
		if !ok || en.kind != "bind" || hit(en) {
			continue
		}
		p := peers[en.peer]
		_, want := ref[k]
		p.Tap.Take()
		mc := p.Send(model.CmdClassifierTypeWrite, caddr(en), srv[en.srv].Address(), true, nil, rig.CmdFor(wfn[en.srv].Fn, reflect.New(wfn[en.srv].T).Interface()))
		res := rig.Classify(p.Tap.Take(), mc)
		c.Events(1)
		trace = append(trace, fmt.Sprintf("peer%d writes %s from %s/%d to local server %d (binding expected: %v): %s", en.peer, wfn[en.srv].Fn, c06Key(en.ent), en.srv+1, en.srv, want, res))
		switch {
		case want && (res.Success != 1 || res.Errors != 0 || len(res.All) != 1):
			sig := "write-over-surviving-binding-not-accepted"
			if granted[k] == "bind" {
				sig = "write-over-binding-granted-during-teardown-not-accepted"
			}
			fail("window/"+kind+"/"+sig, "%s: %s", k, res)
		case !want && (res.Errors != 1 || res.Success != 0 || len(res.All) != 1):
			fail("window/"+kind+"/write-after-acknowledged-unbind-not-refused", "%s: the unbind was acknowledged during the teardown of peer%d, the write afterwards must receive exactly one error result: %s", k, x, res)
		}
	}
	for _, p := range peers {
		if p != peers[x] || kind != "disconnect" {
			p.Tap.Take()
		}
	}

	// ---- (5) a data change of every server feature notifies exactly the subscribers of the reference
	for s := range srv {
		fn := c06FnsOf(c10SrvTypes[s])[0]
		srv[s].SetData(fn.Fn, reflect.New(fn.T).Interface())
		gotN := map[string]int{}
		for pi, p := range peers {
			if pi == x && kind == "disconnect" {
				continue // judged below: nothing at all may reach the removed connection
			}
			for _, d := range p.Tap.Take() {
				if d.Header.CmdClassifier != nil && *d.Header.CmdClassifier == model.CmdClassifierTypeNotify && d.Header.AddressSource != nil && d.Header.AddressDestination != nil &&
					d.Header.AddressSource.String() == srv[s].Address().String() {
					gotN[fmt.Sprintf("%-4s peer%d client=%s server=%s", "sub", pi, d.Header.AddressDestination.String(), srv[s].Address().String())]++
				}
			}
		}
		var ks []string
		for k, en := range universe {
			if en.kind == "sub" && en.srv == s {
				ks = append(ks, k)
			}
		}
		for k := range gotN {
			if _, ok := universe[k]; !ok {
				ks = append(ks, k)
			}
		}
		sort.Strings(ks)
		for _, k := range ks {
			_, want := ref[k]
			c.Events(1)
			switch n := gotN[k]; {
			case want && n != 1:
				sig := "subscriber-not-notified"
				if granted[k] == "subscribe" {
					sig = "subscriber-granted-during-teardown-not-notified"
				}
				fail("window/"+kind+"/"+sig, "data of local server %d changed; %d notifications for %s", s, n, k)
			case !want && n != 0:
				sig := "notification-for-removed-subscription"
				if granted[k] == "unsubscribe" {
					sig = "notification-after-acknowledged-unsubscribe"
				}
				fail("window/"+kind+"/"+sig, "data of local server %d changed; %d notifications for %s", s, n, k)
			}
		}
	}

	// ---- (6) nothing reached the removed connection after the removal returned
	if kind == "disconnect" {
		c.Events(1)
		for _, o := range append(outs[x], peers[x].Tap.TakeOut()...) {
			if o.Seq > seqReturn {
				fail("window/disconnect/datagram-written-to-removed-connection", "%s", rig.JS(o.D))
				break
			}
		}
	}

	forced := 0
	for _, a := range []*c10Actor{sa, ba} {
		if a.inside.Load() {
			forced++
			c.Count("windows_forced:"+a.mgr+"-registry:first-request="+a.ops[0].kind, 1)
		}
		if a.at == 0 {
			c.Count("unaimed_overlaps:requests_released_just_before_the_teardown", 1)
		}
		c.Count("requests_of_other_peers_during_teardown", int64(len(a.ops)))
	}
	c.Count("windows_forced", int64(forced))
	c.Count("window_teardown:"+kind, 1)
	c.Count("entries_of_other_peers_with_the_same_numbers", int64(twins))
	c.Shape(fmt.Sprintf("window %s sub@%d/%d[%s] bind@%d/%d[%s]", kind, sa.at, nRem["sub"], c10OpList(sa.ops), ba.at, nRem["bind"], c10OpList(ba.ops)))
	c.NonTrivial(forced > 0)
	tr := trace
	if len(tr) > 40 {
		tr = append(append([]string{}, tr[:10]...), append([]string{"..."}, tr[len(tr)-29:]...)...)
	}
	c.Sample(map[string]any{"history": tr, "teardown": kind, "peer": x, "windows_forced": forced, "hold_sub": sa.hold.String(), "hold_bind": ba.hold.String()})
}

func c10OpList(ops []*c10WinOp) string {
	var s []string
	for _, o := range ops {
		s = append(s, o.kind)
	}
	return strings.Join(s, ",")
}

// ---------------------------------------------------------------------------------------------------
// reconnect: what was armed for a removed connection must not act on its successor with the same SKI

const c10Long = 30 * time.Minute // "never within a case"; Close() removes the connection and with it the pending approval

func c10Reconnect(c *rig.Ctx) {
	// a quarter of the cases (second PRNG): approvals counted for a write that TIMED OUT on the first connection
	// must not count for the write with the same counter on the second connection (x_c10c12_stale.go)
	if aux := c10Aux(c, 13); aux.Intn(4) == 0 {
		xStaleApprovals(c, aux, "stale-approvals", true)
		return
	}
	r := c.Rand
	w := rig.NewWorld(c.Tag())
	defer w.Close()
	mode := "reconnect"
	if r.Intn(4) == 0 {
		mode = "approve-at-removal"
	}
	T := []time.Duration{25 * time.Millisecond, 50 * time.Millisecond}[r.Intn(2)]
	if c.Race {
		T *= 2
	}
	types := c10SrvTypes[:3]
	e := w.AddEntity(model.EntityTypeTypeCEM, []uint{1}, 4*time.Second)
	var srv []api.FeatureLocalInterface
	var wfn []rig.FnInfo
	var capMu sync.Mutex
	var captured []*api.Message // what the silent approval callbacks were handed
	for _, t := range types {
		f := e.GetOrAddFeature(t, model.RoleTypeServer)
		fns := c06FnsOf(t)
		for _, fn := range fns {
			f.AddFunctionType(fn.Fn, true, true)
		}
		wfn = append(wfn, fns[len(fns)-1])
		f.SetWriteApprovalTimeout(T)
		_ = f.AddWriteApprovalCallback(func(m *api.Message) { // silent
			capMu.Lock()
			captured = append(captured, m)
			capMu.Unlock()
		})
		srv = append(srv, f)
	}
	capturedFor := func(rd api.DeviceRemoteInterface, mc model.MsgCounterType) *api.Message {
		capMu.Lock()
		defer capMu.Unlock()
		for _, m := range captured {
			if m != nil && m.DeviceRemote == rd && m.RequestHeader != nil && m.RequestHeader.MsgCounter != nil && *m.RequestHeader.MsgCounter == mc {
				return m
			}
		}
		return nil
	}
	ents := [][]uint{{1}, {1, 1}}
	var tree []rig.FS
	tree = append(tree, rig.NMFS)
	for _, ea := range ents {
		for i, t := range types {
			tree = append(tree, rig.FS{Ent: ea, Id: uint(i + 1), Typ: t, Role: model.RoleTypeClient})
		}
	}
	var trace []string
	fail := func(sig, format string, a ...any) {
		c.Violate(sig, "%s\n history (last is the failing step):\n   %s", fmt.Sprintf(format, a...), strings.Join(trace, "\n   "))
		c.Witness(map[string]any{"history": trace})
	}

	// ---- two identically numbered peers; X binds one or two of the three server features, Y the remaining
	// one(s) and subscribes to everything
	xi := r.Intn(2)
	var peers [2]*rig.Peer
	for i := 0; i < 2; i++ {
		peers[i] = w.AddPeer(i)
	}
	X, Y := peers[xi], peers[1-xi]
	perm := r.Perm(3)
	nX := 1 + r.Intn(2)
	xs, ys := perm[:nX], perm[nX:]
	fromX, fromY := ents[r.Intn(2)], ents[r.Intn(2)]
	const ctr0 = 5000 // both connections of X count from here
	type pw struct {
		srv int
		mc  model.MsgCounterType
	}
	// connect = what a peer does after its connection is established; the same calls with the same counters both times
	connect := func(p *rig.Peer, start uint64, from []uint, ss []int, nWrites int, what string) (writes []pw, ok bool) {
		p.Ctr = start
		p.Announce(tree)
		for _, s := range ss {
			mc := p.Bind(rig.FA(p.Addr, from, uint(s+1)), srv[s].Address(), types[s])
			if res := rig.Classify(p.Tap.Take(), mc); res.Success != 1 || res.Errors != 0 {
				fail(mode+"/"+what+"-binding-not-granted", "%s binds %s/%d -> local server %d: %s", p.Addr, c06Key(from), s+1, s, res)
				return nil, false
			}
		}
		trace = append(trace, fmt.Sprintf("%s (%s): announces, binds %s/x -> local servers %v", p.Addr, what, c06Key(from), ss))
		for i := 0; i < nWrites; i++ {
			s := ss[i%len(ss)]
			mc := p.Send(model.CmdClassifierTypeWrite, rig.FA(p.Addr, from, uint(s+1)), srv[s].Address(), true, nil, rig.CmdFor(wfn[s].Fn, reflect.New(wfn[s].T).Interface()))
			writes = append(writes, pw{s, mc})
			trace = append(trace, fmt.Sprintf("%s (%s): writes %s to local server %d with counter %d: left pending approval", p.Addr, what, wfn[s].Fn, s, mc))
		}
		return writes, true
	}
	waitCaptured := func(rd api.DeviceRemoteInterface, ws []pw) bool {
		return rig.WaitFor(10*time.Second, func() bool {
			for _, wr := range ws {
				if capturedFor(rd, wr.mc) == nil {
					return false
				}
			}
			return true
		})
	}
	pendingOf := func(ski string) int {
		n := 0
		for _, f := range srv {
			pm, _ := f.(*spine.FeatureLocal).VerifApprovalState()
			n += pm[ski]
		}
		return n
	}
	isLate := func(outs []rig.Out, after int64) *rig.Out {
		for i, o := range outs {
			if o.Seq > after {
				return &outs[i]
			}
		}
		return nil
	}
	notifiesFrom := func(dgs []model.DatagramType) int {
		n := 0
		for _, d := range dgs {
			if d.Header.CmdClassifier != nil && *d.Header.CmdClassifier == model.CmdClassifierTypeNotify && d.Header.AddressSource != nil && d.Header.AddressSource.Entity != nil &&
				d.Header.AddressSource.Feature != nil && *d.Header.AddressSource.Feature != 0 {
				n++
			}
		}
		return n
	}
	dataEvents := func(evs []rig.Ev, ski string) int {
		n := 0
		for _, ev := range evs {
			if ev.P.EventType == api.EventTypeDataChange && ev.P.Ski == ski && ev.P.CmdClassifier != nil && *ev.P.CmdClassifier == model.CmdClassifierTypeWrite {
				n++
			}
		}
		return n
	}

	// Y first: bindings, subscriptions to all three server features, no pending write yet
	if _, ok := connect(Y, 4000, fromY, ys, 0, "only connection"); !ok {
		return
	}
	for s := range srv {
		mc := Y.Subscribe(rig.FA(Y.Addr, fromY, uint(s+1)), srv[s].Address(), types[s])
		if res := rig.Classify(Y.Tap.Take(), mc); res.Success != 1 {
			fail(mode+"/setup-subscription-not-granted", "%s", res)
			return
		}
	}
	if mode == "approve-at-removal" {
		for _, s := range xs {
			srv[s].SetWriteApprovalTimeout(c10Long)
		}
	}
	Y.Tap.Take()
	var yLog []model.DatagramType // everything Y receives from here on
	takeY := func() []model.DatagramType {
		d := Y.Tap.Take()
		yLog = append(yLog, d...)
		return d
	}
	baseline := runtime.NumGoroutine()
	nW := 1 + r.Intn(2)
	t0 := time.Now() // no approval timer is armed before this moment
	oldWrites, ok := connect(X, ctr0, fromX, xs, nW, "first connection")
	if !ok {
		return
	}
	oldRD, oldTap := X.RD, X.Tap
	var yWrites []pw
	if mode == "reconnect" && r.Intn(2) == 0 { // the other peer has a write pending under the short timeout, with the same counter as X's first write
		Y.Ctr = uint64(oldWrites[0].mc) - 1
		s := ys[0]
		mc := Y.Send(model.CmdClassifierTypeWrite, rig.FA(Y.Addr, fromY, uint(s+1)), srv[s].Address(), true, nil, rig.CmdFor(wfn[s].Fn, reflect.New(wfn[s].T).Interface()))
		yWrites = append(yWrites, pw{s, mc})
		trace = append(trace, fmt.Sprintf("%s: writes %s to local server %d with counter %d: left pending approval", Y.Addr, wfn[s].Fn, s, mc))
	}
	if !waitCaptured(oldRD, oldWrites) || !waitCaptured(Y.RD, yWrites) {
		c.Inconclusive("approval callbacks were not invoked within 10s")
		return
	}
	if !rig.WaitQuiet(baseline, 10*time.Second) {
		c.Inconclusive("goroutines did not finish within the watchdog")
		return
	}

	if mode == "approve-at-removal" {
		// the application approves the first pending write; the approval is held between the lookup of the
		// pending write and its execution while the connection is removed
		hooks := rig.InstallHooks()
		defer hooks.Uninstall()
		release := hooks.Gate("ApproveOrDenyWrite.afterLookup")
		wr := oldWrites[r.Intn(len(oldWrites))]
		msg := capturedFor(oldRD, wr.mc)
		done := make(chan string, 1)
		go func() {
			_, p := rig.Guard(60*time.Second, func() { srv[wr.srv].ApproveOrDenyWrite(msg, model.ErrorType{ErrorNumber: 0}) })
			done <- p
		}()
		if !rig.WaitFor(10*time.Second, func() bool { return hooks.GateWaiting("ApproveOrDenyWrite.afterLookup") >= 1 }) {
			release()
			c.Inconclusive("the approval did not reach the hook within 10s")
			return
		}
		trace = append(trace, fmt.Sprintf("application approves write %d; the call is held after the lookup of the pending write", wr.mc))
		oldTap.Take()
		Y.Tap.Take()
		w.Core.Take()
		w.Local.RemoveRemoteDeviceConnection(X.Ski)
		seqReturn := rig.Seq()
		trace = append(trace, "connection of "+X.Addr+" removed; then the approval call continues")
		release()
		select {
		case p := <-done:
			if p != "" {
				fail("approve-at-removal/panic", "%s", p)
				return
			}
		case <-time.After(30 * time.Second):
			c.Inconclusive("ApproveOrDenyWrite did not return within 30s")
			return
		}
		if !rig.WaitQuiet(baseline, 10*time.Second) {
			c.Inconclusive("goroutines did not finish within the watchdog")
			return
		}
		c.Events(4)
		if o := isLate(oldTap.TakeOut(), seqReturn); o != nil {
			fail("approve-at-removal/datagram-written-to-removed-connection", "%s", rig.JS(o.D))
		}
		if n := dataEvents(w.Core.Take(), X.Ski); n != 0 {
			fail("approve-at-removal/write-of-removed-device-executed", "%d data change events for a write of the removed device were published after its removal", n)
		}
		if n := notifiesFrom(Y.Tap.Take()); n != 0 {
			fail("approve-at-removal/write-of-removed-device-executed", "the subscriber %s received %d notifications after the removal of %s although nothing may have changed", Y.Addr, n, X.Addr)
		}
		if n := pendingOf(X.Ski); n != 0 {
			fail("approve-at-removal/pending-approvals-survive", "%d pending approvals for the removed device", n)
		}
		c.Count("approvals_held_across_the_removal", 1)
		c.Shape(fmt.Sprintf("approve-at-removal nX=%d nW=%d", nX, nW))
		c.NonTrivial(true)
		c.Sample(map[string]any{"history": trace})
		return
	}

	// ---- removal, then the same peer connects again before the approval timeout has passed
	w.Core.Take()
	w.Local.RemoveRemoteDeviceConnection(X.Ski)
	seqReturn := rig.Seq()
	tReturn := time.Now()
	trace = append(trace, fmt.Sprintf("connection of %s removed (approval timeout %v)", X.Addr, T))
	if n := pendingOf(X.Ski); n != 0 {
		fail("reconnect/pending-approvals-survive", "%d pending approvals for the removed device", n)
		return
	}
	for _, s := range xs {
		srv[s].SetWriteApprovalTimeout(c10Long) // quiescent point: only writes received from now on are affected
	}
	X.Tap = &rig.Tap{}
	w.Local.SetupRemoteDevice(X.Ski, X.Tap)
	X.RD = w.Local.RemoteDeviceForSki(X.Ski)
	newWrites, ok := connect(X, ctr0, fromX, xs, nW, "second connection, same SKI")
	if !ok {
		return
	}
	for i := range newWrites {
		if newWrites[i] != oldWrites[i] {
			c.Inconclusive("harness: the second connection did not reproduce the counters of the first")
			return
		}
	}
	if !waitCaptured(X.RD, newWrites) {
		c.Inconclusive("approval callbacks were not invoked within 10s")
		return
	}
	inTime := time.Since(t0) < T // evidence only: timers never fire early, so the old timers (if they still exist) will meet the new entries
	if n := pendingOf(X.Ski); n != nW {
		// the new timeout is far away, so only something that was armed for the old connection can have removed an entry
		fail("reconnect/pending-approval-of-new-connection-lost", "%d writes of the new connection are waiting for approval, the stack holds %d pending approvals for %s", nW, n, X.Ski)
	}

	// ---- observe until 5 x the timeout after the removal returned (and the other peer's timer has fired)
	settled := rig.WaitFor(20*time.Second, func() bool { return pendingOf(Y.Ski) == 0 && time.Since(tReturn) >= 5*T })
	quiet := rig.WaitQuiet(baseline, 10*time.Second)
	if !settled || !quiet {
		c.Inconclusive("timers did not fire / goroutines did not finish within the watchdog (settled=%v quiet=%v)", settled, quiet)
		return
	}
	c.Events(3)
	oldOuts := oldTap.TakeOut()
	if o := isLate(oldOuts, seqReturn); o != nil {
		what := "datagram"
		if len(o.D.Payload.Cmd) > 0 && o.D.Payload.Cmd[0].ResultData != nil {
			what = "result"
		}
		fail("reconnect/"+what+"-written-to-removed-connection", "written to the OLD connection of %s after RemoveRemoteDeviceConnection had returned (observed until %v after the removal): %s", X.Addr, 5*T, rig.JS(o.D))
	}
	if n := pendingOf(X.Ski); n != nW {
		fail("reconnect/pending-approval-of-new-connection-lost", "%d writes of the new connection are waiting for approval (timeout %v); %v after the removal of the old connection the stack holds %d pending approvals for %s",
			nW, c10Long, 5*T, n, X.Ski)
	}
	newDs := X.Tap.Take()
	for _, wr := range newWrites {
		if res := rig.Classify(newDs, wr.mc); len(res.All) != 0 {
			fail("reconnect/write-of-new-connection-answered-while-pending", "write %d of the new connection is waiting for approval but received %s: %s", wr.mc, res, rig.JS(res.All[0]))
		}
	}
	// ---- the application decides the writes of the new connection
	w.Core.Take()
	takeY()
	approvedN := 0
	for _, wr := range newWrites {
		deny := r.Intn(4) == 0
		verdict := model.ErrorType{ErrorNumber: 0}
		if deny {
			verdict = model.ErrorType{ErrorNumber: 7, Description: util.Ptr(model.DescriptionType("denied"))}
		} else {
			approvedN++
		}
		msg := capturedFor(X.RD, wr.mc)
		okA, p := rig.Guard(30*time.Second, func() { srv[wr.srv].ApproveOrDenyWrite(msg, verdict) })
		if p != "" || !okA {
			fail("reconnect/approval-panic-or-stuck", "%s", p)
			return
		}
		res := rig.Classify(X.Tap.Take(), wr.mc)
		c.Events(1)
		trace = append(trace, fmt.Sprintf("application decides write %d of the new connection (deny=%v): %s", wr.mc, deny, res))
		if len(res.All) != 1 || (deny && res.Errors != 1) || (!deny && res.Success != 1) {
			fail("reconnect/verdict-for-write-of-new-connection-not-carried-out", "write %d of the new connection, verdict deny=%v: %s", wr.mc, deny, res)
		}
	}
	if !rig.WaitQuiet(baseline, 10*time.Second) {
		c.Inconclusive("goroutines did not finish within the watchdog")
		return
	}
	c.Events(3)
	if n := dataEvents(w.Core.Take(), X.Ski); n != approvedN && !c.Failed() {
		fail("reconnect/verdict-for-write-of-new-connection-not-carried-out", "%d writes approved, %d data change events", approvedN, n)
	}
	if n := notifiesFrom(takeY()); n != approvedN && !c.Failed() {
		fail("reconnect/verdict-for-write-of-new-connection-not-carried-out", "%d writes approved, the subscriber %s received %d notifications", approvedN, Y.Addr, n)
	}
	if n := pendingOf(X.Ski); n != 0 {
		fail("reconnect/decided-write-still-pending", "%d pending approvals left for %s", n, X.Ski)
	}
	if o := isLate(oldTap.TakeOut(), seqReturn); o != nil && !c.Failed() {
		fail("reconnect/datagram-written-to-removed-connection", "%s", rig.JS(o.D))
	}
	// the other peer: its write timed out exactly once, its registry entries are untouched
	takeY()
	for _, wr := range yWrites {
		c.Events(1)
		if res := rig.Classify(yLog, wr.mc); res.Errors != 1 || res.Success != 0 || len(res.All) != 1 {
			fail("reconnect/pending-approval-of-other-peer-lost", "write %d of %s (same counter as the first write of %s) must receive exactly one result, the approval timeout; got %s", wr.mc, Y.Addr, X.Addr, res)
		}
	}
	if n := len(w.Local.BindingManager().Bindings(Y.RD)); n != len(ys) {
		fail("reconnect/binding-of-other-peer-lost", "%s has %d bindings, expected %d", Y.Addr, n, len(ys))
	}
	if n := len(w.Local.SubscriptionManager().Subscriptions(Y.RD)); n != len(srv) {
		fail("reconnect/subscription-of-other-peer-lost", "%s has %d subscriptions, expected %d", Y.Addr, n, len(srv))
	}
	if n := len(w.Local.BindingManager().Bindings(X.RD)); n != len(xs) {
		fail("reconnect/binding-of-new-connection-lost", "%s has %d bindings on its new connection, expected %d", X.Addr, n, len(xs))
	}
	if inTime {
		c.Count("reconnects_with_same_counter_pending_before_old_timeout", 1)
	}
	c.Count("reconnects", 1)
	c.Shape(fmt.Sprintf("reconnect T=%v nX=%d nW=%d yW=%d inTime=%v", T, nX, nW, len(yWrites), inTime))
	c.NonTrivial(inTime)
	c.Sample(map[string]any{"history": trace, "timeout": T.String(), "new_writes_pending_before_old_timeout": inTime, "horizon": (5 * T).String()})
}
