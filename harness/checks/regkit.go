package checks

import (
	"fmt"
	"hash/fnv"
	"sort"
	"strings"

	"github.com/enbility/spine-go/api"
	"github.com/enbility/spine-go/model"
	"github.com/enbility/spine-go/util"

	"verifharness/rig"
)

// Shared helpers of the registry checks C03 (write gate), C08 (subscriptions) and C09 (bindings):
// data functions with unique, recognisable values, address keys, tap readers.

// rkToken is the unique marker a data operation number v leaves in the written value.
func rkToken(v int) string { return fmt.Sprintf("u%dx", v) }

// rkPayload builds a complete (filter-less) value of function fn carrying rkToken(v). Only functions
// without changeability flags are used, so that C04's concerns never interfere.
func rkPayload(fn model.FunctionType, v int) any {
	tok := rkToken(v)
	switch fn {
	case model.FunctionTypeDeviceClassificationUserData:
		return &model.DeviceClassificationUserDataType{UserLabel: util.Ptr(model.LabelType(tok)), UserDescription: util.Ptr(model.DescriptionType("user data"))}
	case model.FunctionTypeDeviceClassificationManufacturerData:
		return &model.DeviceClassificationManufacturerDataType{DeviceName: util.Ptr(model.DeviceClassificationStringType(tok)), VendorName: util.Ptr(model.DeviceClassificationStringType("vendor"))}
	case model.FunctionTypeIdentificationListData:
		return &model.IdentificationListDataType{IdentificationData: []model.IdentificationDataType{
			{IdentificationId: util.Ptr(model.IdentificationIdType(1)), IdentificationValue: util.Ptr(model.IdentificationValueType(tok))},
			{IdentificationId: util.Ptr(model.IdentificationIdType(2)), IdentificationValue: util.Ptr(model.IdentificationValueType("second"))},
		}}
	case model.FunctionTypeSessionIdentificationListData:
		return &model.SessionIdentificationListDataType{SessionIdentificationData: []model.SessionIdentificationDataType{
			{SessionId: util.Ptr(model.SessionIdType(1)), IdentificationId: util.Ptr(model.IdentificationIdType(uint(v)))},
		}}
	case model.FunctionTypeNodeManagementUseCaseData:
		return &model.NodeManagementUseCaseDataType{UseCaseInformation: []model.UseCaseInformationDataType{{
			Actor:          util.Ptr(model.UseCaseActorTypeCEM),
			UseCaseSupport: []model.UseCaseSupportType{{UseCaseName: util.Ptr(model.UseCaseNameType(tok)), UseCaseAvailable: util.Ptr(true)}},
		}}}
	}
	panic("harness: rkPayload has no constructor for " + string(fn))
}

// rkPartial builds a partial update of one existing element (id 1) of a list function carrying rkToken(v).
func rkPartial(fn model.FunctionType, v int) any {
	switch fn {
	case model.FunctionTypeIdentificationListData:
		return &model.IdentificationListDataType{IdentificationData: []model.IdentificationDataType{
			{IdentificationId: util.Ptr(model.IdentificationIdType(1)), IdentificationValue: util.Ptr(model.IdentificationValueType(rkToken(v)))},
		}}
	}
	panic("harness: rkPartial has no constructor for " + string(fn))
}

func rkIsList(fn model.FunctionType) bool { return fn == model.FunctionTypeIdentificationListData }

// rkHas reports whether value (any data model value) carries the marker of operation v.
func rkHas(value any, v int) bool {
	if rig.IsNil(value) {
		return false
	}
	return strings.Contains(rig.JS(value), `"`+rkToken(v)+`"`)
}

func rkEnt(e []model.AddressEntityType) string {
	var p []string
	for _, x := range e {
		p = append(p, fmt.Sprint(uint(x)))
	}
	return "[" + strings.Join(p, ",") + "]"
}

// rkKey renders a feature address as dev:[1,1]/3 (device "-" when absent).
func rkKey(a *model.FeatureAddressType) string {
	if a == nil {
		return "<nil>"
	}
	dev, f := "-", "-"
	if a.Device != nil {
		dev = string(*a.Device)
	}
	if a.Feature != nil {
		f = fmt.Sprint(uint(*a.Feature))
	}
	return dev + ":" + rkEnt(a.Entity) + "/" + f
}

// rkShort renders entity/feature only.
func rkShort(ent []uint, id uint) string {
	var p []string
	for _, x := range ent {
		p = append(p, fmt.Sprint(x))
	}
	return "[" + strings.Join(p, ",") + "]/" + fmt.Sprint(id)
}

func rkClassifier(d model.DatagramType) model.CmdClassifierType {
	if d.Header.CmdClassifier == nil {
		return ""
	}
	return *d.Header.CmdClassifier
}

// rkNotify is one decoded notification seen on a tap.
type rkNotify struct {
	Src, Dst string // rkKey of source and destination
	Fn       model.FunctionType
	Value    any
	Raw      model.DatagramType
}

// rkNotifies extracts the notifications of a tap trace (the stack's own requests and results are skipped).
func rkNotifies(outs []model.DatagramType) (ns []rkNotify, others []model.DatagramType) {
	for _, d := range outs {
		if rkClassifier(d) != model.CmdClassifierTypeNotify {
			others = append(others, d)
			continue
		}
		n := rkNotify{Src: rkKey(d.Header.AddressSource), Dst: rkKey(d.Header.AddressDestination), Raw: d}
		if len(d.Payload.Cmd) == 1 {
			if cd, err := d.Payload.Cmd[0].Data(); err == nil && cd.Function != nil {
				n.Fn, n.Value = *cd.Function, cd.Value
			}
		}
		ns = append(ns, n)
	}
	return
}

func rkHash(parts ...string) string {
	h := fnv.New64a()
	for _, p := range parts {
		h.Write([]byte(p))
		h.Write([]byte{0})
	}
	return fmt.Sprintf("%016x", h.Sum64())
}

// rkStamp is one call or return of a recorded operation.
type rkStamp struct {
	T     int64
	Label string
}

// rkInterleaving renders the order of calls and returns (without the stamps themselves), so that
// distinct schedules can be counted.
func rkInterleaving(st []rkStamp) string {
	sort.Slice(st, func(i, j int) bool { return st[i].T < st[j].T })
	var ls []string
	for _, x := range st {
		ls = append(ls, x.Label)
	}
	return strings.Join(ls, " ")
}

func rkSorted(m map[string]bool) []string {
	var ks []string
	for k := range m {
		ks = append(ks, k)
	}
	sort.Strings(ks)
	return ks
}

// rkLocalFeat describes one local feature of a registry world (harness-owned tree).
type rkLocalFeat struct {
	Name string
	F    api.FeatureLocalInterface
	Typ  model.FeatureTypeType
	Role model.RoleType
	Fns  []model.FunctionType // data functions that can be changed locally (with rkPayload)
}

func (l *rkLocalFeat) Key() string { return rkKey(l.F.Address()) }

// rkPeerFeat describes one announced feature of a peer (identical on every peer).
type rkPeerFeat struct {
	Name string
	Ent  []uint
	Id   uint
	Typ  model.FeatureTypeType
	Role model.RoleType
}

func (f rkPeerFeat) FS() rig.FS { return rig.FS{Ent: f.Ent, Id: f.Id, Typ: f.Typ, Role: f.Role} }
func (f rkPeerFeat) Addr(p *rig.Peer, withDevice bool) *model.FeatureAddressType {
	if withDevice {
		return rig.FA(p.Addr, f.Ent, f.Id)
	}
	return rig.FA("", f.Ent, f.Id)
}
func (f rkPeerFeat) Key(p *rig.Peer) string { return rkKey(rig.FA(p.Addr, f.Ent, f.Id)) }

func rkAnnounceList(feats []rkPeerFeat) []rig.FS {
	fs := []rig.FS{rig.NMFS}
	for _, f := range feats {
		if f.Role == model.RoleTypeSpecial {
			continue // the peer's own NodeManagement is rig.NMFS
		}
		fs = append(fs, f.FS())
	}
	return fs
}

func rkStripDevice(a *model.FeatureAddressType) *model.FeatureAddressType {
	c := *a
	c.Device = nil
	return &c
}

// rkResultOf counts success / error results referencing mc; it also checks their addressing
// (from the addressed local feature to the requesting remote feature).
func rkResultOf(outs []model.DatagramType, mc model.MsgCounterType) (ok, errs int, rest []model.DatagramType) {
	r := rig.Classify(outs, mc)
	return r.Success, r.Errors + r.Replies + r.OtherRef, r.Unref
}

func rkEvName(e rig.Ev) string { return e.String() }

func rkFeatKey(f api.FeatureInterface) string {
	if f == nil || rig.IsNil(f) {
		return "<nil>"
	}
	return rkKey(f.Address())
}
