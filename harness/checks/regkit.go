package checks

import (
	"encoding/json"
	"fmt"
	"hash/fnv"
	"reflect"
	"sort"
	"strings"
	"sync"
	"time"

	"github.com/enbility/spine-go/api"
	"github.com/enbility/spine-go/model"
	"github.com/enbility/spine-go/util"

	"verifharness/rig"
)

// Shared helpers of the registry checks C03 (write gate), C08 (subscriptions) and C09 (bindings):
// data functions with unique, recognisable values, address keys, tap readers.

// rkToken is the unique marker a data operation number v leaves in the written value.
func rkToken(v int) string { return fmt.Sprintf("u%dx", v) }

// rkPayload builds a complete (filter-less) value of function fn carrying rkToken(v). Only functions
// without changeability flags are used, so that C04's concerns never interfere.
func rkPayload(fn model.FunctionType, v int) any {
	tok := rkToken(v)
	switch fn {
	case model.FunctionTypeDeviceClassificationUserData:
		return &model.DeviceClassificationUserDataType{UserLabel: util.Ptr(model.LabelType(tok)), UserDescription: util.Ptr(model.DescriptionType("user data"))}
	case model.FunctionTypeDeviceClassificationManufacturerData:
		return &model.DeviceClassificationManufacturerDataType{DeviceName: util.Ptr(model.DeviceClassificationStringType(tok)), VendorName: util.Ptr(model.DeviceClassificationStringType("vendor"))}
	case model.FunctionTypeIdentificationListData:
		return &model.IdentificationListDataType{IdentificationData: []model.IdentificationDataType{
			{IdentificationId: util.Ptr(model.IdentificationIdType(1)), IdentificationValue: util.Ptr(model.IdentificationValueType(tok))},
			{IdentificationId: util.Ptr(model.IdentificationIdType(2)), IdentificationValue: util.Ptr(model.IdentificationValueType("second"))},
		}}
	case model.FunctionTypeSessionIdentificationListData:
		return &model.SessionIdentificationListDataType{SessionIdentificationData: []model.SessionIdentificationDataType{
			{SessionId: util.Ptr(model.SessionIdType(1)), IdentificationId: util.Ptr(model.IdentificationIdType(uint(v)))},
		}}
	case model.FunctionTypeNodeManagementUseCaseData:
		return &model.NodeManagementUseCaseDataType{UseCaseInformation: []model.UseCaseInformationDataType{{
			Actor:          util.Ptr(model.UseCaseActorTypeCEM),
			UseCaseSupport: []model.UseCaseSupportType{{UseCaseName: util.Ptr(model.UseCaseNameType(tok)), UseCaseAvailable: util.Ptr(true)}},
		}}}
	}
	panic("harness: rkPayload has no constructor for " + string(fn))
}

// rkPayloadAlt: a complete value of a list function whose identifiers are {1, 3} instead of rkPayload's {1, 2}: a
// replacement that takes an element away and brings a new one.
func rkPayloadAlt(fn model.FunctionType, v int) (any, bool) {
	if fn != model.FunctionTypeIdentificationListData {
		return nil, false
	}
	return &model.IdentificationListDataType{IdentificationData: []model.IdentificationDataType{
		{IdentificationId: util.Ptr(model.IdentificationIdType(1)), IdentificationValue: util.Ptr(model.IdentificationValueType(rkToken(v)))},
		{IdentificationId: util.Ptr(model.IdentificationIdType(3)), IdentificationValue: util.Ptr(model.IdentificationValueType("third"))},
	}}, true
}

// rkPartial builds a partial update of one existing element (id 1) of a list function carrying rkToken(v).
func rkPartial(fn model.FunctionType, v int) any {
	switch fn {
	case model.FunctionTypeIdentificationListData:
		return &model.IdentificationListDataType{IdentificationData: []model.IdentificationDataType{
			{IdentificationId: util.Ptr(model.IdentificationIdType(1)), IdentificationValue: util.Ptr(model.IdentificationValueType(rkToken(v)))},
		}}
	}
	panic("harness: rkPartial has no constructor for " + string(fn))
}

// rkPayloadOrPartial: the one-element partial update where rkPartial knows the function, a complete value otherwise.
func rkPayloadOrPartial(fn model.FunctionType, v int) any {
	if fn == model.FunctionTypeIdentificationListData {
		return rkPartial(fn, v)
	}
	return rkPayload(fn, v)
}

func rkIsList(fn model.FunctionType) bool { return fn == model.FunctionTypeIdentificationListData }

// rkMutateInPlace changes the object `value` (what the application got from DataCopy, or what it passed to SetData
// before) IN PLACE so that it carries rkToken(v): a list element of the existing list is changed where the function has
// a list (the object keeps its list, no new slice is built), a pointed-to scalar otherwise. Reports false if the object
// has nothing that could be changed that way.
func rkMutateInPlace(fn model.FunctionType, value any, v int, viaPointer bool) bool {
	tok := rkToken(v)
	if rig.IsNil(value) {
		return false
	}
	switch d := value.(type) {
	case *model.DeviceClassificationUserDataType:
		if d.UserLabel == nil {
			return false
		}
		*d.UserLabel = model.LabelType(tok)
		return true
	case *model.DeviceClassificationManufacturerDataType:
		if d.DeviceName == nil {
			return false
		}
		*d.DeviceName = model.DeviceClassificationStringType(tok)
		return true
	case *model.IdentificationListDataType:
		if len(d.IdentificationData) == 0 {
			return false
		}
		it := &d.IdentificationData[0]
		if viaPointer && it.IdentificationValue != nil {
			*it.IdentificationValue = model.IdentificationValueType(tok)
		} else {
			it.IdentificationValue = util.Ptr(model.IdentificationValueType(tok))
		}
		return true
	case *model.NodeManagementUseCaseDataType:
		if len(d.UseCaseInformation) == 0 || len(d.UseCaseInformation[0].UseCaseSupport) == 0 {
			return false
		}
		us := &d.UseCaseInformation[0].UseCaseSupport[0]
		if viaPointer && us.UseCaseName != nil {
			*us.UseCaseName = model.UseCaseNameType(tok)
		} else {
			us.UseCaseName = util.Ptr(model.UseCaseNameType(tok))
		}
		return true
	}
	return false
}

// rkHas reports whether value (any data model value) carries the marker of operation v.
func rkHas(value any, v int) bool {
	if rig.IsNil(value) {
		return false
	}
	return strings.Contains(rig.JS(value), `"`+rkToken(v)+`"`)
}

// rkClone: an independent deep copy of a data model value (pointer to struct) through its wire form.
func rkClone(v any) any {
	if rig.IsNil(v) {
		return nil
	}
	b, err := json.Marshal(v)
	if err != nil {
		panic("harness: rkClone cannot marshal: " + err.Error())
	}
	out := reflect.New(reflect.TypeOf(v).Elem())
	if err := json.Unmarshal(b, out.Interface()); err != nil {
		panic("harness: rkClone cannot unmarshal: " + err.Error())
	}
	return out.Interface()
}

// rkReplicaApply folds one message (value + filters, as decoded from the wire) into the copy `replica` a remote feature
// keeps of function fn, with the harness's own rules of the restricted function exchange (rig.RefApply for lists): no
// filter = the value replaces the copy; a delete filter removes the selected items (or clears the named elements) first;
// a partial filter merges the carried items by identifier (or into the one item its selector names; items without
// identifier into every item); non-list data under a partial filter: the elements present in the value replace those of
// the copy. shape names the filter combination; modelled=false: a combination these rules do not cover (the copy is
// returned unchanged).
func rkReplicaApply(fn model.FunctionType, replica, value any, filters []model.FilterType) (out any, shape string, modelled bool) {
	var fp, fd *model.FilterType
	for i := range filters {
		switch cc := filters[i].CmdControl; {
		case cc != nil && cc.Partial != nil:
			fp = &filters[i]
		case cc != nil && cc.Delete != nil:
			fd = &filters[i]
		}
	}
	if fp == nil && fd == nil {
		return rkClone(value), "no-filter", true
	}
	li := rig.ListByFn(fn)
	if li == nil {
		if fd != nil {
			return replica, "delete-filter-on-non-list-data", false
		}
		if rig.IsNil(value) {
			return replica, "partial-filter", true
		}
		if rig.IsNil(replica) {
			return rkClone(value), "partial-filter", true
		}
		dst, src := reflect.ValueOf(rkClone(replica)).Elem(), reflect.ValueOf(rkClone(value)).Elem()
		for i := 0; i < src.NumField(); i++ {
			f := src.Field(i)
			switch f.Kind() {
			case reflect.Ptr, reflect.Slice, reflect.Map, reflect.Interface:
				if f.IsNil() {
					continue
				}
			}
			if dst.Field(i).CanSet() {
				dst.Field(i).Set(f)
			}
		}
		return dst.Addr().Interface(), "partial-filter", true
	}
	// the identifier a selector names: only single, numeric identifiers are decoded
	selID := func(f *model.FilterType) (id int, present, ok bool) {
		if li.SelT == nil {
			return -1, false, true
		}
		sv := reflect.ValueOf(f).Elem().Field(li.SelIdx)
		if sv.IsNil() {
			return -1, false, true
		}
		if len(li.Keys) != 1 || !li.AllUint {
			return -1, true, false
		}
		keyName := li.ElemT.Field(li.Keys[0]).Name
		for i := 0; i < sv.Elem().NumField(); i++ {
			fv := sv.Elem().Field(i)
			if fv.Kind() == reflect.Ptr && fv.IsNil() {
				continue
			}
			if sv.Elem().Type().Field(i).Name != keyName || fv.Kind() != reflect.Ptr {
				return -1, true, false // a selector over something else than the identifier
			}
			switch fv.Elem().Kind() {
			case reflect.Uint, reflect.Uint8, reflect.Uint16, reflect.Uint32, reflect.Uint64:
				id = int(fv.Elem().Uint())
			default:
				return -1, true, false
			}
			present = true
		}
		return id, present, true
	}
	u := rig.Update{Kind: "partial", SelKey: -1, DelSel: -1, Items: rig.CloneItems(li.Items(rkClone(value)))}
	cur := li.Items(rkClone(replica))
	if fd != nil {
		shape = "delete-filter"
		id, present, ok := selID(fd)
		if !ok {
			return replica, "delete-filter+selector-not-decoded", false
		}
		if present {
			u.DelSel = id
			shape += "+selector"
		}
		if li.ElT != nil {
			if ev := reflect.ValueOf(fd).Elem().Field(li.ElIdx); !ev.IsNil() {
				shape += "+elements"
				for i := 0; i < ev.Elem().NumField(); i++ {
					if fv := ev.Elem().Field(i); fv.Kind() == reflect.Ptr && !fv.IsNil() {
						if sf, found := li.ElemT.FieldByName(ev.Elem().Type().Field(i).Name); found {
							u.DelElem = append(u.DelElem, sf.Index[0])
						}
					}
				}
			}
		}
		if !present && len(u.DelElem) == 0 {
			cur = nil // a delete filter that selects nothing in particular: everything goes
		}
		u.Kind = "delete-sel"
	}
	if fp != nil {
		if shape != "" {
			shape += "+"
			u.Kind = "del+partial"
		}
		shape += "partial-filter"
		id, present, ok := selID(fp)
		if !ok {
			return replica, shape + "+selector-not-decoded", false
		}
		if present {
			u.SelKey = id
			shape += "+selector"
			if len(u.Items) == 0 {
				return replica, shape + "-without-item", false
			}
		}
	}
	return li.MkList(li.RefApply(cur, u)), shape, true
}

func rkEnt(e []model.AddressEntityType) string {
	var p []string
	for _, x := range e {
		p = append(p, fmt.Sprint(uint(x)))
	}
	return "[" + strings.Join(p, ",") + "]"
}

// rkKey renders a feature address as dev:[1,1]/3 (device "-" when absent).
func rkKey(a *model.FeatureAddressType) string {
	if a == nil {
		return "<nil>"
	}
	dev, f := "-", "-"
	if a.Device != nil {
		dev = string(*a.Device)
	}
	if a.Feature != nil {
		f = fmt.Sprint(uint(*a.Feature))
	}
	return dev + ":" + rkEnt(a.Entity) + "/" + f
}

// rkShort renders entity/feature only.
func rkShort(ent []uint, id uint) string {
	var p []string
	for _, x := range ent {
		p = append(p, fmt.Sprint(x))
	}
	return "[" + strings.Join(p, ",") + "]/" + fmt.Sprint(id)
}

func rkClassifier(d model.DatagramType) model.CmdClassifierType {
	if d.Header.CmdClassifier == nil {
		return ""
	}
	return *d.Header.CmdClassifier
}

// rkNotify is one decoded notification seen on a tap.
type rkNotify struct {
	Src, Dst string // rkKey of source and destination
	Fn       model.FunctionType
	Value    any
	Raw      model.DatagramType
}

// rkNotifies extracts the notifications of a tap trace (the stack's own requests and results are skipped).
func rkNotifies(outs []model.DatagramType) (ns []rkNotify, others []model.DatagramType) {
	for _, d := range outs {
		if rkClassifier(d) != model.CmdClassifierTypeNotify {
			others = append(others, d)
			continue
		}
		n := rkNotify{Src: rkKey(d.Header.AddressSource), Dst: rkKey(d.Header.AddressDestination), Raw: d}
		if len(d.Payload.Cmd) == 1 {
			if cd, err := d.Payload.Cmd[0].Data(); err == nil && cd.Function != nil {
				n.Fn, n.Value = *cd.Function, cd.Value
			}
		}
		ns = append(ns, n)
	}
	return
}

func rkHash(parts ...string) string {
	h := fnv.New64a()
	for _, p := range parts {
		h.Write([]byte(p))
		h.Write([]byte{0})
	}
	return fmt.Sprintf("%016x", h.Sum64())
}

// rkStamp is one call or return of a recorded operation.
type rkStamp struct {
	T     int64
	Label string
}

// rkInterleaving renders the order of calls and returns (without the stamps themselves), so that
// distinct schedules can be counted.
func rkInterleaving(st []rkStamp) string {
	sort.Slice(st, func(i, j int) bool { return st[i].T < st[j].T })
	var ls []string
	for _, x := range st {
		ls = append(ls, x.Label)
	}
	return strings.Join(ls, " ")
}

func rkSorted(m map[string]bool) []string {
	var ks []string
	for k := range m {
		ks = append(ks, k)
	}
	sort.Strings(ks)
	return ks
}

// rkLocalFeat describes one local feature of a registry world (harness-owned tree).
type rkLocalFeat struct {
	Name string
	F    api.FeatureLocalInterface
	Typ  model.FeatureTypeType
	Role model.RoleType
	Fns  []model.FunctionType // data functions that can be changed locally (with rkPayload)
}

func (l *rkLocalFeat) Key() string { return rkKey(l.F.Address()) }

// rkPeerFeat describes one announced feature of a peer (identical on every peer).
type rkPeerFeat struct {
	Name string
	Ent  []uint
	Id   uint
	Typ  model.FeatureTypeType
	Role model.RoleType
}

func (f rkPeerFeat) FS() rig.FS { return rig.FS{Ent: f.Ent, Id: f.Id, Typ: f.Typ, Role: f.Role} }
func (f rkPeerFeat) Addr(p *rig.Peer, withDevice bool) *model.FeatureAddressType {
	if withDevice {
		return rig.FA(p.Addr, f.Ent, f.Id)
	}
	return rig.FA("", f.Ent, f.Id)
}
func (f rkPeerFeat) Key(p *rig.Peer) string { return rkKey(rig.FA(p.Addr, f.Ent, f.Id)) }

func rkAnnounceList(feats []rkPeerFeat) []rig.FS {
	fs := []rig.FS{rig.NMFS}
	for _, f := range feats {
		if f.Role == model.RoleTypeSpecial {
			continue // the peer's own NodeManagement is rig.NMFS
		}
		fs = append(fs, f.FS())
	}
	return fs
}

func rkStripDevice(a *model.FeatureAddressType) *model.FeatureAddressType {
	c := *a
	c.Device = nil
	return &c
}

// rkResultOf counts success / error results referencing mc; it also checks their addressing
// (from the addressed local feature to the requesting remote feature).
func rkResultOf(outs []model.DatagramType, mc model.MsgCounterType) (ok, errs int, rest []model.DatagramType) {
	r := rig.Classify(outs, mc)
	return r.Success, r.Errors + r.Replies + r.OtherRef, r.Unref
}

func rkEvName(e rig.Ev) string { return e.String() }

func rkFeatKey(f api.FeatureInterface) string {
	if f == nil || rig.IsNil(f) {
		return "<nil>"
	}
	return rkKey(f.Address())
}

// ---------------------------------------------------------------------------
// "rmw": concurrent registry calls on DIFFERENT server features (C08 and C09)
//
// Calls that concern different (client, server) pairs commute: whatever the schedule, each of them is answered as
// if it ran alone, and at a quiescent point the registry holds exactly the pairs whose last acknowledged call was an
// add. A delete that is a read-modify-write of the whole registry (snapshot, filter, store) with the lock dropped in
// between loses or resurrects what another connection did meanwhile - without any data race. There is no hook
// point inside the delete; reach comes from the registry size (the filter loop is the window), from GOMAXPROCS and
// from repetition. Each actor goroutine owns its connection and its pairs, so the expectation of every single call
// is decided by that goroutine's own history; nothing is judged on wall-clock time.

type rkRegKind struct {
	name      string // "binding" | "subscription"
	exclusive bool   // at most one entry per server feature (bindings): actors never share a server feature
	add       func(p *rig.Peer, ca, sa *model.FeatureAddressType, t model.FeatureTypeType) model.MsgCounterType
	del       func(p *rig.Peer, ca, sa *model.FeatureAddressType) model.MsgCounterType
	onFeature func(w *rig.World, sa model.FeatureAddressType) []string // client keys of the entries on a server feature
	ofPeer    func(w *rig.World, p *rig.Peer) []string                 // "#id client>server" of a connection's entries
	has       func(w *rig.World, sa, ca *model.FeatureAddressType) (bool, bool)
	readCmd   func() model.CmdType
	readBack  func(cmd model.CmdType) (pairs []string, ok bool) // "client>server" of a registry read reply
	evType    api.EventType
}

var rkRmwTypes = []model.FeatureTypeType{
	model.FeatureTypeTypeDeviceClassification, model.FeatureTypeTypeIdentification, model.FeatureTypeTypeMeasurement, model.FeatureTypeTypeLoadControl,
	model.FeatureTypeTypeElectricalConnection, model.FeatureTypeTypeDeviceConfiguration, model.FeatureTypeTypeTimeSeries, model.FeatureTypeTypeIncentiveTable,
	model.FeatureTypeTypeBill, model.FeatureTypeTypeSetpoint, model.FeatureTypeTypeSmartEnergyManagementPs, model.FeatureTypeTypeThreshold,
}

type rkRmwPair struct {
	srv  api.FeatureLocalInterface
	typ  int // index into rkRmwTypes = client feature number - 1
	held bool
}

type rkRmwOp struct {
	gor       int
	pair      int
	add       bool
	want, got bool // acknowledged?
	results   int
	extra     int // datagrams on the actor's tap that are not the result
	call, ret int64
}

func (o rkRmwOp) String() string {
	k := "delete"
	if o.add {
		k = "add"
	}
	return fmt.Sprintf("[%d,%d] g%d %s pair%d -> ok=%v (expected %v)", o.call, o.ret, o.gor, k, o.pair, o.got, o.want)
}

func rkRmwCase(c *rig.Ctx, kd rkRegKind) {
	w := rig.NewWorld(c.Tag())
	defer w.Close()
	r := c.Rand
	T := len(rkRmwTypes)
	E := []int{6, 11, 21}[r.Intn(3)] // the registry is pre-filled with almost E*T entries of a bystander connection
	nAct := 3 + r.Intn(2)
	rounds := c.Pick(6, 12)
	perRound := 8 + r.Intn(9)
	srv := make([][]api.FeatureLocalInterface, E)
	for e := 0; e < E; e++ {
		ent := w.AddEntity(model.EntityTypeTypeCEM, []uint{uint(e + 1)}, 4*time.Second)
		for _, t := range rkRmwTypes {
			srv[e] = append(srv[e], ent.GetOrAddFeature(t, model.RoleTypeServer))
		}
	}
	tree := []rig.FS{rig.NMFS}
	for t, typ := range rkRmwTypes {
		tree = append(tree, rig.FS{Ent: []uint{1}, Id: uint(t + 1), Typ: typ, Role: model.RoleTypeClient})
	}
	cliAddr := func(p *rig.Peer, t int) *model.FeatureAddressType { return rig.FA(p.Addr, []uint{1}, uint(t+1)) }
	for i := 0; i <= nAct; i++ { // peers 0..nAct-1 act, peer nAct is the bystander
		p := w.AddPeer(i)
		p.Ctr = uint64(i+1) * 1000000
		p.Announce(tree)
		p.Tap.Take()
	}
	filler := w.Peers[nAct]
	// the actors' pairs: distinct server features (for subscriptions a third of them is shared with the bystander's entries)
	taken := map[[2]int]bool{}
	pairs := make([][]rkRmwPair, nAct)
	for g := 0; g < nAct; g++ {
		for n := 1 + r.Intn(2); n > 0; n-- {
			for {
				k := [2]int{r.Intn(E), r.Intn(T)}
				if !taken[k] {
					taken[k] = true
					pairs[g] = append(pairs[g], rkRmwPair{srv: srv[k[0]][k[1]], typ: k[1]})
					break
				}
			}
		}
	}
	nFill := 0
	for e := 0; e < E; e++ {
		for t := 0; t < T; t++ {
			if taken[[2]int{e, t}] && (kd.exclusive || r.Intn(3) > 0) {
				continue
			}
			mc := kd.add(filler, cliAddr(filler, t), srv[e][t].Address(), rkRmwTypes[t])
			if ok, _, _ := rkResultOf(filler.Tap.Take(), mc); ok != 1 {
				c.Violate("rmw/setup-refused", "the bystander's %s request %d for %s was refused", kd.name, nFill, rkKey(srv[e][t].Address()))
				return
			}
			nFill++
		}
	}
	fillerBefore := strings.Join(kd.ofPeer(w, filler), " ")
	w.Core.Take()
	var hist []string
	overlapRounds, deleteOverlapRounds, opsTotal, okDeletes := 0, 0, 0, 0
	seqRounds, roundsRun := 0, 0

	for round := 0; round < rounds && !c.Failed(); round++ {
		// plans: mostly toggles of the actor's own pairs (always justified), some repeated calls (always refused)
		type planned struct {
			pair   int
			repeat bool
		}
		plans := make([][]planned, nAct)
		for g := range plans {
			for k := 0; k < perRound; k++ {
				plans[g] = append(plans[g], planned{pair: r.Intn(len(pairs[g])), repeat: r.Intn(12) == 0})
			}
		}
		sequential := round == 0 && r.Intn(4) == 0 // now and then a round without concurrency: the same oracle must hold trivially
		ops := make([][]rkRmwOp, nAct)
		start := make(chan struct{})
		var wg sync.WaitGroup
		run := func(g int) {
			p := w.Peers[g]
			for _, pl := range plans[g] {
				pr := &pairs[g][pl.pair]
				op := rkRmwOp{gor: g, pair: pl.pair, add: !pr.held, want: true}
				if pl.repeat {
					op.add, op.want = pr.held, false
				}
				ca, sa := cliAddr(p, pr.typ), pr.srv.Address()
				var mc model.MsgCounterType
				op.call = rig.Seq()
				if op.add {
					mc = kd.add(p, ca, sa, rkRmwTypes[pr.typ])
				} else {
					mc = kd.del(p, ca, sa)
				}
				op.ret = rig.Seq()
				ok, bad, rest := rkResultOf(p.Tap.Take(), mc)
				op.got, op.results, op.extra = ok == 1, ok+bad, len(rest)
				if op.got { // follow the stack, the deviation is reported after the round
					pr.held = op.add
				}
				ops[g] = append(ops[g], op)
			}
		}
		for g := 0; g < nAct; g++ {
			if sequential {
				run(g)
				continue
			}
			wg.Add(1)
			go func(g int) {
				defer wg.Done()
				<-start
				run(g)
			}(g)
		}
		close(start)
		done := make(chan struct{})
		go func() { wg.Wait(); close(done) }()
		select {
		case <-done:
		case <-time.After(60 * time.Second):
			c.Inconclusive("rmw round did not finish within 60s (the progress watchdog decides whether this is a hang)")
			<-done
		}
		// ---- quiescent point
		roundsRun++
		var all []rkRmwOp
		for g := range ops {
			all = append(all, ops[g]...)
		}
		sort.Slice(all, func(i, j int) bool { return all[i].call < all[j].call })
		hist = append(hist, fmt.Sprintf("round %d (%d entries of the bystander peer%d, %d actors):", round, nFill, nAct, nAct))
		adds, dels := 0, 0
		for _, o := range all {
			hist = append(hist, "  "+o.String())
			if o.got && o.add {
				adds++
			} else if o.got {
				dels++
			}
		}
		opsTotal += len(all)
		okDeletes += dels
		fail := func(sig, format string, a ...any) {
			c.Violate("rmw/"+sig, "%s\n (calls on different server features commute: each actor is the only one that ever touches its pairs)\n history:\n  %s", fmt.Sprintf(format, a...), strings.Join(hist, "\n  "))
		}
		for _, o := range all {
			c.Events(1)
			switch {
			case o.results != 1:
				fail("result-count", "%s: %d results", o, o.results)
			case o.extra > 0:
				fail("unexpected-datagram", "%s: %d other datagrams on the actor's connection", o, o.extra)
			case o.want && !o.got && o.add:
				fail("add-refused-though-the-actor's-last-acknowledged-call-deleted-the-entry", "%s", o)
			case o.want && !o.got:
				fail("delete-refused-though-the-actor's-last-acknowledged-call-added-the-entry", "%s", o)
			case !o.want && o.got && o.add:
				fail("second-add-of-the-same-pair-acknowledged", "%s", o)
			case !o.want && o.got:
				fail("delete-of-an-absent-entry-acknowledged", "%s", o)
			}
		}
		// the registry: per server feature of the actors, per connection, and the bystander untouched
		for g := range pairs {
			p := w.Peers[g]
			var wantPeer []string
			for pi, pr := range pairs[g] {
				ck := rkKey(cliAddr(p, pr.typ))
				onF := kd.onFeature(w, *pr.srv.Address())
				present := false
				for _, k := range onF {
					present = present || k == ck
				}
				c.Events(1)
				if pr.held && !present {
					fail("quiescent/acknowledged-entry-missing", "after round %d: the last acknowledged call of g%d on pair%d (%s > %s) was an add, the server feature lists %v", round, g, pi, ck, rkKey(pr.srv.Address()), onF)
				} else if !pr.held && present {
					fail("quiescent/deleted-entry-present", "after round %d: the last acknowledged call of g%d on pair%d (%s > %s) was a delete, the server feature lists %v", round, g, pi, ck, rkKey(pr.srv.Address()), onF)
				}
				if kd.exclusive && len(onF) > 1 {
					fail("quiescent/more-than-one-entry", "after round %d: %s lists %v", round, rkKey(pr.srv.Address()), onF)
				}
				if h, judged := kd.has(w, pr.srv.Address(), cliAddr(p, pr.typ)); judged && h != pr.held {
					fail("quiescent/has-entry-inconsistent", "after round %d: the API reports %v for %s > %s, the last acknowledged call says %v", round, h, ck, rkKey(pr.srv.Address()), pr.held)
				}
				if pr.held {
					wantPeer = append(wantPeer, ck+">"+rkKey(pr.srv.Address()))
				}
			}
			sort.Strings(wantPeer)
			var gotPeer []string
			ids := map[string]bool{}
			for _, e := range kd.ofPeer(w, p) {
				f := strings.SplitN(e, " ", 2)
				ids[f[0]] = true
				gotPeer = append(gotPeer, f[1])
			}
			sort.Strings(gotPeer)
			c.Events(1)
			if fmt.Sprint(gotPeer) != fmt.Sprint(wantPeer) {
				fail("quiescent/peer-list-differs", "after round %d: the entries listed for peer %d are %v, its acknowledged calls leave %v", round, g, gotPeer, wantPeer)
			} else if len(ids) != len(gotPeer) {
				fail("quiescent/ids-not-distinct", "after round %d: peer %d has %d entries with %d distinct ids", round, g, len(gotPeer), len(ids))
			}
		}
		c.Events(1)
		if after := strings.Join(kd.ofPeer(w, filler), " "); after != fillerBefore {
			fail("quiescent/bystander-entry-changed", "after round %d: the bystander connection (peer %d) did nothing; its %d entries changed:\n  before {%s}\n  after  {%s}", round, nAct, nFill, fillerBefore, after)
		}
		// what one actor is told over the wire
		if !c.Failed() {
			g := r.Intn(nAct)
			p := w.Peers[g]
			mc := p.Send(model.CmdClassifierTypeRead, p.NM(), rig.LNM, false, nil, kd.readCmd())
			res := rig.Classify(p.Tap.Take(), mc)
			for _, d := range res.All {
				if rkClassifier(d) != model.CmdClassifierTypeReply || len(d.Payload.Cmd) != 1 {
					continue
				}
				got, ok := kd.readBack(d.Payload.Cmd[0])
				if !ok {
					continue
				}
				var want []string
				for _, pr := range pairs[g] {
					if pr.held {
						want = append(want, rkKey(cliAddr(p, pr.typ))+">"+rkKey(pr.srv.Address()))
					}
				}
				sort.Strings(want)
				sort.Strings(got)
				c.Events(1)
				c.Count("rmw_registry_reads_judged", 1)
				if fmt.Sprint(got) != fmt.Sprint(want) {
					fail("quiescent/registry-read-differs", "after round %d: peer %d is told %v, its acknowledged calls leave %v", round, g, got, want)
				}
			}
		}
		// events one to one
		ea, er := 0, 0
		for _, e := range w.Core.Take() {
			if e.P.EventType == kd.evType && e.P.ChangeType == api.ElementChangeAdd {
				ea++
			} else if e.P.EventType == kd.evType && e.P.ChangeType == api.ElementChangeRemove {
				er++
			}
		}
		c.Events(int64(ea + er))
		if !c.Failed() && (ea != adds || er != dels) {
			fail("events-differ-from-results", "round %d: %d add and %d remove events for %d acknowledged adds and %d acknowledged deletes", round, ea, er, adds, dels)
		}
		// how concurrent was it? (call/return stamps from one atomic counter)
		overl, delOverl := false, false
		for i, a := range all {
			for _, b := range all[i+1:] {
				if b.call > a.ret {
					break
				}
				if a.gor != b.gor {
					overl = true
					if (a.got && !a.add) || (b.got && !b.add) {
						delOverl = true
					}
				}
			}
		}
		switch {
		case sequential:
			seqRounds++
		case overl:
			overlapRounds++
		}
		if delOverl {
			deleteOverlapRounds++
		}
		if len(hist) > 400 {
			hist = append([]string{"(earlier rounds dropped)"}, hist[len(hist)-200:]...)
		}
	}
	for _, q := range w.Peers {
		if n := q.PanicCount(); n > 0 {
			c.Violate("rmw/panic", "the stack panicked: %s", q.Panics[n-1])
		}
	}
	if c.Failed() {
		c.Witness(map[string]any{"history": hist})
	}
	c.Count("rmw_rounds", int64(roundsRun))
	c.Count("rmw_rounds_run_sequentially", int64(seqRounds))
	c.Count("rmw_rounds_with_overlapping_calls_of_different_connections", int64(overlapRounds))
	c.Count("rmw_rounds_where_a_call_overlapped_an_acknowledged_delete_of_another_connection", int64(deleteOverlapRounds))
	c.Count("rmw_calls_judged", int64(opsTotal))
	c.Count("rmw_acknowledged_deletes", int64(okDeletes))
	c.Count(fmt.Sprintf("rmw_cases_with_%d_bystander_entries_or_more", nFill/50*50), 1)
	c.Shape(rkHash(kd.name, fmt.Sprint(E, nAct, perRound, len(pairs[0]), len(pairs[1]), len(pairs[2]), overlapRounds, deleteOverlapRounds)))
	c.NonTrivial(deleteOverlapRounds > 0)
	tail := hist
	if len(tail) > 60 {
		tail = tail[len(tail)-60:]
	}
	c.Sample(map[string]any{"registry": kd.name, "bystander_entries": nFill, "actors": nAct, "rounds": rounds, "calls_per_actor_and_round": perRound,
		"rounds_with_overlap": overlapRounds, "rounds_with_a_call_overlapping_a_delete": deleteOverlapRounds, "last_calls": tail})
}

// ---------------------------------------------------------------------------
// "early": a peer whose registry request arrives before its own detailed discovery reply was processed (C08 and C09)
//
// The two directions of a fresh connection are independent: a peer that has read OUR discovery data may send its
// NodeManagement subscription (or binding) [0]/0 -> local [0]/0 while OUR discovery read is still unanswered. At that
// moment the stack knows the peer's entity [0] / feature [0]/0 only without device address. The addressed local feature
// exists with special role and the requested type, the client feature exists on that peer and has the matching type: the
// request is granted. From then on the pair is an entry like any other: the same request again is refused, the peer's
// list shows exactly that entry, every change of the local NodeManagement data reaches it exactly once on its own
// connection (subscriptions), a delete - device part of the client address given or omitted - removes exactly that pair, a
// second delete fails, nothing another connection does removes it, and it goes with the peer's own connection.
// The statement does not say how the client address of such an entry is rendered: a device part that is absent in
// notifications and list entries is accepted and counted; everything is attributed by connection. A delete that names
// the device part before the reply is not judged (the stack cannot know the device address yet).

func rkEarlyCase(c *rig.Ctx, kd rkRegKind) {
	w := rig.NewWorld(c.Tag())
	defer w.Close()
	r := c.Rand
	sub := kd.name == "subscription"
	e1 := w.AddEntity(model.EntityTypeTypeCEM, []uint{1}, 4*time.Second)
	s0 := e1.GetOrAddFeature(model.FeatureTypeTypeDeviceClassification, model.RoleTypeServer)
	s0.AddFunctionType(model.FunctionTypeDeviceClassificationUserData, true, true)
	nmFn := model.FunctionTypeNodeManagementUseCaseData
	tree := []rig.FS{rig.NMFS, {Ent: []uint{1}, Id: 1, Typ: model.FeatureTypeTypeDeviceClassification, Role: model.RoleTypeClient}}
	var hist, shape []string
	log := func(format string, a ...any) { hist = append(hist, fmt.Sprintf(format, a...)) }
	fail := func(sig, format string, a ...any) {
		c.Violate("early/"+sig, "%s\n history:\n  %s", fmt.Sprintf(format, a...), strings.Join(hist, "\n  "))
	}
	held := map[int]bool{} // reference: peer index -> its [0]/0 holds an entry on the local NodeManagement
	connected := map[int]bool{}
	for i := 0; i < 2; i++ {
		p := w.AddPeer(i)
		p.Ctr = uint64(i+1) * 100000
		p.Announce(tree)
		connected[i] = true
		if sub && r.Intn(2) == 0 { // a binding is exclusive: the announced peers hold none
			mc := kd.add(p, p.NM(), rig.LNM, model.FeatureTypeTypeNodeManagement)
			if ok, _, _ := rkResultOf(p.Tap.Peek(), mc); ok == 1 {
				held[i] = true
			}
		}
		p.Tap.Take()
	}
	E := w.AddPeer(2) // connected, the discovery read of the local device is on its tap, no reply yet
	E.Ctr = 300000
	E.Tap.Take()
	connected[2] = true
	announced := false
	nmAddr := func(withDevice bool) *model.FeatureAddressType {
		if withDevice {
			return E.NM()
		}
		return rig.FA("", []uint{0}, 0)
	}
	phase := func() string {
		if announced {
			return "after-discovery-reply"
		}
		return "before-discovery-reply"
	}
	withDev := r.Intn(2) == 0
	mc := kd.add(E, nmAddr(withDev), rig.LNM, model.FeatureTypeTypeNodeManagement)
	ok, bad, _ := rkResultOf(E.Tap.Take(), mc)
	log("peer2 connects; before its discovery reply it requests a %s [0]/0 (device part given: %v) -> local NodeManagement: success=%d error=%d", kd.name, withDev, ok, bad)
	c.Events(1)
	if ok+bad != 1 {
		fail("request-before-discovery-reply/result-count", "the early request got %d success and %d error results", ok, bad)
	} else if ok != 1 {
		fail("request-before-discovery-reply/refused", "the addressed local feature exists with special role and the requested type, the peer's [0]/0 exists and has that type, the pair is new: the request was refused")
	}
	if ok == 1 {
		held[2] = true
	}
	w.Core.Take()
	val := 0
	oldTaps := map[int]*rig.Tap{}

	takeAll := func() map[int][]model.DatagramType {
		outs := map[int][]model.DatagramType{}
		for i, p := range w.Peers {
			outs[i] = p.Tap.Take()
		}
		return outs
	}
	// subscriptions: one change of the local NodeManagement data, exactly one notify per subscribed connection, nothing
	// anywhere else. bindings: the entries on the local NodeManagement are those of the holders.
	publish := func(what string) {
		if c.Failed() {
			return
		}
		if !sub {
			n := 0
			for i := range w.Peers {
				if held[i] && connected[i] {
					n++
				}
			}
			on := kd.onFeature(w, *rig.LNM)
			c.Events(1)
			val++
			if len(on) != n {
				sig := what + "/entry-missing-on-feature"
				if len(on) > n {
					sig = what + "/stale-entry-on-feature"
				}
				fail(sig, "after %s: the local NodeManagement lists the %ss %v, the reference holds %d (%v)", what, kd.name, on, n, held)
			}
			return
		}
		val++
		takeAll()
		for _, t := range oldTaps {
			t.Take()
		}
		w.Local.NodeManagement().SetData(nmFn, rkPayload(nmFn, val))
		log("   SetData local NodeManagement %s %s (subscribed: %v)", nmFn, rkToken(val), held)
		outs := takeAll()
		for i, p := range w.Peers {
			ns, others := rkNotifies(outs[i])
			c.Events(int64(len(ns)) + 1)
			n := 0
			for _, x := range ns {
				dst := x.Raw.Header.AddressDestination
				// the statement does not say how the client address is rendered: an absent device part is accepted (and counted)
				devOK := dst != nil && ((dst.Device == nil && i == 2) || (dst.Device != nil && string(*dst.Device) == p.Addr))
				if devOK && dst.Device == nil {
					c.Count("early:notify-addressed-without-device-part:"+phase(), 1)
				}
				if x.Src == rkKey(rig.LNM) && devOK && rkKey(rkStripDevice(dst)) == "-:[0]/0" && x.Fn == nmFn && rkHas(x.Value, val) {
					n++
				} else {
					fail(what+"/unexpected-notify", "peer %d received %s", i, rig.JS(x.Raw))
				}
			}
			want := 0
			if held[i] && connected[i] {
				want = 1
			}
			switch {
			case n < want:
				fail(what+"/missing-notify", "peer %d is subscribed with [0]/0 to the local NodeManagement and received no notify for the change", i)
			case n > want && want == 1:
				fail(what+"/duplicate-notify", "peer %d received %d notifies for one change", i, n)
			case n > want:
				fail(what+"/notify-to-non-subscriber", "peer %d is not subscribed and received %d notifies", i, n)
			}
			if len(others) > 0 {
				fail(what+"/unexpected-datagram", "peer %d received %s", i, rig.JS(others))
			}
		}
		for i, t := range oldTaps {
			if o := t.Take(); len(o) > 0 {
				c.Events(1)
				fail(what+"/notify-to-removed-connection", "the connection of peer %d was removed, a change of the local NodeManagement data still writes to it: %s", i, rig.JS(o[0]))
			}
		}
		w.Core.Take()
	}
	// the entries the registry lists per connection
	registry := func(what string) {
		if c.Failed() {
			return
		}
		for i, p := range w.Peers {
			if !connected[i] {
				continue
			}
			es := kd.ofPeer(w, p)
			want := 0
			if held[i] {
				want = 1
			}
			c.Events(1)
			switch {
			case len(es) < want:
				fail(what+"/entry-missing", "after %s: the registry lists %v for peer %d, whose %s [0]/0 -> local NodeManagement was acknowledged and never deleted", what, es, i, kd.name)
			case len(es) > want:
				fail(what+"/foreign-or-stale-entry", "after %s: the registry lists %v for peer %d, the reference %d entries", what, es, i, want)
			case want == 1 && !strings.Contains(es[0], " "+p.Addr+":[0]/0>"):
				c.Count("early:entry-listed-with-a-client-address-without-device-part:"+phase(), 1) // not decided by the statement
			}
		}
	}
	doReply := func(st string) {
		log("%s peer2's detailed discovery reply arrives", st)
		E.Announce(tree)
		E.Tap.Take()
		announced = true
		registry("discovery-reply")
		publish("discovery-reply")
		shape = append(shape, "announce")
	}
	doDuplicate := func(st string) {
		dev := r.Intn(2) == 0
		mc := kd.add(E, nmAddr(dev), rig.LNM, model.FeatureTypeTypeNodeManagement)
		ok, bad, _ := rkResultOf(E.Tap.Take(), mc)
		log("%s peer2 sends the same request again (%s, device part given: %v) -> success=%d error=%d", st, phase(), dev, ok, bad)
		c.Events(1)
		c.Count("early:duplicate-request:"+phase(), 1)
		if ok == 1 {
			fail("duplicate-"+phase()+"/granted", "the pair is in the registry already (the first request was acknowledged), the second request was acknowledged too")
		} else if ok+bad != 1 {
			fail("duplicate-"+phase()+"/result-count", "%d success and %d error results", ok, bad)
		}
		registry("duplicate-" + phase())
		publish("duplicate-" + phase())
		shape = append(shape, "dup:"+phase())
	}
	doDelete := func(st string, dev bool) {
		present := held[2]
		mc := kd.del(E, nmAddr(dev), rig.LNM)
		ok, bad, _ := rkResultOf(E.Tap.Take(), mc)
		log("%s peer2 deletes the %s (%s, device part given: %v, present: %v) -> success=%d error=%d", st, kd.name, phase(), dev, present, ok, bad)
		c.Events(1)
		judged := announced || !dev // before the reply the stack cannot know the device address the request names
		what := "delete-" + phase()
		if !present {
			what = "delete-of-absent-pair-" + phase()
		}
		if !judged && present {
			c.Count("early:delete-naming-the-device-before-the-discovery-reply:not-judged", 1)
		} else {
			c.Count("early:"+what+map[bool]string{true: ":device-given", false: ":device-omitted"}[dev], 1)
		}
		switch {
		case ok+bad != 1:
			fail(what+"/result-count", "%d success and %d error results", ok, bad)
		case ok == 1 && !present:
			fail(what+"/acknowledged", "the pair is not in the registry (it was deleted before), its delete was acknowledged")
		case ok == 1:
			held[2] = false
		case judged && present:
			fail(what+"/refused", "the pair exists (the request was acknowledged, the registry lists it), its delete was refused")
		}
		registry(what)
		publish(what)
		shape = append(shape, fmt.Sprintf("del:%s:%v:%v", phase(), present, ok == 1))
	}
	doRead := func(st string) {
		mc := E.Send(model.CmdClassifierTypeRead, nmAddr(true), rig.LNM, false, nil, kd.readCmd())
		res := rig.Classify(E.Tap.Take(), mc)
		log("%s peer2 reads the %s list (%s) -> %s", st, kd.name, phase(), res)
		for _, d := range res.All {
			if rkClassifier(d) != model.CmdClassifierTypeReply || len(d.Payload.Cmd) != 1 {
				continue
			}
			es, isList := kd.readBack(d.Payload.Cmd[0])
			if !isList {
				continue
			}
			want := 0
			if held[2] {
				want = 1
			}
			c.Events(1)
			c.Count("early:registry-read-judged:"+phase(), 1)
			if len(es) != want {
				fail("registry-read-"+phase()+"/entries-differ", "peer 2 is told %v, the reference holds %d entries", es, want)
			} else if want == 1 && es[0] != rkKey(E.NM())+">"+rkKey(rig.LNM) {
				c.Count("early:registry-read-entry-without-device-part:"+phase(), 1) // not decided by the statement
			}
		}
		shape = append(shape, "read:"+phase())
	}

	if c.Index%3 == 0 && !c.Failed() {
		// the plain life cycle: reply, list, change, delete, delete again
		c.Count("early:scripted-life-cycle", 1)
		doReply("#0")
		doRead("#1")
		if r.Intn(2) == 0 {
			doDuplicate("#2")
		}
		doDelete("#3", r.Intn(2) == 0)
		doDelete("#4", r.Intn(2) == 0)
		doRead("#5")
	} else {
		steps := 3 + r.Intn(4)
		otherLeft, freshN := false, 0
		for n := 0; n < steps && !c.Failed(); n++ {
			st := fmt.Sprintf("#%d", n)
			k := r.Intn(100)
			switch {
			case k < 22 && !announced:
				doReply(st)
			case k < 38:
				if !held[2] {
					continue
				}
				doDuplicate(st)
			case k < 56:
				doDelete(st, r.Intn(2) == 0)
			case k < 74:
				freshN++
				ski := fmt.Sprintf("%s-fresh%d", w.Tag, freshN)
				w.Core.Take()
				w.Local.SetupRemoteDevice(ski, &rig.Tap{})
				w.Local.RemoveRemoteDeviceConnection(ski)
				log("%s a fresh peer connects and is removed before it announced anything (%s)", st, phase())
				c.Events(1)
				c.Count("early:fresh-peer-left:"+phase(), 1)
				registry("fresh-peer-left-" + phase())
				publish("fresh-peer-left-" + phase())
				shape = append(shape, "fresh:"+phase())
			case k < 84 && !otherLeft:
				otherLeft = true
				q := r.Intn(2)
				w.Local.RemoveRemoteDeviceConnection(w.Peers[q].Ski)
				connected[q], held[q] = false, false
				oldTaps[q], w.Peers[q].Tap = w.Peers[q].Tap, &rig.Tap{}
				log("%s peer%d (announced) disconnects", st, q)
				registry("other-peer-left")
				publish("other-peer-left")
				shape = append(shape, "other-left")
			default:
				doRead(st)
			}
		}
	}
	// the early requester leaves (and comes back)
	if !c.Failed() && held[2] && r.Intn(2) == 0 {
		oldTaps[2], E.Tap = E.Tap, &rig.Tap{}
		w.Local.RemoveRemoteDeviceConnection(E.Ski)
		connected[2], held[2] = false, false
		log("peer2 disconnects (%s)", phase())
		c.Count("early:own-disconnect:"+phase(), 1)
		publish("own-disconnect-" + phase())
		if !c.Failed() && r.Intn(2) == 0 {
			w.Local.SetupRemoteDevice(E.Ski, E.Tap)
			E.RD = w.Local.RemoteDeviceForSki(E.Ski)
			E.Announce(tree)
			E.Tap.Take()
			connected[2], announced = true, true
			log("peer2 reconnects with the same SKI and announces itself")
			registry("reconnect")
			publish("reconnect")
		}
		shape = append(shape, "own-disconnect:"+phase())
	}
	for _, q := range w.Peers {
		if n := q.PanicCount(); n > 0 {
			fail("panic", "the stack panicked: %s", q.Panics[n-1])
		}
	}
	if c.Failed() {
		c.Witness(map[string]any{"history": hist})
	}
	c.Shape(rkHash(append(shape, kd.name, fmt.Sprint(withDev))...))
	c.NonTrivial(val > 0)
	c.Sample(map[string]any{"history": hist})
}
