package checks

// C18, part periodgrid: the calendar shape of the distance to the end of a time period.
//
// Parts periods / values draw the distance between "now" and the end of a TimePeriodType uniformly in seconds, so the
// text the stack writes for a re-expressed end time has practically always every field (days, hours, minutes, seconds)
// non-zero. The duration text changes its shape exactly where fields are zero (whole minutes, hours, days, weeks,
// 30- and 365-day multiples: fields are left out, the period package switches its unit at 3277 h) - and end times
// people and devices set are of that kind ("in 200 days", "in 6 hours"). This part enumerates that dimension:
//
//   unit class      whole multiples of 1 min / 1 h / 1 d / 7 d / 30 d / 365 d, and two-unit compounds
//                   (days+hours, days+minutes, days+seconds, hours+minutes, hours+seconds, weeks+hours), all below 3000 days
//   neighbourhood   each distance d also as d-1s and d+1s
//   sign            end in the future and in the past
//   form            relative end time (days/hours/minutes/seconds text written by the harness), absolute end time (now+d)
//   history         two hops: the decoded value is encoded and decoded again (a forwarded value: its end time is an
//                   absolute instant that is a whole number of units away from the clock)
//
// The oracle is the one of parts values / periods (c18Eq: the instant the end time denotes, within the measured window of
// the two calls); a decoded end time that denotes nothing any more (neither a duration nor a date time) differs.

import (
	"encoding/json"
	"fmt"
	"reflect"
	"sort"
	"strings"
	"time"

	"github.com/enbility/spine-go/model"

	"verifharness/rig"
)

const (
	c18Day  = 24 * time.Hour
	c18Week = 7 * c18Day
	// c18GridMax: relative end times stay below 3000 days (assumption 2 of the check: D27 of C19 beyond 3277 days)
	c18GridMax = 3000*c18Day - 2*time.Second
)

type c18GridDur struct {
	class string
	d     time.Duration
}

func c18PeriodGridCases(t rig.Tier) int { return map[rig.Tier]int{rig.Quick: 8, rig.Thorough: 56}[t] }

// c18GridList: the distances of one case. Cases 0..15 are fixed enumerations (4 lists x 2 halves: the even and the odd
// members of the list; 0..7 in one local zone, 8..15 (thorough tier) in the other one), later cases draw compounds only.
func c18GridList(c *rig.Ctx) (name string, ds []c18GridDur) {
	add := func(class string, d time.Duration) {
		if d > 0 && d <= c18GridMax {
			ds = append(ds, c18GridDur{class, d})
		}
	}
	compounds := func(n int) {
		r := c.Rand
		for i := 0; i < n; i++ {
			days := time.Duration(1+r.Intn(2998)) * c18Day
			if r.Intn(3) == 0 { // around the place where the text changes its unit (3277 h = 136 d 13 h)
				days = time.Duration(130+r.Intn(14)) * c18Day
			}
			hours := time.Duration(1+r.Intn(3298)) * time.Hour
			switch i % 6 {
			case 0:
				add("days+hours", days+time.Duration(1+r.Intn(23))*time.Hour)
			case 1:
				add("days+minutes", days+time.Duration(1+r.Intn(59))*time.Minute)
			case 2:
				add("days+seconds", days+time.Duration(1+r.Intn(59))*time.Second)
			case 3:
				add("hours+minutes", hours+time.Duration(1+r.Intn(59))*time.Minute)
			case 4:
				add("hours+seconds", hours+time.Duration(1+r.Intn(59))*time.Second)
			case 5:
				add("weeks+hours", time.Duration(1+r.Intn(427))*c18Week+time.Duration(1+r.Intn(23))*time.Hour)
			}
		}
	}
	if c.Index >= 16 {
		compounds(1500)
		return "compounds", ds
	}
	defer func() { // this case's half of the list
		half, k := (c.Index/4)%2, 0
		for i := range ds {
			if i%2 == half {
				ds[k] = ds[i]
				k++
			}
		}
		ds = ds[:k]
		name = fmt.Sprintf("%s half=%d", name, half)
	}()
	switch c.Index % 4 {
	case 0: // every whole day
		for k := 1; k < 3000; k++ {
			add("whole-days", time.Duration(k)*c18Day)
		}
		return "whole-days<3000", ds
	case 1: // every whole hour up to 3400 h (the text changes its unit at 3277 h), then a whole hour of every tenth day
		for k := 1; k <= 3400; k++ {
			add("whole-hours", time.Duration(k)*time.Hour)
		}
		for k := 150; k < 3000; k += 10 {
			add("whole-hours", time.Duration(k)*c18Day+time.Duration(1+k%23)*time.Hour)
		}
		return "whole-hours<=3400", ds
	case 2: // whole minutes, whole weeks, 30- and 365-day multiples
		for k := 1; k <= 1500; k++ {
			add("whole-minutes", time.Duration(k)*time.Minute)
		}
		for k := 3276*60 - 5; k <= 3277*60+5; k++ {
			add("whole-minutes", time.Duration(k)*time.Minute)
		}
		for k := 1; k <= 428; k++ {
			add("whole-weeks", time.Duration(k)*c18Week)
		}
		for k := 1; k < 100; k++ {
			add("30-day-multiples", time.Duration(k)*30*c18Day)
		}
		for k := 1; k <= 8; k++ {
			add("365-day-multiples", time.Duration(k)*365*c18Day)
		}
		return "minutes/weeks/30d/365d", ds
	default:
		compounds(3000)
		return "compounds", ds
	}
}

// c18WireShape: the designators of a duration text ("P200D" -> "PD", "P3Y2M1DT4H" -> "PYMDTH"), evidence only.
func c18WireShape(s string) string {
	var b strings.Builder
	for _, r := range s {
		if r == '-' || r == '.' || (r >= '0' && r <= '9') {
			continue
		}
		b.WriteRune(r)
	}
	return b.String()
}

// c18DurText writes a whole number of seconds as an xs:duration of days, hours, minutes and seconds (zero fields left
// out), by hand: the input of this part does not come out of the function that also writes the wire text.
func c18DurText(d time.Duration) string {
	s := "P"
	if d < 0 {
		s, d = "-P", -d
	}
	sec := int64(d / time.Second)
	days, h, m, sec := sec/86400, sec%86400/3600, sec%3600/60, sec%60
	if days > 0 {
		s += fmt.Sprintf("%dD", days)
	}
	if h+m+sec > 0 || days == 0 {
		s += "T"
		if h > 0 {
			s += fmt.Sprintf("%dH", h)
		}
		if m > 0 {
			s += fmt.Sprintf("%dM", m)
		}
		if sec > 0 || h+m+days == 0 {
			s += fmt.Sprintf("%dS", sec)
		}
	}
	return s
}

func c18PeriodGrid(c *rig.Ctx) {
	zone := "utc"
	if (c.Index%4+c.Index/4+c.Index/8)%2 == 1 {
		old := time.Local
		time.Local = time.FixedZone("verif-05", -5*3600)
		defer func() { time.Local = old }()
		zone = "utc-5"
	}
	name, ds := c18GridList(c)
	judged, onGrid := 0, 0
	perClass := map[string]int64{}
	failed := map[string]bool{}
	var ex []string

	// one value through two hops
	run := func(g c18GridDur, d time.Duration, form string) {
		var tp model.TimePeriodType
		if form == "relative" {
			tp = model.TimePeriodType{EndTime: model.NewAbsoluteOrRelativeTimeType(c18DurText(d))}
		} else {
			tp = model.TimePeriodType{EndTime: model.NewAbsoluteOrRelativeTimeType(time.Now().Add(d).Round(time.Second).UTC().Format("2006-01-02T15:04:05Z"))}
		}
		cur := &tp
		for hop := 1; hop <= 2; hop++ {
			out, js, eq, err := c18Roundtrip(cur)
			judged++
			sig := fmt.Sprintf("periodgrid/%s/hop%d/", form, hop)
			hist := fmt.Sprintf("class=%s distance=%v form=%s hop=%d zone=%s: %s -> %s", g.class, d, form, hop, zone, c18Str(cur.EndTime), c18Clip(js))
			if err != nil {
				if !failed[sig+"codec-error"] {
					failed[sig+"codec-error"] = true
					c.Witness(hist)
					c.Violate(sig+"codec-error", "%s: %v", hist, err)
				}
				return
			}
			o := out.(*model.TimePeriodType)
			if df := eq.diff(reflect.ValueOf(cur), reflect.ValueOf(o), "period"); df != "" {
				if !failed[sig+"denoted-instant"] {
					failed[sig+"denoted-instant"] = true
					c.Witness(hist + " -> " + c18Str(o.EndTime))
					c.Violate(sig+"denoted-instant", "%s\n %s -> %s", df, hist, c18Str(o.EndTime))
				}
				return
			}
			// evidence: what went over the wire
			var wire struct {
				EndTime string `json:"endTime"`
			}
			if json.Unmarshal(js, &wire) == nil && strings.Contains(wire.EndTime, "P") {
				c.Seen("periodgrid_wire_text_shapes", c18WireShape(wire.EndTime))
				if p, ok := c19ParseDuration(wire.EndTime); ok && p.fracNs == 0 {
					// independent reading of the wire text, fixed-length units only
					if p.y == 0 && p.mo == 0 {
						w := time.Duration(p.w*7+p.d)*c18Day + time.Duration(p.h)*time.Hour + time.Duration(p.mi)*time.Minute + time.Duration(p.s)*time.Second
						if p.neg {
							w = -w
						}
						if w == g.d || w == -g.d {
							onGrid++
							c.Count("periodgrid_wire_texts_exactly_on_the_grid/"+form+fmt.Sprintf("/hop%d", hop), 1)
						}
					}
				}
			}
			if len(ex) < 6 && hop == 2 && (judged%97 == 0 || len(ex) == 0) {
				ex = append(ex, hist+" -> "+c18Str(o.EndTime))
			}
			cur = o
		}
		perClass[g.class]++
	}
	for _, g := range ds {
		for _, off := range []time.Duration{0, -time.Second, time.Second} {
			for _, sign := range []time.Duration{1, -1} {
				d := (g.d + off) * sign
				run(g, d, "relative")
				run(g, d, "absolute")
			}
		}
	}
	var classes []string
	for k, v := range perClass {
		c.Count("periodgrid_values_through_two_hops/"+k, v)
		classes = append(classes, k)
	}
	sort.Strings(classes)
	c.Count("periodgrid_round_trips", int64(judged))
	c.Events(int64(judged))
	c.Shape(fmt.Sprintf("periodgrid list=%s zone=%s block=%d", name, zone, c.Index/16))
	c.NonTrivial(judged >= 2000 && onGrid >= 200)
	c.Sample(map[string]any{"list": name, "zone": zone, "distances": len(ds), "round_trips": judged, "wire_texts_on_grid": onGrid, "classes": classes, "examples": ex})
}
