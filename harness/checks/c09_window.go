package checks

import (
	"fmt"
	"sort"
	"strings"
	"sync/atomic"
	"time"

	"github.com/anishathalye/porcupine"
	"github.com/enbility/spine-go/api"
	"github.com/enbility/spine-go/model"

	"verifharness/rig"
)

// C09, parts "conc-window" / "conc-window-race": COMPLETE requests of other connections inside the window of a parked one.
//
// The duel part lets k binding requests for one server feature meet at the yield point between the single-binding check
// and the insertion and releases them together: every interleaving it forces has all competitors inside the window at
// once, and the registry they find when they go on differs from the one they checked by nothing but each other's
// insertions. The statement quantifies over ALL interleavings of requests from different peers: a request that has passed
// its check may be overtaken by any number of requests of other connections that run to completion before it goes on -
// binds of the same feature, binds and deletes of other features, a bind and a delete of the same feature - so that the
// registry it finds is a different one although some cheap proxy of it (number of entries, last entry, last id, entry of
// the feature present-then-absent) is what it was at the time of the check.
//
// Here the schedule is driven step by step by one goroutine: one or two binding requests (different connections; the same
// or different server features; the second one possibly launched in the middle of the first one's window) are parked at
// AddBinding.afterCheck by an observer that holds exactly the next arrival; while they are parked a seeded script of 1-6
// requests of the OTHER connections runs, each to completion (they pass the yield point unhindered); the parked requests are
// released one by one (each awaited), together, or in the middle of the script; a few more requests follow.
//
// Oracle (logged order only): call/return stamps from one counter; per server feature the requests aimed at it and the
// BindingsOnFeature reads taken after every step form a history that must be linearizable in the single-binding register
// model of the statement (bind -> acknowledged iff unbound; delete(c) -> acknowledged iff c holds it; read = holder).
// Requests that do not overlap anything are thereby judged exactly as the sequential part judges them; a parked request
// may take effect anywhere between its call and its return (the statement does not fix where), so both outcomes are
// accepted where both are possible. Direct: no read ever shows two bindings; exactly one result per request; at the end
// Bindings(peer), HasLocalFeatureRemoteBinding and BindingsOnFeature describe the same registry, ids distinct, bindings
// nobody touched have kept their ids, and the binding change events name connection, client and server feature of exactly
// the acknowledged requests. A hold that expires (watchdog) only means "window not forced" (counted).
func c09Window(c *rig.Ctx) {
	w := rig.NewWorld(c.Tag())
	defer w.Close()
	r := c.Rand
	bm := w.Local.BindingManager()

	// ---- world: four server features of one type (one of them the nested twin [1,1]/1 of [1]/1), one of another type
	type srvT struct {
		name string
		f    api.FeatureLocalInterface
		typ  model.FeatureTypeType
	}
	var servers []srvT
	addSrv := func(name string, ent []uint, et model.EntityTypeType, typ model.FeatureTypeType, fn model.FunctionType, e api.EntityLocalInterface) api.EntityLocalInterface {
		if e == nil {
			e = w.AddEntity(et, ent, 4*time.Second)
		}
		f := e.GetOrAddFeature(typ, model.RoleTypeServer)
		f.AddFunctionType(fn, true, true)
		servers = append(servers, srvT{name, f, typ})
		return e
	}
	dc, id := model.FeatureTypeTypeDeviceClassification, model.FeatureTypeTypeIdentification
	e1 := addSrv("D0", []uint{1}, model.EntityTypeTypeCEM, dc, model.FunctionTypeDeviceClassificationUserData, nil)
	addSrv("I0", nil, "", id, model.FunctionTypeIdentificationListData, e1)
	addSrv("D1", []uint{2}, model.EntityTypeTypeCEM, dc, model.FunctionTypeDeviceClassificationUserData, nil)
	addSrv("D2", []uint{1, 1}, model.EntityTypeTypeEV, dc, model.FunctionTypeDeviceClassificationUserData, nil)
	addSrv("D3", []uint{3}, model.EntityTypeTypeCEM, dc, model.FunctionTypeDeviceClassificationUserData, nil)
	clients := []rkPeerFeat{c08PeerFeats[1], c08PeerFeats[2], c08PeerFeats[3]} // a [1]/1, b [1,1]/1 (DeviceClassification), c [1]/2 (Identification)
	clientFor := func(si int) rkPeerFeat {
		if servers[si].typ == id {
			return clients[2]
		}
		return clients[r.Intn(2)]
	}
	const nPeers = 5
	for i := 0; i < nPeers; i++ {
		p := w.AddPeer(i)
		p.Ctr = uint64(i+1) * 100000
		p.Announce(rkAnnounceList(clients))
		p.Tap.Take()
	}
	w.Core.Take()

	// ---- bookkeeping
	type reqT struct {
		n         int
		peer      int
		op        string // bind | unbind
		cli       rkPeerFeat
		srv       int
		kind      string
		held      bool
		parked    bool
		call, ret int64
		arrAt     int64 // stamp taken by the observer when the request reached the yield point
		relAt     int64 // stamp taken when the script released it
		mc        model.MsgCounterType
		res       int // 1 acknowledged, -1 refused, 0 no result
		arrived   chan struct{}
		release   chan struct{}
		done      chan struct{}
		expired   atomic.Bool
	}
	type holderT struct {
		peer int
		cli  string
	}
	var reqs []*reqT
	var hist []string
	ops := make([][]porcupine.Operation, len(servers))
	ref := map[int]holderT{} // generation only: what the acknowledged requests leave (parked requests: not yet)
	busy := map[int]bool{}   // connections whose request is parked: a connection delivers its messages one after the other
	named := map[int]bool{}  // server features some request after the prefill was aimed at
	var pending []*reqT
	twoAtOnce := false
	snaps := 0
	log := func(format string, a ...any) { hist = append(hist, fmt.Sprintf(format, a...)) }
	fail := func(sig, format string, a ...any) {
		c.Violate(sig, "%s\n history:\n  %s", fmt.Sprintf(format, a...), strings.Join(hist, "\n  "))
	}
	cliKey := func(rq *reqT) string { return rq.cli.Key(w.Peers[rq.peer]) }
	send := func(rq *reqT) model.MsgCounterType {
		p := w.Peers[rq.peer]
		if rq.op == "bind" {
			return p.Bind(rq.cli.Addr(p, true), servers[rq.srv].f.Address(), servers[rq.srv].typ)
		}
		return p.Unbind(rq.cli.Addr(p, true), servers[rq.srv].f.Address())
	}
	// collect judges the tap of the request's connection: exactly one result, nothing else
	collect := func(rq *reqT) {
		outs := w.Peers[rq.peer].Tap.Take()
		ok, bad, rest := rkResultOf(outs, rq.mc)
		c.Events(int64(ok + bad))
		switch {
		case ok+bad != 1:
			fail("window/result-count", "request #%d %s(%s -> %s) of peer %d: %d success and %d other responses (want exactly one result)", rq.n, rq.op, cliKey(rq), servers[rq.srv].name, rq.peer, ok, bad)
		case ok == 1:
			rq.res = 1
		default:
			rq.res = -1
		}
		if len(rest) > 0 {
			fail("window/unexpected-datagram", "peer %d received %s", rq.peer, rig.JS(rest))
		}
		// follow the stack (generation only)
		if rq.res == 1 {
			if rq.op == "bind" {
				if _, has := ref[rq.srv]; !has {
					ref[rq.srv] = holderT{rq.peer, rq.cli.Name}
				}
			} else if h, has := ref[rq.srv]; has && h.peer == rq.peer && h.cli == rq.cli.Name {
				delete(ref, rq.srv)
			}
		}
		in := c09In{Op: rq.op, Cli: cliKey(rq)}
		ops[rq.srv] = append(ops[rq.srv], porcupine.Operation{ClientId: rq.peer, Input: in, Call: rq.call, Output: c09Out{OK: rq.res == 1}, Return: rq.ret})
		how := ""
		if rq.held {
			how = fmt.Sprintf(" PARKED=%v at @%d, released @%d", rq.parked, rq.arrAt, rq.relAt)
		}
		log("[%d,%d] #%d peer%d %s(%s -> %s %s) kind=%s%s -> acknowledged=%v", rq.call, rq.ret, rq.n, rq.peer, rq.op, cliKey(rq), servers[rq.srv].name, rkKey(servers[rq.srv].f.Address()), rq.kind, how, rq.res == 1)
	}
	tooMany := false
	snap := func() map[int][]*api.BindingEntry {
		out := map[int][]*api.BindingEntry{}
		var line []string
		for si, s := range servers {
			t0 := rig.Seq()
			es := bm.BindingsOnFeature(*s.f.Address())
			t1 := rig.Seq()
			var ks []string
			for _, en := range es {
				ks = append(ks, rkFeatKey(en.ClientFeature))
			}
			sort.Strings(ks)
			ops[si] = append(ops[si], porcupine.Operation{ClientId: 90, Input: c09In{Op: "snapshot"}, Call: t0, Output: c09Out{Holder: strings.Join(ks, " ")}, Return: t1})
			out[si] = es
			c.Events(1)
			snaps++
			if len(ks) > 0 {
				line = append(line, s.name+"="+strings.Join(ks, "+"))
			}
			if len(es) > 1 && !tooMany {
				tooMany = true
				log("      read @%d: %s", t1, strings.Join(line, " "))
				fail("window/more-than-one-binding", "BindingsOnFeature(%s %s) returned %d bindings: %v (%d requests parked at that moment)", s.name, rkKey(s.f.Address()), len(es), ks, len(pending))
			}
		}
		log("      read: {%s}", strings.Join(line, " "))
		return out
	}
	inconclusive := false
	giveUp := func(what string) {
		inconclusive = true
		c.Inconclusive("%s (the progress watchdog decides whether this is a hang)", what)
	}

	h := rig.InstallHooks()
	defer h.Uninstall()
	const point = "AddBinding.afterCheck"
	var armed atomic.Pointer[reqT]
	h.On(point, func(any) {
		rq := armed.Swap(nil)
		if rq == nil {
			return
		}
		rq.arrAt = rig.Seq()
		close(rq.arrived)
		select {
		case <-rq.release:
		case <-time.After(45 * time.Second):
			rq.expired.Store(true)
		}
	})
	h.Role("script")

	// run executes a request of a free connection to completion
	run := func(rq *reqT) bool {
		rq.n = len(reqs)
		reqs = append(reqs, rq)
		rq.call = rig.Seq()
		ok, pan := rig.Guard(60*time.Second, func() { rq.mc = send(rq) })
		rq.ret = rig.Seq()
		if !ok {
			giveUp(fmt.Sprintf("request #%d did not return within 60s", rq.n))
			return false
		}
		if pan != "" {
			fail("window/panic", "the harness-side send panicked: %s", pan)
			return false
		}
		c.Events(1)
		collect(rq)
		return true
	}
	// launch starts a request whose arrival at the yield point (if it gets there) is held
	launch := func(rq *reqT) bool {
		rq.n = len(reqs)
		reqs = append(reqs, rq)
		rq.held = true
		rq.arrived, rq.release, rq.done = make(chan struct{}), make(chan struct{}), make(chan struct{})
		armed.Store(rq)
		rq.call = rig.Seq()
		go func() {
			defer close(rq.done)
			h.Role(fmt.Sprintf("parked%d", rq.n))
			rq.mc = send(rq)
			rq.ret = rig.Seq()
		}()
		select {
		case <-rq.arrived:
			rq.parked = true
			busy[rq.peer] = true
			pending = append(pending, rq)
			if len(pending) > 1 {
				twoAtOnce = true
			}
			log("[%d,..] #%d peer%d bind(%s -> %s) kind=%s has passed the single-binding check and is parked before the insertion", rq.call, rq.n, rq.peer, cliKey(rq), servers[rq.srv].name, rq.kind)
			c.Events(1)
		case <-rq.done: // answered before the yield point
			armed.Store(nil)
			c.Events(1)
			collect(rq)
		case <-time.After(60 * time.Second):
			armed.Store(nil)
			giveUp(fmt.Sprintf("request #%d neither reached the yield point nor returned within 60s", rq.n))
			return false
		}
		return true
	}
	await := func(rq *reqT) bool {
		select {
		case <-rq.done:
		case <-time.After(60 * time.Second):
			giveUp(fmt.Sprintf("released request #%d did not return within 60s", rq.n))
			return false
		}
		delete(busy, rq.peer)
		for i, x := range pending {
			if x == rq {
				pending = append(pending[:i:i], pending[i+1:]...)
				break
			}
		}
		collect(rq)
		return true
	}
	releaseAll := func() { // also the exit path: nobody stays parked
		for _, rq := range pending {
			select {
			case <-rq.release:
			default:
				rq.relAt = rig.Seq()
				close(rq.release)
			}
		}
	}
	defer func() {
		releaseAll()
		for _, rq := range pending {
			select {
			case <-rq.done:
			case <-time.After(30 * time.Second):
			}
		}
	}()

	// ---- generation helpers (every choice from c.Rand and the acknowledged results so far)
	freePeers := func(except int) []int {
		var ps []int
		for i := 0; i < nPeers; i++ {
			if !busy[i] && i != except {
				ps = append(ps, i)
			}
		}
		return ps
	}
	isTarget := func(si int) bool {
		for _, rq := range pending {
			if rq.srv == si {
				return true
			}
		}
		return false
	}
	// gen builds one complete request of the given kind, nil if the registry offers no occasion for it
	gen := func(kind string) *reqT {
		fp := freePeers(-1)
		if len(fp) == 0 {
			return nil
		}
		var free, bound, boundFreeHolder, boundOther []int
		for si := range servers {
			if hd, ok := ref[si]; ok {
				bound = append(bound, si)
				if !busy[hd.peer] {
					boundFreeHolder = append(boundFreeHolder, si)
					if !isTarget(si) {
						boundOther = append(boundOther, si)
					}
				}
			} else if !isTarget(si) {
				free = append(free, si)
			}
		}
		switch kind {
		case "bind-target": // the feature a parked request is about to be inserted for
			if len(pending) == 0 {
				return nil
			}
			si := pending[r.Intn(len(pending))].srv
			return &reqT{peer: fp[r.Intn(len(fp))], op: "bind", srv: si, cli: clientFor(si), kind: kind}
		case "bind-free":
			if len(free) == 0 {
				return nil
			}
			si := free[r.Intn(len(free))]
			return &reqT{peer: fp[r.Intn(len(fp))], op: "bind", srv: si, cli: clientFor(si), kind: kind}
		case "bind-bound":
			if len(bound) == 0 {
				return nil
			}
			si := bound[r.Intn(len(bound))]
			return &reqT{peer: fp[r.Intn(len(fp))], op: "bind", srv: si, cli: clientFor(si), kind: kind}
		case "unbind-other", "unbind-holder", "unbind-target":
			cand := boundFreeHolder
			if kind == "unbind-other" {
				cand = boundOther
			} else if kind == "unbind-target" {
				cand = nil
				for _, si := range boundFreeHolder {
					if isTarget(si) {
						cand = append(cand, si)
					}
				}
			}
			if len(cand) == 0 {
				return nil
			}
			si := cand[r.Intn(len(cand))]
			hd := ref[si]
			cl := clients[0]
			for _, x := range clients {
				if x.Name == hd.cli {
					cl = x
				}
			}
			return &reqT{peer: hd.peer, op: "unbind", srv: si, cli: cl, kind: kind}
		case "unbind-wrong": // the numbers of an existing binding from a connection that does not hold it
			if len(bound) == 0 {
				return nil
			}
			si := bound[r.Intn(len(bound))]
			hd := ref[si]
			ps := freePeers(hd.peer)
			if len(ps) == 0 {
				return nil
			}
			cl := clients[0]
			for _, x := range clients {
				if x.Name == hd.cli {
					cl = x
				}
			}
			return &reqT{peer: ps[r.Intn(len(ps))], op: "unbind", srv: si, cli: cl, kind: kind}
		}
		return nil
	}
	anyKinds := []string{"bind-target", "bind-target", "bind-free", "bind-free", "bind-bound", "unbind-other", "unbind-other", "unbind-holder", "unbind-target", "unbind-wrong"}
	genAny := func() *reqT {
		for try := 0; try < 12; try++ {
			if rq := gen(anyKinds[r.Intn(len(anyKinds))]); rq != nil {
				return rq
			}
		}
		return nil
	}

	// ---- the case
	style := []string{"exchange", "exchange", "churn", "random", "shift"}[c.Index%5]
	nPre := r.Intn(4)
	if style == "exchange" || style == "shift" {
		nPre = 1 + r.Intn(3) // something to delete must exist
	}
	for i := 0; i < nPre; i++ {
		rq := gen("bind-free")
		if rq == nil {
			break
		}
		rq.kind = "prefill"
		if !run(rq) {
			return
		}
		if rq.res != 1 && !c.Failed() {
			fail("window/setup-bind-refused", "a valid binding request for an unbound feature, overlapping nothing, was refused")
		}
	}
	before := snap()
	idsBefore := map[int]string{}
	for si, es := range before {
		if len(es) == 1 {
			idsBefore[si] = fmt.Sprintf("#%d %s>%s", es[0].Id, rkFeatKey(es[0].ClientFeature), rkFeatKey(es[0].ServerFeature))
		}
	}
	if c.Failed() {
		c.Witness(map[string]any{"history": hist})
		return
	}

	nHeld := 1 + r.Intn(5)/3 // 1 1 1 2 2
	W := 1 + r.Intn(5)
	var script []string
	switch style {
	case "exchange": // a binding of another feature goes, a binding of the target comes: the registry has the size it had
		script = []string{"unbind-other", "bind-target"}
		if r.Intn(2) == 0 {
			script[0], script[1] = script[1], script[0]
		}
	case "shift": // ... or a binding of a third feature comes: size, but not content, as at the time of the check
		script = []string{"unbind-other", "bind-free", "bind-target"}
		r.Shuffle(len(script), func(i, j int) { script[i], script[j] = script[j], script[i] })
		if r.Intn(2) == 0 {
			script = script[:2]
		}
	case "churn": // the target is bound and unbound again (and perhaps bound once more) by somebody else
		script = []string{"bind-target", "unbind-target"}
		if r.Intn(2) == 0 {
			script = append(script, "bind-target")
		}
	}
	for extra := r.Intn(3); style != "random" && extra > 0; extra-- { // anything else, anywhere
		at := r.Intn(len(script) + 1)
		script = append(script[:at:at], append([]string{"any"}, script[at:]...)...)
	}
	if style == "random" {
		for i := 0; i < W; i++ {
			script = append(script, "any")
		}
	}
	W = len(script)
	launchAt := []int{0, 0}
	releaseAt := []int{W, W}
	if nHeld == 2 && r.Intn(2) == 0 {
		launchAt[1] = r.Intn(W + 1) // the second request's check happens inside the window of the first one
	}
	for j := 0; j < nHeld; j++ {
		if r.Intn(10) < 3 {
			releaseAt[j] = launchAt[j] + 1 + r.Intn(W-launchAt[j]+1) // may be W+1 = "at the end" as well
			if releaseAt[j] > W {
				releaseAt[j] = W
			}
		}
	}
	together := r.Intn(2) == 0
	held := make([]*reqT, nHeld)
	mkHeld := func(j int) *reqT {
		// a connection that holds nothing, if there is one (the deletes of the script need free holders)
		var ps, idle []int
		for _, p := range freePeers(-1) {
			ps = append(ps, p)
			holds := false
			for _, hd := range ref {
				holds = holds || hd.peer == p
			}
			if !holds {
				idle = append(idle, p)
			}
		}
		if len(ps) <= 1 {
			return nil // one connection must stay free for the script
		}
		if len(idle) > 0 && r.Intn(4) > 0 {
			ps = idle
		}
		var free, bound []int
		for si := range servers {
			if _, ok := ref[si]; ok {
				bound = append(bound, si)
			} else {
				free = append(free, si)
			}
		}
		rq := &reqT{peer: ps[r.Intn(len(ps))], op: "bind", kind: "parked"}
		switch {
		case j == 1 && held[0] != nil && r.Intn(2) == 0:
			rq.srv, rq.kind = held[0].srv, "parked-same-target"
		case len(bound) > 0 && (len(free) == 0 || r.Intn(8) == 0):
			rq.srv, rq.kind = bound[r.Intn(len(bound))], "parked-on-bound-feature" // refused by the check: never reaches the window
		default:
			// prefer the features of the type that has several server features
			rq.srv = free[r.Intn(len(free))]
		}
		rq.cli = clientFor(rq.srv)
		return rq
	}
	for i := 0; i <= W && !c.Failed() && !inconclusive; i++ {
		for j := 0; j < nHeld; j++ {
			if launchAt[j] == i && held[j] == nil {
				if rq := mkHeld(j); rq != nil {
					held[j] = rq
					named[rq.srv] = true
					if !launch(rq) {
						return
					}
					snap()
				}
			}
		}
		for j := 0; j < nHeld; j++ {
			if rq := held[j]; rq != nil && rq.parked && rq.relAt == 0 && releaseAt[j] == i && i < W {
				rq.relAt = rig.Seq()
				close(rq.release)
				if !await(rq) {
					return
				}
				snap()
			}
		}
		if i < W {
			var rq *reqT
			if script[i] != "any" {
				rq = gen(script[i])
			}
			if rq == nil {
				rq = genAny()
			}
			if rq == nil {
				continue
			}
			named[rq.srv] = true
			if !run(rq) {
				return
			}
			snap()
		}
	}
	// release what is still parked: one by one in a seeded order (each awaited), or together
	rest := append([]*reqT(nil), pending...)
	r.Shuffle(len(rest), func(i, j int) { rest[i], rest[j] = rest[j], rest[i] })
	mode := "none"
	if len(rest) > 0 {
		mode = "one-by-one"
	}
	if together && len(rest) > 1 {
		mode = "together"
		releaseAll()
	}
	for _, rq := range rest {
		if rq.relAt == 0 {
			rq.relAt = rig.Seq()
			close(rq.release)
		}
		if !await(rq) {
			return
		}
		if mode != "together" {
			snap()
		}
	}
	snap()
	for n := r.Intn(3); n > 0 && !c.Failed() && !inconclusive; n-- { // what the registry answers afterwards
		rq := genAny()
		if rq == nil {
			break
		}
		rq.kind = "after:" + rq.kind
		named[rq.srv] = true
		if !run(rq) {
			return
		}
		snap()
	}
	h.Uninstall()
	final := snap()

	// ---- verdicts on the whole history
	decided := true
	if !tooMany {
		for si, s := range servers {
			res, _ := porcupine.CheckOperationsVerbose(c09Model, ops[si], 20*time.Second)
			c.Count("window_porcupine:"+string(res), 1)
			c.Events(int64(len(ops[si])))
			switch res {
			case porcupine.Illegal:
				what := "complete-requests-only"
				for _, rq := range reqs {
					if rq.srv == si && rq.parked {
						what = "parked-request"
					}
				}
				var hs []string
				for _, o := range ops[si] {
					hs = append(hs, fmt.Sprintf("[%d,%d] %s", o.Call, o.Return, c09Model.DescribeOperation(o.Input, o.Output)))
				}
				fail("window/"+what+"/not-linearizable", "the requests and reads of %s %s have no linearization in the single-binding register model:\n   %s", s.name, rkKey(s.f.Address()), strings.Join(hs, "\n   "))
			case porcupine.Unknown:
				c.Inconclusive("porcupine timed out (%d operations)", len(ops[si]))
				decided = false
			}
		}
	}
	// the three views of the registry agree; ids distinct; untouched bindings kept their id
	ids := map[uint64]bool{}
	total, onFeatures := 0, 0
	for pi, p := range w.Peers {
		want, got := map[string]bool{}, map[string]bool{}
		for si, es := range final {
			for _, en := range es {
				if strings.HasPrefix(rkFeatKey(en.ClientFeature), p.Addr+":") {
					want[rkFeatKey(en.ClientFeature)+">"+servers[si].name] = true
				}
			}
		}
		bs := bm.Bindings(p.RD)
		total += len(bs)
		for _, en := range bs {
			ids[en.Id] = true
			sn := rkFeatKey(en.ServerFeature)
			for _, s := range servers {
				if rkKey(s.f.Address()) == sn {
					sn = s.name
				}
			}
			got[rkFeatKey(en.ClientFeature)+">"+sn] = true
		}
		c.Events(1)
		if fmt.Sprint(rkSorted(want)) != fmt.Sprint(rkSorted(got)) || len(got) != len(bs) {
			fail("window/registry/peer-list-differs-from-feature-lists", "Bindings(peer %d) = %v (%d entries), the features' lists say %v", pi, rkSorted(got), len(bs), rkSorted(want))
		}
		for si, s := range servers {
			for _, cl := range clients {
				wantHas := false
				for _, en := range final[si] {
					wantHas = wantHas || rkFeatKey(en.ClientFeature) == cl.Key(p)
				}
				c.Events(1)
				if got := bm.HasLocalFeatureRemoteBinding(s.f.Address(), cl.Addr(p, true)); got != wantHas {
					fail("window/has-binding-inconsistent", "HasLocalFeatureRemoteBinding(%s, %s) = %v, BindingsOnFeature says %v", s.name, cl.Key(p), got, wantHas)
				}
			}
		}
	}
	for si, es := range final {
		onFeatures += len(es)
		if want, ok := idsBefore[si]; ok && !named[si] {
			got := ""
			if len(es) == 1 {
				got = fmt.Sprintf("#%d %s>%s", es[0].Id, rkFeatKey(es[0].ClientFeature), rkFeatKey(es[0].ServerFeature))
			}
			c.Events(1)
			if got != want {
				fail("window/untouched-binding-changed", "no request named %s; its binding was {%s} before and is {%s} now", servers[si].name, want, got)
			}
		}
	}
	if len(ids) != total {
		fail("window/registry/ids-not-distinct", "%d bindings with %d distinct ids", total, len(ids))
	}
	// events one to one, each naming connection, client and server feature of an acknowledged request
	wantEv, gotEv := map[string]int{}, map[string]int{}
	for _, rq := range reqs {
		if rq.res == 1 {
			ch := map[string]string{"bind": "add", "unbind": "remove"}[rq.op]
			wantEv[fmt.Sprintf("%s ski=%s client=%s server=%s", ch, w.Peers[rq.peer].Ski, cliKey(rq), rkKey(servers[rq.srv].f.Address()))]++
		}
	}
	nEv := 0
	for _, e := range w.Core.Take() {
		if e.P.EventType != api.EventTypeBindingChange {
			continue
		}
		nEv++
		ch := map[api.ElementChangeType]string{api.ElementChangeAdd: "add", api.ElementChangeRemove: "remove"}[e.P.ChangeType]
		gotEv[fmt.Sprintf("%s ski=%s client=%s server=%s", ch, e.P.Ski, rkFeatKey(e.P.Feature), rkFeatKey(e.P.LocalFeature))]++
	}
	c.Events(int64(nEv))
	if fmt.Sprint(wantEv) != fmt.Sprint(gotEv) {
		fail("window/events-differ-from-acknowledged-requests", "binding change events %v, acknowledged requests %v", gotEv, wantEv)
	}
	for _, q := range w.Peers {
		if n := q.PanicCount(); n > 0 {
			fail("window/panic", "the stack panicked: %s", q.Panics[n-1])
		}
	}

	// ---- evidence: what ran inside the windows that were forced
	forced, inside := 0, 0
	var sh []string
	for _, rq := range reqs {
		sh = append(sh, fmt.Sprintf("%s:%s:%s:%s:%v:%d", rq.op, rq.kind, rq.cli.Name, servers[rq.srv].name, rq.parked, rq.res))
		if !rq.held {
			continue
		}
		if !rq.parked {
			c.Count("window_request_answered_before_the_yield_point:"+rq.kind, 1)
			continue
		}
		if rq.expired.Load() {
			c.Count("window_hold_expired", 1)
			continue
		}
		forced++
		bindsT, unbindsT, bindsO, unbindsO, refused, delta, changed := 0, 0, 0, 0, 0, 0, false
		for _, x := range reqs {
			lo, hi := x.call, x.ret // the stretch in which x took effect
			if x.parked {
				lo = x.relAt
			}
			if x == rq || hi == 0 || lo < rq.arrAt || hi > rq.relAt {
				continue
			}
			switch {
			case x.res != 1:
				refused++
			case x.op == "bind" && x.srv == rq.srv:
				bindsT, delta, changed = bindsT+1, delta+1, true
			case x.op == "bind":
				bindsO, delta, changed = bindsO+1, delta+1, true
			case x.srv == rq.srv:
				unbindsT, delta, changed = unbindsT+1, delta-1, true
			default:
				unbindsO, delta, changed = unbindsO+1, delta-1, true
			}
		}
		if changed {
			inside++
		}
		cl := func(n int) string {
			if n > 1 {
				return "2+"
			}
			return fmt.Sprint(n)
		}
		c.Count(fmt.Sprintf("window_inside: acknowledged binds of the target=%s deletes of the target=%s binds elsewhere=%s deletes elsewhere=%s", cl(bindsT), cl(unbindsT), cl(bindsO), cl(unbindsO)), 1)
		c.Count(fmt.Sprintf("window_registry_size_at_release_vs_check: %+d changed=%v target_bound_at_release=%v -> parked request acknowledged=%v", delta, changed, bindsT > unbindsT, rq.res == 1), 1)
		if changed && delta == 0 {
			c.Count("window_same_size_different_registry", 1)
			if bindsT > unbindsT {
				c.Count("window_same_size_different_registry_and_target_bound", 1)
			}
		}
		if refused > 0 {
			c.Count("window_refused_requests_inside", int64(refused))
		}
	}
	c.Count("window_style:"+style, 1)
	c.Count("window_release:"+mode, 1)
	if twoAtOnce {
		c.Count("window_two_requests_parked_at_once", 1)
	}
	if forced > 0 {
		c.Count("windows_forced", int64(forced))
	}
	c.Count("window_registry_reads", int64(snaps))
	c.Seen("window_hook_traces", rkHash(append(h.Trace(), sh...)...)[:10])
	if c.Failed() {
		c.Witness(map[string]any{"style": style, "history": hist, "hook_trace": h.Trace()})
	}
	c.Shape(rkHash(append(sh, style, mode)...))
	c.NonTrivial(decided && forced > 0 && inside > 0)
	c.Sample(map[string]any{"style": style, "release": mode, "history": hist, "windows_forced": forced, "hook_trace": h.Trace()})
}
