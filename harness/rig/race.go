package rig

import (
	"os"
	"regexp"
	"sort"
	"strconv"
	"strings"
	"sync"
)

// RaceReport is one "WARNING: DATA RACE" block of the Go race detector, reduced to a signature:
// the racy variable (Type.field) named in the source text of the innermost spine-go access
// statement on each side. Function pairs are too unstable between runs (DESIGN.md, C17).
type RaceReport struct {
	Case    int    // case running when the report was printed (from the @@CASE markers)
	Sig     string // e.g. "DeviceLocal.remoteDevices" or "FeatureLocal.bindings|app"
	Sides   [2]string
	Harness bool // neither side touches spine-go: a bug of the harness itself
	Text    string
}

type frame struct {
	fn, file string
	line     int
}

var (
	caseMarkRe = regexp.MustCompile(`^@@CASE \S+ \S+ (\d+)`)
	accessRe   = regexp.MustCompile(`^(Read|Write|Previous read|Previous write|Atomic read|Atomic write|Previous atomic read|Previous atomic write) at `)
	srcCache   = map[string][]string{}
	srcMu      sync.Mutex
)

func srcLines(file string) []string {
	srcMu.Lock()
	defer srcMu.Unlock()
	if l, ok := srcCache[file]; ok {
		return l
	}
	b, err := os.ReadFile(file)
	if err != nil {
		srcCache[file] = nil
		return nil
	}
	l := strings.Split(string(b), "\n")
	srcCache[file] = l
	return l
}

// ParseRaceReports extracts the reports from a worker's stderr. repoRoot is the path prefix that
// identifies spine-go frames (the harness module replaces the dependency by that directory).
func ParseRaceReports(text, repoRoot string) []RaceReport {
	var out []RaceReport
	lines := strings.Split(text, "\n")
	curCase := -1
	for i := 0; i < len(lines); i++ {
		if m := caseMarkRe.FindStringSubmatch(lines[i]); m != nil {
			curCase, _ = strconv.Atoi(m[1])
			continue
		}
		if !strings.HasPrefix(lines[i], "WARNING: DATA RACE") {
			continue
		}
		var stacks [][]frame
		var cur *[]frame
		j := i + 1
		for ; j < len(lines) && !strings.HasPrefix(lines[j], "=================="); j++ {
			l := lines[j]
			switch {
			case accessRe.MatchString(l):
				stacks = append(stacks, nil)
				cur = &stacks[len(stacks)-1]
			case strings.HasPrefix(l, "Goroutine "):
				cur = nil
			case cur != nil && strings.HasPrefix(l, "      "):
				if n := len(*cur); n > 0 {
					loc := strings.Fields(strings.TrimSpace(l))[0]
					if k := strings.LastIndex(loc, ":"); k > 0 {
						(*cur)[n-1].file = loc[:k]
						(*cur)[n-1].line, _ = strconv.Atoi(loc[k+1:])
					}
				}
			case cur != nil && strings.HasPrefix(l, "  "):
				*cur = append(*cur, frame{fn: strings.TrimSpace(l)})
			}
		}
		rep := RaceReport{Case: curCase}
		end := j
		if end > i+70 {
			end = i + 70
		}
		rep.Text = strings.Join(lines[i:end], "\n")
		spineSides := 0
		var vars []string
		for s := 0; s < 2; s++ {
			side := "app"
			if s < len(stacks) {
				for _, fr := range stacks[s] {
					if strings.HasPrefix(fr.file, repoRoot+"/") && strings.Contains(fr.fn, "github.com/enbility/spine-go/") {
						side = racyVariable(fr)
						spineSides++
						break
					}
				}
			}
			rep.Sides[s] = side
			vars = append(vars, side)
		}
		rep.Harness = spineSides == 0
		sort.Strings(vars)
		if vars[0] == vars[1] {
			rep.Sig = vars[0]
		} else {
			rep.Sig = vars[0] + "|" + vars[1]
		}
		out = append(out, rep)
		i = j
	}
	return out
}

var (
	typeInFn  = regexp.MustCompile(`\.\(\*?([A-Za-z0-9_]+)`)
	funcInFn  = regexp.MustCompile(`([A-Za-z0-9_]+)(\.func\d+)*(\.\d+)*\(\)$`)
	brackets  = regexp.MustCompile(`\[[^\]]*\]`)
	recvDeclT = `func \((\w+) \*?%s(\[[^\]]*\])?\)`
)

// racyVariable names the struct field accessed by the statement at fr, e.g. "DeviceLocal.remoteDevices".
func racyVariable(fr frame) string {
	fn := fr.fn
	for brackets.MatchString(fn) {
		fn = brackets.ReplaceAllString(fn, "")
	}
	fn = strings.TrimPrefix(fn, "github.com/enbility/spine-go/")
	typ := ""
	if m := typeInFn.FindStringSubmatch(fn); m != nil {
		typ = m[1]
	}
	short := strings.TrimSuffix(fn, "()")
	lines := srcLines(fr.file)
	if fr.line <= 0 || fr.line > len(lines) {
		return short
	}
	stmt := strings.TrimSpace(lines[fr.line-1])
	if typ != "" {
		// find the receiver name of the enclosing method: search upwards for the declaration
		re := regexp.MustCompile(strings.Replace(recvDeclT, "%s", regexp.QuoteMeta(typ), 1))
		recv := ""
		for k := fr.line - 1; k >= 0; k-- {
			if m := re.FindStringSubmatch(lines[k]); m != nil {
				recv = m[1]
				break
			}
			if strings.HasPrefix(lines[k], "func ") {
				break
			}
		}
		if recv != "" {
			fre := regexp.MustCompile(`\b` + regexp.QuoteMeta(recv) + `\.([A-Za-z_][A-Za-z0-9_]*)(\()?`)
			first := ""
			for _, m := range fre.FindAllStringSubmatch(stmt, -1) {
				if m[2] == "(" {
					continue // method call
				}
				if first == "" {
					first = m[1]
				}
			}
			if first != "" {
				return typ + "." + first
			}
		}
	}
	// no receiver field in the statement: fall back to function + normalised statement
	if len(stmt) > 60 {
		stmt = stmt[:60]
	}
	sig := strings.Join(strings.Fields(short+"::"+stmt), "_") // no blanks: known_findings.txt is split on white space
	if len(sig) > 160 {
		sig = sig[:160]
	}
	return sig
}
