package rig

import (
	"fmt"
	"math/rand"
	"reflect"
	"sort"
	"strings"
	"sync"

	"github.com/enbility/spine-go/api"
	"github.com/enbility/spine-go/model"
	"github.com/enbility/spine-go/spine"
)

// ---------------------------------------------------------------------------
// Reflective value generation for data-model types

var strDom = []string{"a", "b", "c", "d"}

// GenVal builds a random value of type t: small integers, short strings, booleans, nested
// structs; a TimePeriodType always gets an absolute start time so that the relative-end-time
// re-expression (C18's stated exception) never interferes with other properties.
func GenVal(r *rand.Rand, t reflect.Type, depth int) reflect.Value {
	v := reflect.New(t).Elem()
	switch t.Kind() {
	case reflect.Ptr:
		p := reflect.New(t.Elem())
		p.Elem().Set(GenVal(r, t.Elem(), depth))
		return p
	case reflect.Uint, reflect.Uint8, reflect.Uint16, reflect.Uint32, reflect.Uint64:
		v.SetUint(uint64(r.Intn(50)))
	case reflect.Int, reflect.Int8, reflect.Int16, reflect.Int32, reflect.Int64:
		v.SetInt(int64(r.Intn(50)))
	case reflect.Float32, reflect.Float64:
		v.SetFloat(float64(r.Intn(50)))
	case reflect.Bool:
		v.SetBool(r.Intn(2) == 0)
	case reflect.String:
		v.SetString(strDom[r.Intn(len(strDom))] + fmt.Sprint(r.Intn(50)))
	case reflect.Struct:
		if t.Name() == "TimePeriodType" {
			tp := model.TimePeriodType{StartTime: model.NewAbsoluteOrRelativeTimeType(fmt.Sprintf("2024-01-%02dT00:00:00Z", 1+r.Intn(28)))}
			if r.Intn(2) == 0 {
				tp.EndTime = model.NewAbsoluteOrRelativeTimeType(fmt.Sprintf("2025-02-%02dT00:00:00Z", 1+r.Intn(28)))
			}
			v.Set(reflect.ValueOf(tp))
			return v
		}
		if depth > 2 {
			return v
		}
		for i := 0; i < t.NumField(); i++ {
			if !v.Field(i).CanSet() {
				continue
			}
			if r.Intn(3) == 0 {
				continue
			}
			v.Field(i).Set(GenVal(r, t.Field(i).Type, depth+1))
		}
	case reflect.Slice:
		if depth > 2 {
			return v
		}
		n := r.Intn(3)
		s := reflect.MakeSlice(t, 0, n)
		for i := 0; i < n; i++ {
			s = reflect.Append(s, GenVal(r, t.Elem(), depth+1))
		}
		if n > 0 {
			v.Set(s)
		}
	}
	return v
}

// Canon is a canonical rendering in which nil and the empty list are identified.
func Canon(v reflect.Value) string {
	if !v.IsValid() {
		return "nil"
	}
	switch v.Kind() {
	case reflect.Interface:
		if v.IsNil() {
			return "nil"
		}
		return Canon(v.Elem())
	case reflect.Ptr:
		if v.IsNil() {
			return "nil"
		}
		return "&" + Canon(v.Elem())
	case reflect.Struct:
		var sb strings.Builder
		sb.WriteString("{")
		for i := 0; i < v.NumField(); i++ {
			c := Canon(v.Field(i))
			if c == "nil" || c == "[]" {
				continue
			}
			sb.WriteString(v.Type().Field(i).Name + ":" + c + " ")
		}
		sb.WriteString("}")
		return sb.String()
	case reflect.Slice:
		if v.Len() == 0 {
			return "[]"
		}
		var ps []string
		for i := 0; i < v.Len(); i++ {
			ps = append(ps, Canon(v.Index(i)))
		}
		return "[" + strings.Join(ps, ",") + "]"
	default:
		return fmt.Sprintf("%v", v.Interface())
	}
}

func CanonAny(v any) string { return Canon(reflect.ValueOf(v)) }

// ---------------------------------------------------------------------------
// List functions: discovered from the stack's own function table

type ListInfo struct {
	Fn            model.FunctionType
	FeatureType   model.FeatureTypeType // Generic or NodeManagement (where the function is registered)
	PtrT          reflect.Type          // *XxxListDataType
	ListIdx       int                   // index of the list field
	ElemT         reflect.Type
	Keys          []int        // field indices tagged eebus:"key" (pointer typed)
	SelT, ElT     reflect.Type // selector / elements struct types (nil if the filter table has none)
	SelIdx, ElIdx int          // field index in model.FilterType
	SelCoversKeys bool         // the selector type has a field for every key field of the item
	AllUint       bool         // all keys numeric
	WriteCheck    int          // field index tagged eebus:"writecheck" (-1 if none)
	NonKeyPtr     []int        // non-key pointer fields of the item
}

var (
	listsOnce sync.Once
	lists     []ListInfo
)

func keyFields(t reflect.Type) []int {
	var ks []int
	for i := 0; i < t.NumField(); i++ {
		if _, ok := model.EEBusTags(t.Field(i))[model.EEBusTagKey]; ok && t.Field(i).Type.Kind() == reflect.Ptr {
			ks = append(ks, i)
		}
	}
	return ks
}

// DiscoverLists enumerates every function whose data type supports partial updates.
func DiscoverLists() []ListInfo {
	listsOnce.Do(func() {
		ftT := reflect.TypeOf(model.FilterType{})
		for _, ft := range []model.FeatureTypeType{model.FeatureTypeTypeGeneric, model.FeatureTypeTypeNodeManagement} {
			for _, fd := range spine.CreateFunctionData[api.FunctionDataCmdInterface](ft) {
				if !fd.SupportsPartialWrite() {
					continue
				}
				pt := reflect.TypeOf(fd.DataCopyAny())
				T := pt.Elem()
				li := ListInfo{Fn: fd.FunctionType(), FeatureType: ft, PtrT: pt, ListIdx: -1, SelIdx: -1, ElIdx: -1, WriteCheck: -1}
				for i := 0; i < T.NumField(); i++ {
					if T.Field(i).Type.Kind() == reflect.Slice && T.Field(i).Type.Elem().Kind() == reflect.Struct && li.ListIdx < 0 {
						li.ListIdx = i
					}
				}
				if li.ListIdx < 0 {
					continue
				}
				li.ElemT = T.Field(li.ListIdx).Type.Elem()
				li.Keys = keyFields(li.ElemT)
				li.AllUint = len(li.Keys) > 0
				for _, k := range li.Keys {
					switch li.ElemT.Field(k).Type.Elem().Kind() {
					case reflect.Uint, reflect.Uint8, reflect.Uint16, reflect.Uint32, reflect.Uint64:
					default:
						li.AllUint = false
					}
				}
				for i := 0; i < li.ElemT.NumField(); i++ {
					if _, ok := model.EEBusTags(li.ElemT.Field(i))[model.EEBusTagWriteCheck]; ok {
						li.WriteCheck = i
					}
					isKey := false
					for _, k := range li.Keys {
						if k == i {
							isKey = true
						}
					}
					if !isKey && li.ElemT.Field(i).Type.Kind() == reflect.Ptr {
						li.NonKeyPtr = append(li.NonKeyPtr, i)
					}
				}
				for i := 0; i < ftT.NumField(); i++ {
					tags := model.EEBusTags(ftT.Field(i))
					if tags[model.EEBusTagFunction] != string(li.Fn) {
						continue
					}
					switch tags[model.EEBusTagType] {
					case "selector":
						li.SelT, li.SelIdx = ftT.Field(i).Type.Elem(), i
					case "elements":
						li.ElT, li.ElIdx = ftT.Field(i).Type.Elem(), i
					}
				}
				if li.SelT != nil && len(li.Keys) > 0 {
					li.SelCoversKeys = true
					for _, k := range li.Keys {
						sf, ok := li.SelT.FieldByName(li.ElemT.Field(k).Name)
						if !ok || sf.Type != li.ElemT.Field(k).Type {
							li.SelCoversKeys = false
						}
					}
				}
				lists = append(lists, li)
			}
		}
		sort.Slice(lists, func(i, j int) bool { return lists[i].Fn < lists[j].Fn })
	})
	return lists
}

func ListByFn(fn model.FunctionType) *ListInfo {
	for i, li := range DiscoverLists() {
		if li.Fn == fn {
			return &DiscoverLists()[i]
		}
	}
	return nil
}

// setKey sets key field i of item to domain value n.
func setKey(item reflect.Value, i int, n int) {
	ft := item.Type().Field(i).Type.Elem()
	p := reflect.New(ft)
	switch ft.Kind() {
	case reflect.Uint, reflect.Uint8, reflect.Uint16, reflect.Uint32, reflect.Uint64:
		p.Elem().SetUint(uint64(n))
	case reflect.String:
		p.Elem().SetString(fmt.Sprint("k", n))
	case reflect.Struct:
		// address types: put n into Device / Entity / Feature
		if f := p.Elem().FieldByName("Device"); f.IsValid() && f.Kind() == reflect.Ptr {
			d := reflect.New(f.Type().Elem())
			d.Elem().SetString(fmt.Sprint("dev", n))
			f.Set(d)
		}
		if f := p.Elem().FieldByName("Entity"); f.IsValid() && f.Kind() == reflect.Slice {
			s := reflect.MakeSlice(f.Type(), 1, 1)
			s.Index(0).SetUint(uint64(n))
			f.Set(s)
		}
		if f := p.Elem().FieldByName("Feature"); f.IsValid() && f.Kind() == reflect.Ptr {
			d := reflect.New(f.Type().Elem())
			d.Elem().SetUint(uint64(n))
			f.Set(d)
		}
	default:
		panic("harness: key kind " + ft.Kind().String())
	}
	item.Field(i).Set(p)
}

// keyN maps identifier id of the domain to the value of key field j. For multi-key items no single
// key field is unique over the domain, only the tuple is ((1,2,3),(1,12,13),(11,2,13),(11,12,3),(21,2,3)...),
// and ascending ids give lexicographically ascending tuples. The values mix one- and two-digit numbers
// whose decimal renderings run into each other ((1,12) and (11,2)), so that an identity that is not
// computed per key field shows.
func (li *ListInfo) keyN(j, id int) int {
	if len(li.Keys) > 1 {
		switch j {
		case 0:
			return 1 + 10*(id/2)
		case 1:
			return 2 + 10*(id%2)
		default:
			return 3 + 10*((id/2+id)%2)
		}
	}
	return id
}

// KeyOf renders the identifier of an item ("" , false if a key field is nil).
func (li *ListInfo) KeyOf(item reflect.Value) (string, bool) {
	var parts []string
	for _, i := range li.Keys {
		f := item.Field(i)
		if f.IsNil() {
			return "", false
		}
		parts = append(parts, Canon(f.Elem()))
	}
	return strings.Join(parts, "|"), true
}

// NewItem generates an item with identifier id (id < 0: no identifiers). The writecheck flag,
// if the type has one, is left nil; callers that care set it.
func (li *ListInfo) NewItem(r *rand.Rand, id int) reflect.Value {
	it := GenVal(r, li.ElemT, 0)
	for _, k := range li.Keys {
		it.Field(k).Set(reflect.Zero(it.Field(k).Type()))
	}
	if id >= 0 {
		for j, k := range li.Keys {
			setKey(it, k, li.keyN(j, id))
		}
	}
	return it
}

// Selector builds a selector value (pointer to the selector struct) matching identifier id.
func (li *ListInfo) Selector(id int) reflect.Value {
	s := reflect.New(li.SelT)
	for j, k := range li.Keys {
		f := s.Elem().FieldByName(li.ElemT.Field(k).Name)
		tmp := reflect.New(li.ElemT).Elem()
		setKey(tmp, k, li.keyN(j, id))
		f.Set(tmp.Field(k))
	}
	return s
}

func (li *ListInfo) Matches(it reflect.Value, id int) bool {
	tmp := reflect.New(li.ElemT).Elem()
	for j, k := range li.Keys {
		setKey(tmp, k, li.keyN(j, id))
	}
	a, _ := li.KeyOf(it)
	b, _ := li.KeyOf(tmp)
	return a == b
}

func CloneItems(in []reflect.Value) []reflect.Value {
	out := make([]reflect.Value, len(in))
	for i, v := range in {
		c := reflect.New(v.Type()).Elem()
		c.Set(v)
		out[i] = c
	}
	return out
}

// MkList wraps items into a new *XxxListDataType.
func (li *ListInfo) MkList(items []reflect.Value) any {
	p := reflect.New(li.PtrT.Elem())
	s := reflect.MakeSlice(li.PtrT.Elem().Field(li.ListIdx).Type, 0, len(items))
	for _, it := range items {
		s = reflect.Append(s, it)
	}
	if len(items) > 0 {
		p.Elem().Field(li.ListIdx).Set(s)
	}
	return p.Interface()
}

// Items returns the list elements of a *XxxListDataType held in an any (nil-safe).
func (li *ListInfo) Items(data any) []reflect.Value {
	if IsNil(data) {
		return nil
	}
	s := reflect.ValueOf(data).Elem().Field(li.ListIdx)
	var out []reflect.Value
	for i := 0; i < s.Len(); i++ {
		out = append(out, s.Index(i))
	}
	return out
}

func Multiset(items []reflect.Value) string {
	var ss []string
	for _, it := range items {
		ss = append(ss, Canon(it))
	}
	sort.Strings(ss)
	return strings.Join(ss, "\n")
}

// ---------------------------------------------------------------------------
// Updates and the reference fold (written from the statement of C02, not from model/update.go)

type Update struct {
	Kind    string          // full | partial | partial-noid | partial-sel | delete-sel | delete-elem | delete-sel-elem | del+partial
	Items   []reflect.Value // element values
	SelKey  int             // partial selector identifier, -1 none
	DelSel  int             // delete selector identifier, -1 none
	DelElem []int           // item field indices the delete filter names
	// DelMatch (kind delete-sel-multi): a delete selector naming only part of the identifier or a
	// non-identifier field, so that it may match several items; all of them are to be removed
	DelMatch []FieldMatch
	// PartialFirst: on the wire the partial filter precedes the delete filter (SPINE fixes no order of the
	// filters of one command; the meaning — delete first, then partial — must not depend on it)
	PartialFirst bool
	// NestedElem (opt-in; 0 = off, which is what GenUpdate produces): the ELEMENTS part of the delete filter
	// does not carry an empty value for a named item field whose elements type is a struct (value, timePeriod,
	// ...), it names one or two SUB elements of it ({value:{number:{}}}); which ones is a pure function of the
	// number. What such a filter means for the data is deliberately not modelled (RefApply ignores the field):
	// only checks whose oracle does not depend on the resulting data (C11) set it.
	NestedElem int
}

// FieldMatch: the item field with index Field must equal Val (a non-nil pointer of the field's type).
type FieldMatch struct {
	Field int
	Val   reflect.Value
}

// SelectableFields returns the item fields the selector type can name (same field name and type).
func (li *ListInfo) SelectableFields() []int {
	var fs []int
	if li.SelT == nil {
		return nil
	}
	for i := 0; i < li.ElemT.NumField(); i++ {
		ft := li.ElemT.Field(i)
		if ft.Type.Kind() != reflect.Ptr {
			continue
		}
		if sf, ok := li.SelT.FieldByName(ft.Name); ok && sf.Type == ft.Type {
			fs = append(fs, i)
		}
	}
	return fs
}

// GenMultiDelete draws a delete whose selector takes ONE field value from an item of cur: a part of a
// multi-key identifier or a non-identifier field. ok=false if the list type offers no such selector.
func (li *ListInfo) GenMultiDelete(r *rand.Rand, cur []reflect.Value) (Update, bool) {
	u := Update{Kind: "delete-sel-multi", SelKey: -1, DelSel: -1}
	fields := li.SelectableFields()
	if len(fields) == 0 || len(cur) == 0 {
		return u, false
	}
	it := cur[r.Intn(len(cur))]
	var cand []int
	for _, f := range fields {
		isKey := false
		for _, k := range li.Keys {
			if k == f {
				isKey = true
			}
		}
		if isKey && len(li.Keys) == 1 {
			continue // the complete identifier: that is the ordinary delete-sel shape
		}
		if !it.Field(f).IsNil() {
			cand = append(cand, f)
		}
	}
	if len(cand) == 0 {
		return u, false
	}
	f := cand[r.Intn(len(cand))]
	v := reflect.New(it.Field(f).Type().Elem())
	v.Elem().Set(it.Field(f).Elem())
	u.DelMatch = []FieldMatch{{Field: f, Val: v}}
	return u, true
}

func (li *ListInfo) multiMatch(it reflect.Value, ms []FieldMatch) bool {
	for _, m := range ms {
		f := it.Field(m.Field)
		if f.IsNil() || Canon(f.Elem()) != Canon(m.Val.Elem()) {
			return false
		}
	}
	return true
}

func overlay(dst, src reflect.Value) {
	for i := 0; i < src.NumField(); i++ {
		f := src.Field(i)
		switch f.Kind() {
		case reflect.Ptr, reflect.Slice, reflect.Map, reflect.Interface:
			if f.IsNil() {
				continue
			}
		}
		if dst.Field(i).CanSet() {
			dst.Field(i).Set(f)
		}
	}
}

// RefApply folds one update into cur.
func (li *ListInfo) RefApply(cur []reflect.Value, u Update) []reflect.Value {
	cur = CloneItems(cur)
	if u.Kind == "full" {
		return CloneItems(u.Items)
	}
	if len(u.DelMatch) > 0 {
		var out []reflect.Value
		for _, it := range cur {
			if !li.multiMatch(it, u.DelMatch) {
				out = append(out, it)
			}
		}
		return out
	}
	if u.DelSel >= 0 || len(u.DelElem) > 0 {
		var out []reflect.Value
		for _, it := range cur {
			m := u.DelSel < 0 || li.Matches(it, u.DelSel)
			if m && len(u.DelElem) == 0 {
				continue
			}
			if m {
				for _, fi := range u.DelElem {
					it.Field(fi).Set(reflect.Zero(it.Field(fi).Type()))
				}
			}
			out = append(out, it)
		}
		cur = out
	}
	if strings.HasPrefix(u.Kind, "delete") {
		return cur
	}
	if u.SelKey >= 0 {
		for _, it := range cur {
			if li.Matches(it, u.SelKey) {
				overlay(it, u.Items[0])
				break
			}
		}
		return cur
	}
	if len(u.Items) == 0 {
		return cur
	}
	if _, ok := li.KeyOf(u.Items[0]); !ok {
		for _, it := range cur {
			overlay(it, u.Items[0])
		}
		return cur
	}
	for _, n := range u.Items {
		nk, _ := li.KeyOf(n)
		found := false
		for _, it := range cur {
			if k, _ := li.KeyOf(it); k == nk {
				overlay(it, n)
				found = true
				break
			}
		}
		if !found {
			c := reflect.New(li.ElemT).Elem()
			c.Set(n)
			cur = append(cur, c)
		}
	}
	return cur
}

// Filters builds the partial and delete filter of an update (nil, nil for a full update).
// ok=false: the elements type lacks a field of the item (that combination does not exist on the wire).
func (li *ListInfo) Filters(u Update) (fp, fd *model.FilterType, ok bool) {
	if u.Kind != "full" && !strings.HasPrefix(u.Kind, "delete") {
		fp = model.NewFilterTypePartial()
	}
	if u.SelKey >= 0 {
		reflect.ValueOf(fp).Elem().Field(li.SelIdx).Set(li.Selector(u.SelKey))
	}
	if len(u.DelMatch) > 0 {
		fd = &model.FilterType{CmdControl: &model.CmdControlType{Delete: &model.ElementTagType{}}}
		sel := reflect.New(li.SelT)
		for _, m := range u.DelMatch {
			sel.Elem().FieldByName(li.ElemT.Field(m.Field).Name).Set(m.Val)
		}
		reflect.ValueOf(fd).Elem().Field(li.SelIdx).Set(sel)
		return nil, fd, true
	}
	if u.DelSel >= 0 || len(u.DelElem) > 0 {
		fd = &model.FilterType{CmdControl: &model.CmdControlType{Delete: &model.ElementTagType{}}}
		if u.DelSel >= 0 {
			reflect.ValueOf(fd).Elem().Field(li.SelIdx).Set(li.Selector(u.DelSel))
		}
		if len(u.DelElem) > 0 {
			e := reflect.New(li.ElT)
			for _, fi := range u.DelElem {
				ef := e.Elem().FieldByName(li.ElemT.Field(fi).Name)
				if !ef.IsValid() || ef.Kind() != reflect.Ptr {
					return nil, nil, false
				}
				ef.Set(reflect.New(ef.Type().Elem()))
				if u.NestedElem > 0 {
					setSubElements(ef.Elem(), u.NestedElem)
				}
			}
			reflect.ValueOf(fd).Elem().Field(li.ElIdx).Set(e)
		}
	}
	return fp, fd, true
}

// subElementFields: the pointer-typed fields of an elements struct (the sub elements it can name).
func subElementFields(t reflect.Type) (fs []int) {
	if t.Kind() != reflect.Struct {
		return nil
	}
	for i := 0; i < t.NumField(); i++ {
		if t.Field(i).Type.Kind() == reflect.Ptr && t.Field(i).IsExported() {
			fs = append(fs, i)
		}
	}
	return fs
}

// setSubElements names one or two sub elements in the elements struct e (addressable), chosen by n >= 1.
func setSubElements(e reflect.Value, n int) {
	fs := subElementFields(e.Type())
	k := len(fs)
	if k == 0 {
		return
	}
	first := (n - 1) % k
	set := func(i int) { e.Field(fs[i]).Set(reflect.New(e.Field(fs[i]).Type().Elem())) }
	set(first)
	if k > 1 && ((n-1)/k)%2 == 1 {
		set((first + 1 + ((n-1)/(2*k))%(k-1)) % k)
	}
}

// NestableElems returns the non-key item fields for which a delete filter can name sub elements
// (Update.NestedElem): the field of the elements type is a pointer to a struct with pointer fields.
func (li *ListInfo) NestableElems() (fs []int) {
	if li.ElT == nil {
		return nil
	}
	for _, fi := range li.NonKeyPtr {
		ef, ok := li.ElT.FieldByName(li.ElemT.Field(fi).Name)
		if ok && ef.Type.Kind() == reflect.Ptr && len(subElementFields(ef.Type.Elem())) > 0 {
			fs = append(fs, fi)
		}
	}
	return fs
}

// GenUpdate draws an update of the given shape over identifier domain [0,dom). ok=false if the
// shape does not exist for this list type (no selector covering the keys, no elements type, ...).
func (li *ListInfo) GenUpdate(r *rand.Rand, shape int, dom int) (u Update, ok bool) {
	u = Update{SelKey: -1, DelSel: -1}
	ids := r.Perm(dom)
	switch shape {
	case 0:
		u.Kind = "full"
		k := r.Intn(dom)
		sel := append([]int(nil), ids[:k]...)
		sort.Ints(sel)
		for _, id := range sel {
			u.Items = append(u.Items, li.NewItem(r, id))
		}
	case 1:
		u.Kind = "partial"
		k := 1 + r.Intn(dom-1)
		for _, id := range ids[:k] {
			u.Items = append(u.Items, li.NewItem(r, id))
		}
	case 2:
		u.Kind = "partial-noid"
		u.Items = []reflect.Value{li.NewItem(r, -1)}
	case 3:
		if !li.SelCoversKeys {
			return u, false
		}
		u.Kind = "partial-sel"
		u.SelKey = r.Intn(dom)
		u.Items = []reflect.Value{li.NewItem(r, -1)}
	case 4:
		if !li.SelCoversKeys {
			return u, false
		}
		u.Kind = "delete-sel"
		u.DelSel = r.Intn(dom)
	case 5:
		if li.ElT == nil || len(li.NonKeyPtr) == 0 {
			return u, false
		}
		u.Kind = "delete-elem"
		u.DelElem = []int{li.NonKeyPtr[r.Intn(len(li.NonKeyPtr))]}
	case 6:
		if li.ElT == nil || !li.SelCoversKeys || len(li.NonKeyPtr) == 0 {
			return u, false
		}
		u.Kind = "delete-sel-elem"
		u.DelSel = r.Intn(dom)
		u.DelElem = []int{li.NonKeyPtr[r.Intn(len(li.NonKeyPtr))]}
	case 7:
		if !li.SelCoversKeys {
			return u, false
		}
		u.Kind = "del+partial"
		u.DelSel = r.Intn(dom)
		k := 1 + r.Intn(2)
		for _, id := range ids[:k] {
			u.Items = append(u.Items, li.NewItem(r, id))
		}
	default:
		return u, false
	}
	if _, _, fok := li.Filters(u); !fok {
		return u, false
	}
	return u, true
}

const NumUpdateShapes = 8

// Cmd builds the command (payload + filters) for delivering an update as a datagram.
func (li *ListInfo) Cmd(u Update) model.CmdType {
	fp, fd, _ := li.Filters(u)
	c := model.CmdType{}
	c.SetDataForFunction(li.Fn, li.MkList(CloneItems(u.Items)))
	if fp != nil || fd != nil {
		c.Function = &li.Fn
		if fd != nil {
			c.Filter = append(c.Filter, *fd)
		}
		if fp != nil {
			c.Filter = append(c.Filter, *fp)
		}
		if u.PartialFirst && len(c.Filter) == 2 {
			c.Filter[0], c.Filter[1] = c.Filter[1], c.Filter[0]
		}
	}
	return c
}

func (u Update) String() string {
	s := u.Kind
	if u.SelKey >= 0 {
		s += fmt.Sprintf(" sel=%d", u.SelKey)
	}
	if u.DelSel >= 0 {
		s += fmt.Sprintf(" delsel=%d", u.DelSel)
	}
	if len(u.DelElem) > 0 {
		s += fmt.Sprintf(" delelem=%v", u.DelElem)
	}
	if u.NestedElem > 0 {
		s += fmt.Sprintf(" sub-elements(%d)", u.NestedElem)
	}
	for _, m := range u.DelMatch {
		s += fmt.Sprintf(" delmatch(field %d)=%s", m.Field, Canon(m.Val.Elem()))
	}
	if len(u.Items) > 0 {
		s += " items=" + strings.ReplaceAll(Multiset(u.Items), "\n", " ; ")
	}
	return s
}

// ---------------------------------------------------------------------------
// Function tables

var allFeatureTypes = []model.FeatureTypeType{
	model.FeatureTypeTypeActuatorLevel, model.FeatureTypeTypeActuatorSwitch, model.FeatureTypeTypeAlarm, model.FeatureTypeTypeDataTunneling,
	model.FeatureTypeTypeDeviceClassification, model.FeatureTypeTypeDeviceDiagnosis, model.FeatureTypeTypeDirectControl, model.FeatureTypeTypeElectricalConnection,
	model.FeatureTypeTypeGeneric, model.FeatureTypeTypeHvac, model.FeatureTypeTypeLoadControl, model.FeatureTypeTypeMeasurement, model.FeatureTypeTypeMessaging,
	model.FeatureTypeTypeNetworkManagement, model.FeatureTypeTypeNodeManagement, model.FeatureTypeTypeOperatingConstraints, model.FeatureTypeTypePowerSequences,
	model.FeatureTypeTypeSensing, model.FeatureTypeTypeSetpoint, model.FeatureTypeTypeSmartEnergyManagementPs, model.FeatureTypeTypeTaskManagement,
	model.FeatureTypeTypeThreshold, model.FeatureTypeTypeTimeInformation, model.FeatureTypeTypeTimeTable, model.FeatureTypeTypeDeviceConfiguration,
	model.FeatureTypeTypeSupplyCondition, model.FeatureTypeTypeTimeSeries, model.FeatureTypeTypeTariffInformation, model.FeatureTypeTypeIncentiveTable,
	model.FeatureTypeTypeBill, model.FeatureTypeTypeIdentification, model.FeatureTypeTypeStateInformation,
}

// FeatureTypes lists every feature type of the data model.
func FeatureTypes() []model.FeatureTypeType { return allFeatureTypes }

type FnInfo struct {
	Fn model.FunctionType
	T  reflect.Type // payload struct type
}

// FunctionsOf returns the functions the stack registers for a feature type, sorted by name.
func FunctionsOf(ft model.FeatureTypeType) []FnInfo {
	var res []FnInfo
	for _, fd := range spine.CreateFunctionData[api.FunctionDataCmdInterface](ft) {
		res = append(res, FnInfo{fd.FunctionType(), reflect.TypeOf(fd.DataCopyAny()).Elem()})
	}
	sort.Slice(res, func(i, j int) bool { return res[i].Fn < res[j].Fn })
	return res
}

// CmdFields returns every function named by a payload field of model.CmdType with its payload type.
func CmdFields() []FnInfo {
	var res []FnInfo
	ct := reflect.TypeOf(model.CmdType{})
	for i := 0; i < ct.NumField(); i++ {
		f := ct.Field(i)
		if fct, ok := model.EEBusTags(f)[model.EEBusTagFunction]; ok && f.Type.Kind() == reflect.Ptr {
			res = append(res, FnInfo{model.FunctionType(fct), f.Type.Elem()})
		}
	}
	sort.Slice(res, func(i, j int) bool { return res[i].Fn < res[j].Fn })
	return res
}

// CmdFor builds a command carrying payload (a pointer to the function's payload struct).
func CmdFor(fn model.FunctionType, payload any) model.CmdType {
	c := model.CmdType{}
	c.SetDataForFunction(fn, payload)
	return c
}
