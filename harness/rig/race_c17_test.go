package rig

import (
	"os"
	"path/filepath"
	"strings"
	"testing"
)

// The report in testdata/c17race was produced by the C17 duel matrix against a scratch copy of spine-go in
// which the mutex of Feature.operations had been removed (fix d9858b6 reverted); testdata/c17race/spine holds
// the two source files of that copy the report points into. The innermost frames of the second side are
// runtime map functions, so the signature has to come from the innermost frame *inside* spine-go.
func TestParseRaceReportsOnRealReport(t *testing.T) {
	root := t.TempDir()
	if err := os.MkdirAll(filepath.Join(root, "spine"), 0o755); err != nil {
		t.Fatal(err)
	}
	for _, f := range []string{"feature.go", "feature_local.go"} {
		b, err := os.ReadFile(filepath.Join("testdata", "c17race", "spine", f+".txt"))
		if err != nil {
			t.Fatal(err)
		}
		if err := os.WriteFile(filepath.Join(root, "spine", f), b, 0o644); err != nil {
			t.Fatal(err)
		}
	}
	b, err := os.ReadFile(filepath.Join("testdata", "c17race", "report.txt"))
	if err != nil {
		t.Fatal(err)
	}
	text := strings.ReplaceAll(string(b), "@ROOT@", root)
	reps := ParseRaceReports(text, root)
	if len(reps) != 2 {
		t.Fatalf("want 2 reports, got %d", len(reps))
	}
	r := reps[0]
	if r.Case != 32 {
		t.Errorf("report attributed to case %d, want 32 (the @@CASE marker before it)", r.Case)
	}
	if r.Harness {
		t.Errorf("report wrongly classified as harness race")
	}
	if r.Sides[0] != "Feature.operations" || r.Sides[1] != "FeatureLocal.operations" {
		t.Errorf("sides = %q, want Feature.operations and FeatureLocal.operations", r.Sides)
	}
	if r.Sig != "Feature.operations|FeatureLocal.operations" {
		t.Errorf("signature = %q", r.Sig)
	}
	if strings.ContainsAny(reps[1].Sig, " \t") {
		t.Errorf("signature %q contains white space (known_findings.txt is split on it)", reps[1].Sig)
	}
	// with a wrong root nothing is inside spine-go: such a report must be flagged as a harness race, never dropped
	if other := ParseRaceReports(text, "/nonexistent"); len(other) != 2 || !other[0].Harness {
		t.Errorf("reports outside the repo root must be kept and flagged: %+v", other)
	}
}
