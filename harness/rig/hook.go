package rig

import (
	"bytes"
	"math/rand"
	"runtime"
	"strconv"
	"sync"
	"time"

	"github.com/enbility/spine-go/spine"
)

// Hooks is the controller installed behind spine.SetVerifHook. Per point it offers
//   - rendezvous: the first k arrivals wait for each other (bounded; expiry = "window not forced")
//   - gate:       arrivals block until the harness releases them (bounded)
//   - jitter:     Gosched / short sleep drawn from a PRNG
//   - callbacks:  arbitrary observers (used for stream gauges, period records)
//
// Every arrival is recorded as (role, point); roles are registered per goroutine by the harness.
type Hooks struct {
	mu      sync.Mutex
	rv      map[string]*rendezvous
	gates   map[string]*gate
	jit     map[string]*jitter
	obs     map[string][]func(obj any)
	hits    map[string]int
	roles   map[int64]string
	trace   []string
	maxWait time.Duration
}

type rendezvous struct {
	k       int
	arrived int
	ch      chan struct{}
	forced  int
	expired int
}
type gate struct {
	ch      chan struct{}
	waiting int
	expired int
	passed  int
}
type jitter struct {
	r   *rand.Rand
	max time.Duration
}

func InstallHooks() *Hooks {
	h := &Hooks{rv: map[string]*rendezvous{}, gates: map[string]*gate{}, jit: map[string]*jitter{}, obs: map[string][]func(any){},
		hits: map[string]int{}, roles: map[int64]string{}, maxWait: 2 * time.Second}
	spine.SetVerifHook(h.dispatch)
	return h
}

func (h *Hooks) Uninstall() { spine.SetVerifHook(nil); h.ReleaseAll() }

func (h *Hooks) SetMaxWait(d time.Duration) { h.mu.Lock(); h.maxWait = d; h.mu.Unlock() }

func goid() int64 {
	var buf [64]byte
	b := buf[:runtime.Stack(buf[:], false)]
	b = bytes.TrimPrefix(b, []byte("goroutine "))
	if i := bytes.IndexByte(b, ' '); i > 0 {
		n, _ := strconv.ParseInt(string(b[:i]), 10, 64)
		return n
	}
	return 0
}

// Role names the calling goroutine in the trace.
func (h *Hooks) Role(name string) { id := goid(); h.mu.Lock(); h.roles[id] = name; h.mu.Unlock() }

func (h *Hooks) Rendezvous(point string, k int) {
	h.mu.Lock()
	h.rv[point] = &rendezvous{k: k, ch: make(chan struct{})}
	h.mu.Unlock()
}

// Gate makes every arrival at point block until release is called.
func (h *Hooks) Gate(point string) (release func()) {
	g := &gate{ch: make(chan struct{})}
	h.mu.Lock()
	h.gates[point] = g
	h.mu.Unlock()
	var once sync.Once
	return func() { once.Do(func() { close(g.ch) }) }
}

func (h *Hooks) Jitter(point string, seed int64, max time.Duration) {
	h.mu.Lock()
	h.jit[point] = &jitter{r: rand.New(rand.NewSource(seed)), max: max}
	h.mu.Unlock()
}

func (h *Hooks) On(point string, f func(obj any)) {
	h.mu.Lock()
	h.obs[point] = append(h.obs[point], f)
	h.mu.Unlock()
}

func (h *Hooks) ReleaseAll() {
	h.mu.Lock()
	defer h.mu.Unlock()
	for _, g := range h.gates {
		select {
		case <-g.ch:
		default:
			close(g.ch)
		}
	}
	for _, r := range h.rv {
		select {
		case <-r.ch:
		default:
			close(r.ch)
		}
	}
}

func (h *Hooks) dispatch(point string, obj any) {
	id := goid()
	h.mu.Lock()
	h.hits[point]++
	role := h.roles[id]
	if role == "" {
		role = "?"
	}
	if len(h.trace) < 4000 {
		h.trace = append(h.trace, role+"@"+point)
	}
	obs := h.obs[point]
	r := h.rv[point]
	g := h.gates[point]
	j := h.jit[point]
	maxWait := h.maxWait
	var wait chan struct{}
	if r != nil {
		select {
		case <-r.ch: // already completed or expired
		default:
			r.arrived++
			if r.arrived >= r.k {
				r.forced++
				close(r.ch)
			} else {
				wait = r.ch
			}
		}
	}
	var sleep time.Duration
	if j != nil && j.max > 0 {
		switch j.r.Intn(3) {
		case 0:
		case 1:
			sleep = -1 // Gosched
		default:
			sleep = time.Duration(j.r.Int63n(int64(j.max)))
		}
	}
	if g != nil {
		g.waiting++
	}
	h.mu.Unlock()

	for _, f := range obs {
		f(obj)
	}
	if wait != nil {
		select {
		case <-wait:
		case <-time.After(maxWait):
			h.mu.Lock()
			r.expired++
			select {
			case <-r.ch:
			default:
				close(r.ch) // give up: nobody else will be held here
			}
			h.mu.Unlock()
		}
	}
	if g != nil {
		select {
		case <-g.ch:
			h.mu.Lock()
			g.passed++
			h.mu.Unlock()
		case <-time.After(maxWait * 5):
			h.mu.Lock()
			g.expired++
			h.mu.Unlock()
		}
	}
	if sleep < 0 {
		runtime.Gosched()
	} else if sleep > 0 {
		time.Sleep(sleep)
	}
}

func (h *Hooks) Hits(point string) int { h.mu.Lock(); defer h.mu.Unlock(); return h.hits[point] }

// Forced reports whether the rendezvous at point completed with all k parties present.
func (h *Hooks) Forced(point string) bool {
	h.mu.Lock()
	defer h.mu.Unlock()
	r := h.rv[point]
	return r != nil && r.forced > 0
}

// GateWaiting returns how many goroutines have arrived at the gate of point so far.
func (h *Hooks) GateWaiting(point string) int {
	h.mu.Lock()
	defer h.mu.Unlock()
	if g := h.gates[point]; g != nil {
		return g.waiting
	}
	return 0
}

func (h *Hooks) GateExpired(point string) int {
	h.mu.Lock()
	defer h.mu.Unlock()
	if g := h.gates[point]; g != nil {
		return g.expired
	}
	return 0
}

// Trace returns the recorded (role@point) sequence; its hash identifies a distinct hook ordering.
func (h *Hooks) Trace() []string {
	h.mu.Lock()
	defer h.mu.Unlock()
	return append([]string(nil), h.trace...)
}
