package rig

import (
	"encoding/json"
	"fmt"
	"reflect"
	"runtime"
	"strings"
	"sync"
	"sync/atomic"
	"time"

	"github.com/enbility/spine-go/api"
	"github.com/enbility/spine-go/model"
	"github.com/enbility/spine-go/spine"
	"github.com/enbility/spine-go/util"
)

// one logical clock for everything an oracle orders
var seq int64

func Seq() int64 { return atomic.AddInt64(&seq, 1) }

const LocalAddr = "HEMS"

// ---------------------------------------------------------------------------
// Tap: the ShipConnectionDataWriterInterface of one simulated connection.
// It decodes and records; it never calls back into the stack.

type Out struct {
	Seq int64
	D   model.DatagramType
}

type Tap struct {
	mu     sync.Mutex
	msgs   []Out
	total  int
	Broken []string // payloads that did not decode (must stay empty)
}

func (w *Tap) WriteShipMessageWithPayload(m []byte) {
	var d model.Datagram
	err := json.Unmarshal(m, &d)
	w.mu.Lock()
	defer w.mu.Unlock()
	if err != nil {
		w.Broken = append(w.Broken, string(m))
		return
	}
	w.total++
	w.msgs = append(w.msgs, Out{Seq(), d.Datagram})
}

// Take returns and clears what was written since the last Take.
func (w *Tap) Take() []model.DatagramType {
	w.mu.Lock()
	defer w.mu.Unlock()
	r := make([]model.DatagramType, len(w.msgs))
	for i, o := range w.msgs {
		r[i] = o.D
	}
	w.msgs = nil
	return r
}
func (w *Tap) TakeOut() []Out { w.mu.Lock(); defer w.mu.Unlock(); r := w.msgs; w.msgs = nil; return r }
func (w *Tap) Peek() []model.DatagramType {
	w.mu.Lock()
	defer w.mu.Unlock()
	r := make([]model.DatagramType, len(w.msgs))
	for i, o := range w.msgs {
		r[i] = o.D
	}
	return r
}
func (w *Tap) Len() int   { w.mu.Lock(); defer w.mu.Unlock(); return len(w.msgs) }
func (w *Tap) Total() int { w.mu.Lock(); defer w.mu.Unlock(); return w.total }

// ---------------------------------------------------------------------------
// Addresses and announced trees

func FA(dev string, ent []uint, f uint) *model.FeatureAddressType {
	a := &model.FeatureAddressType{Entity: spine.NewAddressEntityType(ent), Feature: util.Ptr(model.AddressFeatureType(f))}
	if dev != "" {
		a.Device = util.Ptr(model.AddressDeviceType(dev))
	}
	return a
}

func EA(dev string, ent []uint) *model.EntityAddressType {
	a := &model.EntityAddressType{Entity: spine.NewAddressEntityType(ent)}
	if dev != "" {
		a.Device = util.Ptr(model.AddressDeviceType(dev))
	}
	return a
}

// FS describes one announced remote feature.
type FS struct {
	Ent  []uint
	Id   uint
	Typ  model.FeatureTypeType
	Role model.RoleType
	Fns  []model.FunctionPropertyType
	Desc string
}

var NMFS = FS{Ent: []uint{0}, Id: 0, Typ: model.FeatureTypeTypeNodeManagement, Role: model.RoleTypeSpecial}

func FnProp(fn model.FunctionType, read, write bool) model.FunctionPropertyType {
	p := model.FunctionPropertyType{Function: util.Ptr(fn), PossibleOperations: &model.PossibleOperationsType{}}
	if read {
		p.PossibleOperations.Read = &model.PossibleOperationsReadType{}
	}
	if write {
		p.PossibleOperations.Write = &model.PossibleOperationsWriteType{}
	}
	return p
}

// ---------------------------------------------------------------------------
// Peer: one simulated remote device. It talks to the stack only by handing marshalled
// datagrams to HandleSpineMesssage and sees it only through its Tap.

type Peer struct {
	Ski, Addr string
	Tap       *Tap
	RD        api.DeviceRemoteInterface
	Ctr       uint64
	W         *World
	// AckFalse makes Send write an explicit "ackRequest": false where it would otherwise omit the element.
	AckFalse bool

	pmu    sync.Mutex
	Panics []string // recovered panics of HandleSpineMesssage (with stack)
}

func (p *Peer) NextCounter() model.MsgCounterType {
	return model.MsgCounterType(atomic.AddUint64(&p.Ctr, 1))
}

// Raw delivers bytes; a panic is recorded (with its innermost spine-go frame) and returned.
func (p *Peer) Raw(b []byte) (rec string) {
	defer func() {
		if r := recover(); r != nil {
			buf := make([]byte, 8<<10)
			buf = buf[:runtime.Stack(buf, false)]
			rec = fmt.Sprintf("%v @ %s", r, InnermostSpineFrame(string(buf)))
			p.pmu.Lock()
			p.Panics = append(p.Panics, rec+"\n"+string(buf))
			p.pmu.Unlock()
		}
	}()
	_, _ = p.RD.HandleSpineMesssage(b)
	return ""
}

func (p *Peer) PanicCount() int { p.pmu.Lock(); defer p.pmu.Unlock(); return len(p.Panics) }

func Datagram(cl model.CmdClassifierType, src, dst *model.FeatureAddressType, mc model.MsgCounterType, ack bool, ref *model.MsgCounterType, cmd model.CmdType) model.Datagram {
	h := model.HeaderType{SpecificationVersion: util.Ptr(model.SpecificationVersionType("1.3.0")), AddressSource: src, AddressDestination: dst,
		MsgCounter: &mc, MsgCounterReference: ref, CmdClassifier: &cl}
	if ack {
		h.AckRequest = util.Ptr(true)
	}
	return model.Datagram{Datagram: model.DatagramType{Header: h, Payload: model.PayloadType{Cmd: []model.CmdType{cmd}}}}
}

// Send builds, marshals and delivers one datagram; returns its message counter.
func (p *Peer) Send(cl model.CmdClassifierType, src, dst *model.FeatureAddressType, ack bool, ref *model.MsgCounterType, cmd model.CmdType) model.MsgCounterType {
	mc := p.NextCounter()
	d := Datagram(cl, src, dst, mc, ack, ref, cmd)
	if !ack && p.AckFalse {
		d.Datagram.Header.AckRequest = util.Ptr(false)
	}
	b, err := json.Marshal(d)
	if err != nil {
		panic("harness: cannot marshal datagram: " + err.Error())
	}
	p.Raw(b)
	return mc
}

func (p *Peer) NM() *model.FeatureAddressType { return FA(p.Addr, []uint{0}, 0) }

var LNM = FA(LocalAddr, []uint{0}, 0)

// Discovery builds detailed discovery data for the given features; states marks entities
// ("[1 1]" -> added/removed/modified), removed lists entity addresses announced as removed.
func (p *Peer) Discovery(feats []FS, states map[string]model.NetworkManagementStateChangeType, removed [][]uint) *model.NodeManagementDetailedDiscoveryDataType {
	d := &model.NodeManagementDetailedDiscoveryDataType{
		SpecificationVersionList: &model.NodeManagementSpecificationVersionListType{SpecificationVersion: []model.SpecificationVersionDataType{"1.3.0"}},
		DeviceInformation: &model.NodeManagementDetailedDiscoveryDeviceInformationType{Description: &model.NetworkManagementDeviceDescriptionDataType{
			DeviceAddress: &model.DeviceAddressType{Device: util.Ptr(model.AddressDeviceType(p.Addr))},
			DeviceType:    util.Ptr(model.DeviceTypeTypeChargingStation),
		}}}
	seen := map[string]bool{}
	for _, f := range feats {
		k := fmt.Sprint(f.Ent)
		if !seen[k] {
			seen[k] = true
			et := EntityTypeFor(f.Ent)
			desc := &model.NetworkManagementEntityDescriptionDataType{EntityAddress: EA(p.Addr, f.Ent), EntityType: &et,
				Description: util.Ptr(model.DescriptionType("entity " + k))}
			if st, ok := states[k]; ok {
				s := st
				desc.LastStateChange = &s
			}
			d.EntityInformation = append(d.EntityInformation, model.NodeManagementDetailedDiscoveryEntityInformationType{Description: desc})
		}
		ft, r := f.Typ, f.Role
		fd := &model.NetworkManagementFeatureDescriptionDataType{FeatureAddress: FA(p.Addr, f.Ent, f.Id), FeatureType: &ft, Role: &r, SupportedFunction: f.Fns}
		if f.Desc != "" {
			fd.Description = util.Ptr(model.DescriptionType(f.Desc))
		}
		d.FeatureInformation = append(d.FeatureInformation, model.NodeManagementDetailedDiscoveryFeatureInformationType{Description: fd})
	}
	for _, e := range removed {
		rem := model.NetworkManagementStateChangeTypeRemoved
		d.EntityInformation = append(d.EntityInformation, model.NodeManagementDetailedDiscoveryEntityInformationType{
			Description: &model.NetworkManagementEntityDescriptionDataType{EntityAddress: EA(p.Addr, e), LastStateChange: &rem}})
	}
	return d
}

func EntityTypeFor(ent []uint) model.EntityTypeType {
	switch {
	case len(ent) > 0 && ent[0] == 0:
		return model.EntityTypeTypeDeviceInformation
	case len(ent) > 1:
		return model.EntityTypeTypeEV
	default:
		return model.EntityTypeTypeEVSE
	}
}

// Announce sends a detailed discovery reply describing feats (NodeManagement must be included by the caller).
func (p *Peer) Announce(feats []FS) model.MsgCounterType {
	return p.Send(model.CmdClassifierTypeReply, p.NM(), LNM, false, util.Ptr(model.MsgCounterType(1)), model.CmdType{NodeManagementDetailedDiscoveryData: p.Discovery(feats, nil, nil)})
}

// NotifyDiscovery sends a partial (or full) discovery notification.
func (p *Peer) NotifyDiscovery(partial bool, d *model.NodeManagementDetailedDiscoveryDataType) model.MsgCounterType {
	cmd := model.CmdType{NodeManagementDetailedDiscoveryData: d}
	if partial {
		cmd.Function = util.Ptr(model.FunctionTypeNodeManagementDetailedDiscoveryData)
		cmd.Filter = []model.FilterType{*model.NewFilterTypePartial()}
	}
	return p.Send(model.CmdClassifierTypeNotify, p.NM(), LNM, false, nil, cmd)
}

func (p *Peer) Bind(client, server *model.FeatureAddressType, t model.FeatureTypeType) model.MsgCounterType {
	return p.Send(model.CmdClassifierTypeCall, p.NM(), LNM, true, nil, model.CmdType{NodeManagementBindingRequestCall: spine.NewNodeManagementBindingRequestCallType(client, server, t)})
}
func (p *Peer) Unbind(client, server *model.FeatureAddressType) model.MsgCounterType {
	return p.Send(model.CmdClassifierTypeCall, p.NM(), LNM, true, nil, model.CmdType{NodeManagementBindingDeleteCall: spine.NewNodeManagementBindingDeleteCallType(client, server)})
}
func (p *Peer) Subscribe(client, server *model.FeatureAddressType, t model.FeatureTypeType) model.MsgCounterType {
	return p.Send(model.CmdClassifierTypeCall, p.NM(), LNM, true, nil, model.CmdType{NodeManagementSubscriptionRequestCall: spine.NewNodeManagementSubscriptionRequestCallType(client, server, t)})
}
func (p *Peer) Unsubscribe(client, server *model.FeatureAddressType) model.MsgCounterType {
	return p.Send(model.CmdClassifierTypeCall, p.NM(), LNM, true, nil, model.CmdType{NodeManagementSubscriptionDeleteCall: spine.NewNodeManagementSubscriptionDeleteCallType(client, server)})
}

// ---------------------------------------------------------------------------
// Responses on a tap

type Resp struct {
	Replies, Success, Errors, OtherRef int
	All                                []model.DatagramType // datagrams referencing the counter
	Unref                              []model.DatagramType // datagrams without that reference
}

func (r Resp) String() string {
	return fmt.Sprintf("reply=%d ok=%d err=%d", r.Replies, r.Success, r.Errors)
}

// Classify sorts the datagrams of a tap by their relation to request counter mc.
func Classify(outs []model.DatagramType, mc model.MsgCounterType) Resp {
	var r Resp
	for _, d := range outs {
		if d.Header.MsgCounterReference == nil || *d.Header.MsgCounterReference != mc {
			r.Unref = append(r.Unref, d)
			continue
		}
		r.All = append(r.All, d)
		cl := model.CmdClassifierType("")
		if d.Header.CmdClassifier != nil {
			cl = *d.Header.CmdClassifier
		}
		switch cl {
		case model.CmdClassifierTypeReply:
			r.Replies++
		case model.CmdClassifierTypeResult:
			if len(d.Payload.Cmd) == 1 && d.Payload.Cmd[0].ResultData != nil && d.Payload.Cmd[0].ResultData.ErrorNumber != nil && *d.Payload.Cmd[0].ResultData.ErrorNumber == 0 {
				r.Success++
			} else {
				r.Errors++
			}
		default:
			r.OtherRef++
		}
	}
	return r
}

// ---------------------------------------------------------------------------
// Event sink

type Ev struct {
	Seq int64
	P   api.EventPayload
}

func (e Ev) String() string {
	s := fmt.Sprintf("%s/%s ski=%s", evName(e.P.EventType), chName(e.P.ChangeType), e.P.Ski)
	if e.P.Entity != nil && e.P.Entity.Address() != nil {
		s += fmt.Sprintf(" ent=%v", e.P.Entity.Address().Entity)
	}
	if e.P.Feature != nil && e.P.Feature.Address() != nil {
		s += " feat=" + e.P.Feature.Address().String()
	}
	if e.P.LocalFeature != nil && e.P.LocalFeature.Address() != nil {
		s += " local=" + e.P.LocalFeature.Address().String()
	}
	if e.P.Function != "" {
		s += " fn=" + string(e.P.Function)
	}
	return s
}

func evName(t api.EventType) string {
	switch t {
	case api.EventTypeDeviceChange:
		return "Device"
	case api.EventTypeEntityChange:
		return "Entity"
	case api.EventTypeSubscriptionChange:
		return "Subscription"
	case api.EventTypeBindingChange:
		return "Binding"
	case api.EventTypeDataChange:
		return "Data"
	}
	return fmt.Sprint("type", int(t))
}
func chName(t api.ElementChangeType) string {
	switch t {
	case api.ElementChangeAdd:
		return "add"
	case api.ElementChangeUpdate:
		return "update"
	case api.ElementChangeRemove:
		return "remove"
	}
	return fmt.Sprint("change", int(t))
}

type Sink struct {
	mu     sync.Mutex
	prefix string
	evs    []Ev
}

func (s *Sink) HandleEvent(p api.EventPayload) {
	if s.prefix != "" && p.Ski != "" && !strings.HasPrefix(p.Ski, s.prefix) {
		return
	}
	s.mu.Lock()
	s.evs = append(s.evs, Ev{Seq(), p})
	s.mu.Unlock()
}
func (s *Sink) Take() []Ev { s.mu.Lock(); defer s.mu.Unlock(); r := s.evs; s.evs = nil; return r }
func (s *Sink) Len() int   { s.mu.Lock(); defer s.mu.Unlock(); return len(s.evs) }

// Count returns how many of evs have the given type and change.
func CountEv(evs []Ev, t api.EventType, ch api.ElementChangeType) int {
	n := 0
	for _, e := range evs {
		if e.P.EventType == t && e.P.ChangeType == ch {
			n++
		}
	}
	return n
}

// ---------------------------------------------------------------------------
// World

type World struct {
	Tag   string
	Local *spine.DeviceLocal
	Peers []*Peer
	Core  *Sink // core level: sees every published event synchronously, in publication order
	App   *Sink // application level: asynchronous delivery (nil unless requested)
	ents  []*spine.EntityLocal
}

// NewWorld creates a local device. The core-level sink is subscribed through the verif hook API so
// that "an event was published" is observed synchronously and without sleeping.
func NewWorld(tag string) *World {
	w := &World{Tag: tag}
	w.Local = spine.NewDeviceLocal("Brand", "Model", "Serial", "Code", LocalAddr, model.DeviceTypeTypeEnergyManagementSystem, model.NetworkManagementFeatureSetTypeSmart)
	w.Core = &Sink{prefix: tag}
	_ = spine.VerifSubscribeCore(w.Core)
	return w
}

func (w *World) WithAppSink() *World {
	w.App = &Sink{prefix: w.Tag}
	_ = spine.Events.Subscribe(w.App)
	return w
}

// AddEntity creates and adds a local entity.
func (w *World) AddEntity(t model.EntityTypeType, addr []uint, hb time.Duration) *spine.EntityLocal {
	e := spine.NewEntityLocal(w.Local, t, spine.NewAddressEntityType(addr), hb)
	w.Local.AddEntity(e)
	w.ents = append(w.ents, e)
	return e
}

// AddPeer connects simulated peer number i (SKI is unique per world, device address is "dev<i>").
func (w *World) AddPeer(i int) *Peer {
	p := &Peer{Ski: fmt.Sprintf("%s-ski%d", w.Tag, i), Addr: fmt.Sprintf("dev%d", i), Tap: &Tap{}, W: w}
	w.Local.SetupRemoteDevice(p.Ski, p.Tap)
	p.RD = w.Local.RemoteDeviceForSki(p.Ski)
	w.Peers = append(w.Peers, p)
	return p
}

// Reconnect drops and re-establishes the connection of p (new DeviceRemote, new Tap).
func (w *World) Reconnect(p *Peer) {
	w.Local.RemoveRemoteDeviceConnection(p.Ski)
	p.Tap = &Tap{}
	w.Local.SetupRemoteDevice(p.Ski, p.Tap)
	p.RD = w.Local.RemoteDeviceForSki(p.Ski)
}

func (w *World) Close() {
	for _, e := range w.Local.Entities() {
		if hm := e.HeartbeatManager(); hm != nil {
			hm.StopHeartbeat()
		}
	}
	for _, p := range w.Peers {
		w.Local.RemoveRemoteDeviceConnection(p.Ski)
	}
	_ = spine.VerifUnsubscribeCore(w.Core)
	if w.App != nil {
		_ = spine.Events.Unsubscribe(w.App)
	}
	spine.SetVerifHook(nil)
}

// ---------------------------------------------------------------------------
// small helpers

// IsNil: DataCopy returns a typed nil inside an `any`, so "no data" needs reflection.
func IsNil(v any) bool {
	if v == nil {
		return true
	}
	rv := reflect.ValueOf(v)
	switch rv.Kind() {
	case reflect.Ptr, reflect.Slice, reflect.Map, reflect.Interface, reflect.Func, reflect.Chan:
		return rv.IsNil()
	}
	return false
}

func JS(v any) string { b, _ := json.Marshal(v); return string(b) }

// WaitQuiet waits (bounded) until the goroutine count is back at baseline, i.e. every goroutine the
// stack spawned for callbacks and application handlers has finished. Returns false on timeout.
func WaitQuiet(baseline int, max time.Duration) bool {
	deadline := time.Now().Add(max)
	stable := 0
	for time.Now().Before(deadline) {
		if runtime.NumGoroutine() <= baseline {
			stable++
			if stable >= 3 {
				return true
			}
		} else {
			stable = 0
		}
		runtime.Gosched()
		time.Sleep(200 * time.Microsecond)
	}
	return false
}

// WaitFor polls cond (bounded); false means the watchdog expired (inconclusive, never a verdict).
func WaitFor(max time.Duration, cond func() bool) bool {
	deadline := time.Now().Add(max)
	for {
		if cond() {
			return true
		}
		if time.Now().After(deadline) {
			return false
		}
		time.Sleep(500 * time.Microsecond)
	}
}

// Guard runs f under a wall-clock watchdog; false means f did not return in time (the goroutine is
// left behind; the process-level progress monitor decides whether that is a hang).
func Guard(max time.Duration, f func()) (ok bool, panicked string) {
	done := make(chan string, 1)
	go func() {
		defer func() {
			if r := recover(); r != nil {
				buf := make([]byte, 8<<10)
				buf = buf[:runtime.Stack(buf, false)]
				done <- fmt.Sprintf("%v @ %s\n%s", r, InnermostSpineFrame(string(buf)), buf)
				return
			}
			done <- ""
		}()
		f()
	}()
	select {
	case p := <-done:
		return true, p
	case <-time.After(max):
		return false, ""
	}
}
