// Package rig holds the machinery shared by all property checks: the case/worker
// framework (this file), the simulated world around one spine-go local device
// (world.go), the hook controller (hook.go), reflective generators (gen.go) and
// the race report parser (race.go).
package rig

import (
	"bufio"
	"encoding/json"
	"fmt"
	"hash/fnv"
	"math/rand"
	"os"
	"os/exec"
	"path/filepath"
	"regexp"
	"runtime"
	"sort"
	"strconv"
	"strings"
	"sync"
	"syscall"
	"time"
)

// ---------------------------------------------------------------------------
// Types shared by checks

type Tier string

const (
	Quick    Tier = "quick"
	Thorough Tier = "thorough"
)

// Violation is one oracle failure. Sig identifies the shape of the failing input
// or history plus the kind of deviation (never just the property id); it is what
// known_findings.txt is matched against.
type Violation struct {
	Sig    string `json:"sig"`
	Detail string `json:"detail"`
}

// CaseResult is what a worker reports for one case.
type CaseResult struct {
	Part    string              `json:"part"`
	Case    int                 `json:"case"`
	Shape   string              `json:"shape"`             // signature of the case's operation shapes (distinct counting)
	NonTriv bool                `json:"nontrivial"`        // non-trivial by the check's stated rule
	Viol    []Violation         `json:"viol,omitempty"`    // oracle failures
	Inconcl []string            `json:"inconcl,omitempty"` // things this case could not decide
	Counts  map[string]int64    `json:"counts,omitempty"`  // summed into the evidence
	Sets    map[string][]string `json:"sets,omitempty"`    // unioned into the evidence (distinct things observed)
	Sample  any                 `json:"sample,omitempty"`  // a readable rendering of the case (kept for a few cases)
	Witness any                 `json:"witness,omitempty"` // full history, only when Viol is not empty
	Events  int64               `json:"events,omitempty"`  // observed events (datagrams, callbacks, api returns) this case judged
}

// Ctx is handed to a case.
type Ctx struct {
	Prop  string
	Part  string
	Tier  Tier
	Seed  int64
	Index int
	Rand  *rand.Rand
	Race  bool // running in the race-instrumented binary
	res   *CaseResult
	mu    sync.Mutex
	prog  func()
}

// Progress tells the parent's watchdog that operations are still completing (long cases call it
// every few hundred operations; it is rate-limited).
func (c *Ctx) Progress() {
	if c.prog != nil {
		c.prog()
	}
}

func (c *Ctx) Violate(sig, format string, a ...any) {
	c.mu.Lock()
	defer c.mu.Unlock()
	d := fmt.Sprintf(format, a...)
	if len(d) > 4000 {
		d = d[:4000] + "…"
	}
	// keep at most 3 details per signature per case
	n := 0
	for _, v := range c.res.Viol {
		if v.Sig == sig {
			n++
		}
	}
	if n < 3 {
		c.res.Viol = append(c.res.Viol, Violation{Sig: sig, Detail: d})
	}
}
func (c *Ctx) Failed() bool { c.mu.Lock(); defer c.mu.Unlock(); return len(c.res.Viol) > 0 }
func (c *Ctx) Inconclusive(format string, a ...any) {
	c.mu.Lock()
	defer c.mu.Unlock()
	c.res.Inconcl = append(c.res.Inconcl, fmt.Sprintf(format, a...))
}
func (c *Ctx) Count(key string, n int64) {
	c.mu.Lock()
	defer c.mu.Unlock()
	if c.res.Counts == nil {
		c.res.Counts = map[string]int64{}
	}
	c.res.Counts[key] += n
}
func (c *Ctx) Seen(set, item string) {
	c.mu.Lock()
	defer c.mu.Unlock()
	if c.res.Sets == nil {
		c.res.Sets = map[string][]string{}
	}
	for _, x := range c.res.Sets[set] {
		if x == item {
			return
		}
	}
	if len(c.res.Sets[set]) < 400 {
		c.res.Sets[set] = append(c.res.Sets[set], item)
	}
}
func (c *Ctx) Events(n int64)    { c.mu.Lock(); c.res.Events += n; c.mu.Unlock() }
func (c *Ctx) Shape(s string)    { c.mu.Lock(); c.res.Shape = s; c.mu.Unlock() }
func (c *Ctx) NonTrivial(b bool) { c.mu.Lock(); c.res.NonTriv = b; c.mu.Unlock() }
func (c *Ctx) Sample(v any)      { c.mu.Lock(); c.res.Sample = v; c.mu.Unlock() }
func (c *Ctx) Witness(v any)     { c.mu.Lock(); c.res.Witness = v; c.mu.Unlock() }
func (c *Ctx) Tag() string       { return fmt.Sprintf("%s%s-%d-%d", c.Prop, c.Part, c.Seed, c.Index) }
func (c *Ctx) Thorough() bool    { return c.Tier == Thorough }
func (c *Ctx) Pick(q, t int) int {
	if c.Tier == Thorough {
		return t
	}
	return q
}

// Part is one workload of a check.
type Part struct {
	Name    string
	Race    bool             // run in the race-instrumented binary
	Cases   func(t Tier) int // fixed-length case list
	Run     func(c *Ctx)     // one case
	Workers int              // max worker processes (0 = number of CPUs)
	Quiet   time.Duration    // no journal progress for this long => hang handling (0 = 60s)
	Procs   int              // GOMAXPROCS per worker (0 = 4)
	Chunk   int              // cases per worker process invocation (0 = auto)
}

// Check is the set of workloads and the evidence text of one property.
type Check struct {
	ID          string
	Parts       []Part
	Rule        string // how cases are generated and what makes one non-trivial/distinct
	Assumptions []string
	Floor       int                                      // minimum number of distinct non-trivial cases for a conclusive run
	Extra       func(agg *Aggregate, cov map[string]any) // optional extra evidence keys
}

var registry = map[string]*Check{}

func Register(c *Check)       { registry[c.ID] = c }
func Lookup(id string) *Check { return registry[id] }
func IDs() []string {
	var ids []string
	for id := range registry {
		ids = append(ids, id)
	}
	sort.Strings(ids)
	return ids
}

// ---------------------------------------------------------------------------
// Worker side

func caseSeed(seed int64, part string, idx int) int64 {
	h := fnv.New64a()
	fmt.Fprintf(h, "%d/%s/%d", seed, part, idx)
	return int64(h.Sum64() >> 1)
}

// RunCase executes one case in this process.
func RunCase(ck *Check, p *Part, tier Tier, seed int64, idx int, race bool) (res CaseResult) {
	return runCase(ck, p, tier, seed, idx, race, nil)
}

func runCase(ck *Check, p *Part, tier Tier, seed int64, idx int, race bool, prog func()) (res CaseResult) {
	res = CaseResult{Part: p.Name, Case: idx}
	c := &Ctx{Prop: ck.ID, Part: p.Name, Tier: tier, Seed: seed, Index: idx, Race: race, prog: prog,
		Rand: rand.New(rand.NewSource(caseSeed(seed, p.Name, idx))), res: &res}
	func() {
		defer func() {
			if r := recover(); r != nil {
				buf := make([]byte, 16<<10)
				buf = buf[:runtime.Stack(buf, false)]
				fr := InnermostSpineFrame(string(buf))
				if fr == "" {
					// a panic that never touched spine-go is a harness bug, make it loud
					c.Violate("harness-panic", "panic in harness code: %v\n%s", r, buf)
				} else {
					c.Violate("panic@"+fr, "panic: %v\n%s", r, buf)
				}
			}
		}()
		p.Run(c)
	}()
	return res
}

// WorkerMain runs cases [from,to) and journals to out: "S <idx>" before a case, "R <json>" after.
func WorkerMain(prop, part string, tier Tier, seed int64, from, to int, out string, race bool) int {
	ck := Lookup(prop)
	if ck == nil {
		fmt.Fprintln(os.Stderr, "unknown property", prop)
		return 3
	}
	var p *Part
	for i := range ck.Parts {
		if ck.Parts[i].Name == part {
			p = &ck.Parts[i]
		}
	}
	if p == nil {
		fmt.Fprintln(os.Stderr, "unknown part", part)
		return 3
	}
	f, err := os.OpenFile(out, os.O_CREATE|os.O_WRONLY|os.O_APPEND, 0o644)
	if err != nil {
		fmt.Fprintln(os.Stderr, err)
		return 3
	}
	defer f.Close()
	// The goroutine dump the parent takes on a hang shows how long a goroutine has been parked only if a
	// garbage collection ran after it parked (the runtime stamps waitsince during GC), and a wedged worker
	// allocates nothing: force a collection every few seconds.
	go func() {
		for {
			time.Sleep(5 * time.Second)
			runtime.GC()
		}
	}()
	var fmu sync.Mutex
	lastProg := time.Now()
	prog := func() {
		fmu.Lock()
		defer fmu.Unlock()
		if time.Since(lastProg) > time.Second {
			lastProg = time.Now()
			fmt.Fprintf(f, "P\n")
		}
	}
	for idx := from; idx < to; idx++ {
		fmu.Lock()
		fmt.Fprintf(f, "S %d\n", idx)
		fmu.Unlock()
		fmt.Fprintf(os.Stderr, "\n@@CASE %s %s %d\n", prop, part, idx)
		res := runCase(ck, p, tier, seed, idx, race, prog)
		b, err := json.Marshal(res)
		if err != nil {
			b, _ = json.Marshal(CaseResult{Part: part, Case: idx, Viol: []Violation{{Sig: "harness-marshal", Detail: err.Error()}}})
		}
		fmu.Lock()
		fmt.Fprintf(f, "R %s\n", b)
		fmu.Unlock()
	}
	fmu.Lock()
	fmt.Fprintf(f, "E\n")
	fmu.Unlock()
	return 0
}

var spineFrameRe = regexp.MustCompile(`github\.com/enbility/spine-go/(spine|model|util)\.([A-Za-z0-9_\.\(\)\*\[\]·]+)\(`)

// InnermostSpineFrame returns pkg.Func of the first (innermost) spine-go frame in a stack dump.
func InnermostSpineFrame(stack string) string {
	m := spineFrameRe.FindStringSubmatch(stack)
	if m == nil {
		return ""
	}
	fn := m[2]
	fn = strings.NewReplacer("(*", "", ")", "", "[...]", "").Replace(fn)
	// strip closure suffixes like .func1
	fn = regexp.MustCompile(`\.func\d+(\.\d+)*$`).ReplaceAllString(fn, "")
	return m[1] + "." + fn
}

// ---------------------------------------------------------------------------
// Parent side

type Aggregate struct {
	Evaluations       int
	Shapes            map[string]bool // distinct non-trivial shapes
	Counts            map[string]int64
	Sets              map[string]map[string]bool
	Samples           []any
	Viol              map[string][]witness // by signature
	Inconcl           []string
	Events            int64
	PerPart           map[string]int
	RaceReports       []RaceReport
	Hangs             int // workers that stopped making progress (violations and inconclusive ones)
	SkippedAfterHangs int
}

type witness struct {
	Part    string `json:"part"`
	Case    int    `json:"case"`
	Detail  string `json:"detail"`
	Witness any    `json:"witness,omitempty"`
}

func newAgg() *Aggregate {
	return &Aggregate{Shapes: map[string]bool{}, Counts: map[string]int64{}, Sets: map[string]map[string]bool{},
		Viol: map[string][]witness{}, PerPart: map[string]int{}}
}

func (a *Aggregate) add(r CaseResult) {
	a.Evaluations++
	a.PerPart[r.Part]++
	a.Events += r.Events
	if r.NonTriv {
		a.Shapes[r.Part+"/"+r.Shape] = true
	}
	for k, v := range r.Counts {
		a.Counts[k] += v
	}
	for k, vs := range r.Sets {
		if a.Sets[k] == nil {
			a.Sets[k] = map[string]bool{}
		}
		for _, v := range vs {
			a.Sets[k][v] = true
		}
	}
	if r.Sample != nil && len(a.Samples) < 4 && (a.PerPart[r.Part] == 1 || (len(a.Samples) < 2 && r.NonTriv)) {
		a.Samples = append(a.Samples, map[string]any{"part": r.Part, "case": r.Case, "case_sample": r.Sample})
	}
	for _, v := range r.Viol {
		if len(a.Viol[v.Sig]) < 5 {
			a.Viol[v.Sig] = append(a.Viol[v.Sig], witness{Part: r.Part, Case: r.Case, Detail: v.Detail, Witness: r.Witness})
		} else {
			a.Viol[v.Sig] = append(a.Viol[v.Sig], witness{Part: r.Part, Case: r.Case})
		}
	}
	for _, s := range r.Inconcl {
		if len(a.Inconcl) < 200 {
			a.Inconcl = append(a.Inconcl, fmt.Sprintf("%s/%d: %s", r.Part, r.Case, s))
		}
	}
}

type Options struct {
	Prop     string
	Tier     Tier
	Seed     int64
	VerifDir string // /verif
	BinPlain string
	BinRace  string
	OnlyPart string
	RepoRoot string // directory the spine-go sources are compiled from (default /repo)
}

type finding struct{ prop, sig, what string }

func loadFindings(path string) (open []finding) {
	f, err := os.Open(path)
	if err != nil {
		return nil
	}
	defer f.Close()
	sc := bufio.NewScanner(f)
	for sc.Scan() {
		line := strings.TrimSpace(sc.Text())
		if !strings.HasPrefix(line, "open:") {
			continue // "fixed:" lines and comments suppress nothing
		}
		fs := strings.Fields(strings.TrimPrefix(line, "open:"))
		var fd finding
		var rest []string
		for _, x := range fs {
			switch {
			case strings.HasPrefix(x, "property="):
				fd.prop = strings.TrimPrefix(x, "property=")
			case strings.HasPrefix(x, "signature="):
				fd.sig = strings.TrimPrefix(x, "signature=")
			default:
				rest = append(rest, x)
			}
		}
		fd.what = strings.Join(rest, " ")
		if fd.prop != "" && fd.sig != "" {
			open = append(open, fd)
		}
	}
	return open
}

// ParentMain runs all parts of a check, aggregates, writes evidence and prints the verdict lines.
func ParentMain(o Options) int {
	start := time.Now()
	ck := Lookup(o.Prop)
	if ck == nil {
		fmt.Println("unknown property", o.Prop)
		return 3
	}
	// one work directory per (property, tier, seed): a quick and a thorough run of one property may overlap
	work := filepath.Join(o.VerifDir, ".work", fmt.Sprintf("%s-%v-%d", o.Prop, o.Tier, o.Seed))
	os.RemoveAll(work)
	os.MkdirAll(work, 0o755)
	agg := newAgg()
	for i := range ck.Parts {
		p := &ck.Parts[i]
		if o.OnlyPart != "" && o.OnlyPart != p.Name {
			continue
		}
		runPart(o, ck, p, work, agg)
	}

	// verdict
	open := loadFindings(filepath.Join(o.VerifDir, "known_findings.txt"))
	var sigs []string
	for s := range agg.Viol {
		sigs = append(sigs, s)
	}
	sort.Strings(sigs)
	unknown := 0
	known := map[string]int{}
	os.MkdirAll(filepath.Join(o.VerifDir, "replay"), 0o755)
	for _, s := range sigs {
		isKnown := false
		for _, fd := range open {
			if fd.prop == o.Prop && fd.sig == s {
				isKnown = true
				known[s] = len(agg.Viol[s])
				fmt.Printf("KNOWN-FINDING: property=%s signature=%s %s (re-observed in %d cases)\n", o.Prop, s, fd.what, len(agg.Viol[s]))
			}
		}
		if isKnown {
			continue
		}
		unknown++
		w := agg.Viol[s][0]
		name := fmt.Sprintf("%s-%d-%s-%d-%s.json", o.Prop, o.Seed, w.Part, w.Case, sanitize(s))
		path := filepath.Join(o.VerifDir, "replay", name)
		rep := map[string]any{"property": o.Prop, "signature": s, "tier": o.Tier, "seed": o.Seed, "part": w.Part, "case": w.Case,
			"cases_with_this_signature": len(agg.Viol[s]), "detail": w.Detail, "witness": w.Witness}
		b, _ := json.MarshalIndent(rep, "", " ")
		os.WriteFile(path, b, 0o644)
		fmt.Printf("VIOLATION property=%s replay=%s\n", o.Prop, path)
		fmt.Printf("  signature=%s cases=%d first: %s\n", s, len(agg.Viol[s]), firstLines(w.Detail, 12))
	}
	for _, s := range agg.Inconcl {
		fmt.Println("INCONCLUSIVE:", s)
	}

	// evidence
	distinct := len(agg.Shapes)
	cov := map[string]any{
		"evaluations":                        agg.Evaluations,
		"distinct_nontrivial":                distinct,
		"rule":                               ck.Rule,
		"samples":                            agg.Samples,
		"events_observed":                    agg.Events,
		"cases_per_part":                     agg.PerPart,
		"counts":                             agg.Counts,
		"inconclusive_cases":                 len(agg.Inconcl),
		"known_findings_reobserved":          known,
		"cases_skipped_after_repeated_hangs": agg.SkippedAfterHangs,
		"violation_signatures":               sigs,
	}
	setSizes := map[string]any{}
	for k, m := range agg.Sets {
		var items []string
		for it := range m {
			items = append(items, it)
		}
		sort.Strings(items)
		e := map[string]any{"distinct": len(items)}
		if len(items) > 40 {
			e["examples"] = items[:40]
		} else {
			e["items"] = items
		}
		setSizes[k] = e
	}
	cov["distinct_observed"] = setSizes
	if len(agg.RaceReports) > 0 || anyRace(ck) {
		var rs []string
		for _, r := range agg.RaceReports {
			rs = append(rs, r.Sig)
		}
		cov["race_reports"] = len(agg.RaceReports)
		cov["race_signatures"] = uniq(rs)
	}
	if ck.Extra != nil {
		ck.Extra(agg, cov)
	}
	if len(agg.Samples) == 0 {
		cov["samples"] = []any{"no sample recorded"}
	}
	ev := map[string]any{
		"property_id": o.Prop,
		"tier":        string(o.Tier),
		"seed":        o.Seed,
		"level":       "exploration",
		"coverage":    cov,
		"assumptions": ck.Assumptions,
		"wall_s":      time.Since(start).Seconds(),
		"violations":  unknown,
	}
	os.MkdirAll(filepath.Join(o.VerifDir, "evidence"), 0o755)
	b, _ := json.MarshalIndent(ev, "", " ")
	if err := os.WriteFile(filepath.Join(o.VerifDir, "evidence", o.Prop+".json"), b, 0o644); err != nil {
		fmt.Println("cannot write evidence:", err)
		return 3
	}
	fmt.Printf("%s %s seed=%d: cases=%d distinct_nontrivial=%d events=%d violations=%d known=%d inconclusive=%d wall=%.1fs\n",
		o.Prop, o.Tier, o.Seed, agg.Evaluations, distinct, agg.Events, unknown, len(known), len(agg.Inconcl), time.Since(start).Seconds())
	if unknown > 0 {
		return 1
	}
	if distinct < ck.Floor && o.OnlyPart == "" {
		fmt.Printf("INCONCLUSIVE property=%s only %d distinct non-trivial cases were decided (floor %d): the monitor observed too little\n", o.Prop, distinct, ck.Floor)
		return 2
	}
	os.RemoveAll(work)
	return 0
}

func repoRoot(o Options) string {
	if o.RepoRoot != "" {
		return o.RepoRoot
	}
	return "/repo"
}

func anyRace(ck *Check) bool {
	for _, p := range ck.Parts {
		if p.Race {
			return true
		}
	}
	return false
}

func uniq(in []string) []string {
	m := map[string]bool{}
	for _, s := range in {
		m[s] = true
	}
	var out []string
	for s := range m {
		out = append(out, s)
	}
	sort.Strings(out)
	return out
}

func sanitize(s string) string {
	s = regexp.MustCompile(`[^A-Za-z0-9_.-]+`).ReplaceAllString(s, "_")
	if len(s) > 60 {
		s = s[:60]
	}
	return s
}

func firstLines(s string, n int) string {
	ls := strings.Split(s, "\n")
	if len(ls) > n {
		ls = ls[:n]
	}
	return strings.Join(ls, "\n    ")
}

type job struct{ from, to int }

func runPart(o Options, ck *Check, p *Part, work string, agg *Aggregate) {
	n := p.Cases(o.Tier)
	if n <= 0 {
		return
	}
	workers := p.Workers
	if workers <= 0 {
		workers = runtime.NumCPU()
	}
	procs := p.Procs
	if procs <= 0 {
		procs = 4
	}
	chunk := p.Chunk
	if chunk <= 0 {
		chunk = (n + workers*2 - 1) / (workers * 2)
		if chunk < 1 {
			chunk = 1
		}
	}
	var jobs []job
	for a := 0; a < n; a += chunk {
		b := a + chunk
		if b > n {
			b = n
		}
		jobs = append(jobs, job{a, b})
	}
	quiet := p.Quiet
	if quiet < 75*time.Second {
		// a goroutine dump shows how long a goroutine has been parked only from one minute on, and
		// that annotation is what classifyHang requires (see there)
		quiet = 75 * time.Second
	}
	bin := o.BinPlain
	if p.Race {
		bin = o.BinRace
	}
	var mu sync.Mutex
	jobc := make(chan job, len(jobs)+1024)
	var pending sync.WaitGroup
	for _, j := range jobs {
		pending.Add(1)
		jobc <- j
	}
	var wg sync.WaitGroup
	for w := 0; w < workers; w++ {
		wg.Add(1)
		go func(w int) {
			defer wg.Done()
			for j := range jobc {
				// every hang costs the quiet period; once a part has produced several, the verdict is in and
				// the remaining cases of that part are skipped (the run fails anyway)
				mu.Lock()
				tooMany := agg.Hangs >= 6
				if tooMany {
					agg.SkippedAfterHangs += j.to - j.from
				}
				mu.Unlock()
				if tooMany {
					pending.Done()
					continue
				}
				rest := runJob(o, ck, p, bin, procs, quiet, work, w, j, agg, &mu)
				if rest != nil {
					pending.Add(1)
					jobc <- *rest
				}
				pending.Done()
			}
		}(w)
	}
	pending.Wait()
	close(jobc)
	wg.Wait()
}

var jobSeq int64
var jobSeqMu sync.Mutex

// runJob runs one worker process; returns the remaining job if the worker died or hung mid-way.
func runJob(o Options, ck *Check, p *Part, bin string, procs int, quiet time.Duration, work string, w int, j job, agg *Aggregate, mu *sync.Mutex) *job {
	jobSeqMu.Lock()
	jobSeq++
	id := jobSeq
	jobSeqMu.Unlock()
	base := filepath.Join(work, fmt.Sprintf("%s-%d", p.Name, id))
	jpath, epath := base+".journal", base+".stderr"
	ef, _ := os.Create(epath)
	cmd := exec.Command(bin, "-worker", "-prop", ck.ID, "-part", p.Name, "-tier", string(o.Tier), "-seed", strconv.FormatInt(o.Seed, 10),
		"-from", strconv.Itoa(j.from), "-to", strconv.Itoa(j.to), "-out", jpath)
	cmd.Stdout = ef // the library prints to stdout (hashKey); keep it out of our verdict lines
	cmd.Stderr = ef
	cmd.Env = append(os.Environ(), fmt.Sprintf("GOMAXPROCS=%d", procs), "GOTRACEBACK=all")
	if p.Race {
		cmd.Env = append(cmd.Env, "GORACE=halt_on_error=0 history_size=5")
		cmd.Args = append(cmd.Args, "-race")
	} else {
		cmd.Env = append(cmd.Env, "GOMEMLIMIT=3GiB")
	}
	if err := cmd.Start(); err != nil {
		mu.Lock()
		agg.add(CaseResult{Part: p.Name, Case: j.from, Viol: []Violation{{Sig: "harness-start", Detail: err.Error()}}})
		mu.Unlock()
		ef.Close()
		return nil
	}
	done := make(chan error, 1)
	go func() { done <- cmd.Wait() }()
	hung := false
	lastSize, lastChange := int64(-1), time.Now()
	tick := time.NewTicker(500 * time.Millisecond)
	defer tick.Stop()
	var werr error
loop:
	for {
		select {
		case werr = <-done:
			break loop
		case <-tick.C:
			if st, err := os.Stat(jpath); err == nil && st.Size() != lastSize {
				lastSize, lastChange = st.Size(), time.Now()
			}
			if time.Since(lastChange) > quiet {
				hung = true
				cmd.Process.Signal(syscall.SIGQUIT) // goroutine dump to stderr file
				select {
				case werr = <-done:
				case <-time.After(10 * time.Second):
					cmd.Process.Kill()
					werr = <-done
				}
				break loop
			}
		}
	}
	ef.Close()
	// read journal
	started, finished := -1, map[int]bool{}
	ended := false
	if f, err := os.Open(jpath); err == nil {
		sc := bufio.NewScanner(f)
		sc.Buffer(make([]byte, 1<<20), 64<<20)
		for sc.Scan() {
			line := sc.Text()
			switch {
			case strings.HasPrefix(line, "S "):
				started, _ = strconv.Atoi(line[2:])
			case strings.HasPrefix(line, "R "):
				var r CaseResult
				if err := json.Unmarshal([]byte(line[2:]), &r); err == nil {
					finished[r.Case] = true
					mu.Lock()
					agg.add(r)
					mu.Unlock()
				}
			case line == "E":
				ended = true
			}
		}
		f.Close()
	}
	stderrText := ""
	if b, err := os.ReadFile(epath); err == nil {
		stderrText = string(b)
	}
	if p.Race {
		reps := ParseRaceReports(stderrText, repoRoot(o))
		mu.Lock()
		for _, r := range reps {
			agg.RaceReports = append(agg.RaceReports, r)
			sig := "race/" + r.Sig
			if r.Harness {
				sig = "HARNESS-RACE/" + r.Sig
			}
			agg.add(CaseResult{Part: p.Name, Case: r.Case, Viol: []Violation{{Sig: sig, Detail: r.Text}}})
			agg.Evaluations-- // a race report is not an additional case
			agg.PerPart[p.Name]--
		}
		mu.Unlock()
	}
	if ended && werr != nil && p.Race && !hung {
		// the race detector makes a process that reported races exit with status 66 although every case ended
		if ee, ok := werr.(*exec.ExitError); ok && ee.ExitCode() == 66 {
			werr = nil
		}
	}
	if ended && werr == nil {
		os.Remove(jpath)
		if !strings.Contains(stderrText, "WARNING: DATA RACE") {
			os.Remove(epath)
		}
		return nil
	}
	// the worker died or hung in case `started`
	culprit := started
	if culprit < 0 || finished[culprit] {
		// died between cases (e.g. a panic in a goroutine left over from the previous case)
		if culprit < 0 {
			culprit = j.from
		}
	}
	tail := stderrText
	if len(tail) > 24000 {
		tail = tail[len(tail)-24000:]
	}
	res := CaseResult{Part: p.Name, Case: culprit}
	if hung {
		mu.Lock()
		agg.Hangs++
		mu.Unlock()
		sig, blocked := classifyHang(stderrText)
		if blocked {
			res.Viol = []Violation{{Sig: "hang@" + sig, Detail: "no progress for " + quiet.String() + "; goroutine dump:\n" + tail}}
		} else {
			res.Inconcl = []string{"watchdog fired after " + quiet.String() + " without a goroutine blocked inside spine-go (" + sig + ")"}
		}
	} else {
		pm := regexp.MustCompile(`(?m)^(panic: .*|fatal error: .*)$`).FindString(stderrText)
		idx := strings.LastIndex(stderrText, pm)
		fr := ""
		if pm != "" && idx >= 0 {
			fr = InnermostSpineFrame(stderrText[idx:])
		}
		if pm == "" {
			res.Inconcl = []string{fmt.Sprintf("worker ended abnormally (%v) without a panic message", werr)}
		} else if fr == "" {
			res.Viol = []Violation{{Sig: "harness-crash", Detail: "worker process died outside spine-go:\n" + tail}}
		} else {
			res.Viol = []Violation{{Sig: "crash@" + fr, Detail: "worker process died: " + pm + "\n" + tail}}
		}
	}
	mu.Lock()
	if !finished[culprit] {
		agg.add(res)
	} else {
		agg.add(res)
		agg.Evaluations--
		agg.PerPart[p.Name]--
	}
	mu.Unlock()
	if culprit+1 < j.to {
		return &job{culprit + 1, j.to}
	}
	return nil
}

// classifyHang inspects a SIGQUIT goroutine dump. "Blocked" is declared conservatively: some goroutine has
// been parked for at least a minute (the runtime annotates the wait time from one minute on) on a lock,
// channel or select with a spine-go frame on its own stack, while the whole process made no progress for the
// quiet period. Single operations of the stack take micro- to milliseconds, so a minute inside its locks is a
// wedge; heartbeat streams idle in select by design and are excluded.
func classifyHang(dump string) (sig string, blocked bool) {
	idx := strings.Index(dump, "SIGQUIT")
	if idx >= 0 {
		dump = dump[idx:]
	}
	gs := strings.Split(dump, "\ngoroutine ")
	for _, g := range gs {
		head := g
		if i := strings.Index(g, "\n"); i >= 0 {
			head = g[:i]
		}
		if !strings.Contains(head, " minutes]") {
			continue
		}
		parked := strings.Contains(head, "sync.Mutex.Lock") || strings.Contains(head, "semacquire") || strings.Contains(head, "sync.RWMutex") ||
			strings.Contains(head, "chan receive") || strings.Contains(head, "chan send") || strings.Contains(head, "select") || strings.Contains(head, "sync.WaitGroup.Wait") || strings.Contains(head, "sync.Cond.Wait")
		if !parked {
			continue
		}
		body := g
		if i := strings.Index(body, "\ncreated by "); i >= 0 {
			body = body[:i]
		}
		if fr := InnermostSpineFrame(body); fr != "" {
			if strings.Contains(fr, "verifPoint") {
				continue
			}
			// a heartbeat stream idles in its select between two ticks by design; a stream that has been waiting for
			// a MUTEX (HeartbeatManager.mux) inside updateHeartbeatData for a minute is parked like any other goroutine
			if strings.Contains(fr, "updateHeartbeatData") && strings.Contains(head, "select") {
				continue
			}
			return fr, true
		}
	}
	return "no-goroutine-parked-in-spine-go-for-a-minute", false
}

// ---------------------------------------------------------------------------
// Replay: re-run one case in this process and print its result.

func ReplayMain(path string, race bool) int {
	b, err := os.ReadFile(path)
	if err != nil {
		fmt.Println(err)
		return 3
	}
	var rep struct {
		Property string `json:"property"`
		Tier     Tier   `json:"tier"`
		Seed     int64  `json:"seed"`
		Part     string `json:"part"`
		Case     int    `json:"case"`
	}
	if err := json.Unmarshal(b, &rep); err != nil {
		fmt.Println(err)
		return 3
	}
	ck := Lookup(rep.Property)
	if ck == nil {
		fmt.Println("unknown property", rep.Property)
		return 3
	}
	for i := range ck.Parts {
		p := &ck.Parts[i]
		if p.Name != rep.Part {
			continue
		}
		reps := 1
		if p.Race || strings.Contains(p.Name, "conc") {
			reps = 50
		}
		hits := 0
		var last CaseResult
		for k := 0; k < reps; k++ {
			last = RunCase(ck, p, rep.Tier, rep.Seed, rep.Case, race)
			if len(last.Viol) > 0 {
				hits++
			}
		}
		out, _ := json.MarshalIndent(last, "", " ")
		fmt.Printf("replayed %s part=%s case=%d seed=%d: violated in %d of %d runs\n%s\n", rep.Property, rep.Part, rep.Case, rep.Seed, hits, reps, out)
		if hits > 0 {
			fmt.Printf("VIOLATION property=%s replay=%s\n", rep.Property, path)
			return 1
		}
		return 0
	}
	fmt.Println("unknown part", rep.Part)
	return 3
}
