// vcheck runs one property check of /verif: as parent (spawns workers, aggregates, writes the
// evidence, prints the verdict lines), as worker (-worker) or as replayer (-replay file).
package main

import (
	"flag"
	"fmt"
	"os"
	"strconv"

	_ "verifharness/checks"
	"verifharness/rig"
)

func main() {
	var (
		worker   = flag.Bool("worker", false, "run as worker process")
		prop     = flag.String("prop", "", "property id")
		part     = flag.String("part", "", "part name (worker; parent: run only this part)")
		tier     = flag.String("tier", "quick", "quick|thorough")
		seed     = flag.Int64("seed", 1, "seed")
		from     = flag.Int("from", 0, "first case (worker)")
		to       = flag.Int("to", 0, "end case (worker)")
		out      = flag.String("out", "", "journal file (worker)")
		race     = flag.Bool("race", false, "this binary is race-instrumented")
		replay   = flag.String("replay", "", "replay file")
		verifDir = flag.String("verif", "/verif", "verif directory")
		binPlain = flag.String("bin", "", "plain worker binary")
		binRace  = flag.String("binrace", "", "race worker binary")
		list     = flag.Bool("list", false, "list registered checks")
		repo     = flag.String("repo", "/repo", "directory spine-go is compiled from")
	)
	flag.Parse()
	if *list {
		for _, id := range rig.IDs() {
			fmt.Println(id)
		}
		return
	}
	if s := os.Getenv("VERIF_SEED"); s != "" && !*worker {
		if v, err := strconv.ParseInt(s, 10, 64); err == nil {
			*seed = v
		}
	}
	if *replay != "" {
		os.Exit(rig.ReplayMain(*replay, *race))
	}
	if *worker {
		os.Exit(rig.WorkerMain(*prop, *part, rig.Tier(*tier), *seed, *from, *to, *out, *race))
	}
	os.Exit(rig.ParentMain(rig.Options{Prop: *prop, Tier: rig.Tier(*tier), Seed: *seed, VerifDir: *verifDir,
		BinPlain: *binPlain, BinRace: *binRace, OnlyPart: *part, RepoRoot: *repo}))
}
