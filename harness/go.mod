module verifharness

go 1.22.0

require (
	github.com/anishathalye/porcupine v1.3.0
	github.com/enbility/spine-go v0.0.0
)

require (
	github.com/ahmetb/go-linq/v3 v3.2.0 // indirect
	github.com/enbility/ship-go v0.0.0-20241006160314-3a4325a1a6d6 // indirect
	github.com/golanguzb70/lrucache v1.2.0 // indirect
	github.com/rickb777/date v1.21.1 // indirect
	github.com/rickb777/plural v1.4.2 // indirect
)

replace github.com/enbility/spine-go => /repo
