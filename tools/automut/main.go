// automut: enumerates small syntactic mutations of one Go source file (go/ast) and writes mutant k to stdout.
//
//	automut -file f.go -list            prints "k<TAB>operator<TAB>line<TAB>function<TAB>text" for every site
//	automut -file f.go -k 17            prints the source with mutation 17 applied
//
// Operators: negate an if condition; swap && / ||; swap == / != and nudge < <= > >=; delete a call statement; delete a
// Lock/Unlock pair of one mutex in one function (the "dropped lock" change); delete a defer; replace a return of
// true/false by its opposite; delete an assignment through a selector or index (a skipped store).
// It is a measuring device for the checks in /verif (see DESIGN.md 7.6), not part of any registered check.
package main

import (
	"bytes"
	"flag"
	"fmt"
	"go/ast"
	"go/parser"
	"go/printer"
	"go/token"
	"os"
	"strings"
)

type site struct {
	op, fn, text string
	line         int
	apply        func()
}

func exprStr(fset *token.FileSet, n ast.Node) string {
	var b bytes.Buffer
	printer.Fprint(&b, fset, n)
	s := strings.Join(strings.Fields(b.String()), " ")
	if len(s) > 90 {
		s = s[:90]
	}
	return s
}

func lockCall(s ast.Stmt) (recv, meth string, ok bool) {
	var call *ast.CallExpr
	switch x := s.(type) {
	case *ast.ExprStmt:
		call, _ = x.X.(*ast.CallExpr)
	case *ast.DeferStmt:
		call = x.Call
	}
	if call == nil {
		return
	}
	sel, is := call.Fun.(*ast.SelectorExpr)
	if !is {
		return
	}
	switch sel.Sel.Name {
	case "Lock", "Unlock", "RLock", "RUnlock":
		var b bytes.Buffer
		printer.Fprint(&b, token.NewFileSet(), sel.X)
		return b.String(), sel.Sel.Name, true
	}
	return
}

func main() {
	file := flag.String("file", "", "source file")
	list := flag.Bool("list", false, "list sites")
	k := flag.Int("k", -1, "mutation to apply")
	flag.Parse()
	fset := token.NewFileSet()
	f, err := parser.ParseFile(fset, *file, nil, parser.ParseComments)
	if err != nil {
		fmt.Fprintln(os.Stderr, err)
		os.Exit(2)
	}
	var sites []site
	add := func(op, fn string, n ast.Node, apply func()) {
		sites = append(sites, site{op: op, fn: fn, text: exprStr(fset, n), line: fset.Position(n.Pos()).Line, apply: apply})
	}
	for _, d := range f.Decls {
		fd, ok := d.(*ast.FuncDecl)
		if !ok || fd.Body == nil {
			continue
		}
		fn := fd.Name.Name
		if fd.Recv != nil && len(fd.Recv.List) > 0 {
			fn = exprStr(fset, fd.Recv.List[0].Type) + "." + fn
		}
		if strings.HasPrefix(fd.Name.Name, "Verif") || fd.Name.Name == "verifPoint" || fd.Name.Name == "String" {
			continue
		}
		// statement-list level operators
		var blocks []*[]ast.Stmt
		ast.Inspect(fd.Body, func(n ast.Node) bool {
			switch x := n.(type) {
			case *ast.BlockStmt:
				blocks = append(blocks, &x.List)
			case *ast.CaseClause:
				blocks = append(blocks, &x.Body)
			case *ast.CommClause:
				blocks = append(blocks, &x.Body)
			}
			return true
		})
		// lock pairs: all Lock/Unlock statements on one receiver expression inside this function
		locks := map[string][]ast.Stmt{}
		for _, bl := range blocks {
			for _, s := range *bl {
				if r, _, ok := lockCall(s); ok {
					locks[r] = append(locks[r], s)
				}
			}
		}
		for r, ss := range locks {
			ss := ss
			fdl := fd
			add("lockpair-del", fn, ss[0], func() {
				drop := map[ast.Stmt]bool{}
				for _, s := range ss {
					drop[s] = true
				}
				ast.Inspect(fdl.Body, func(n ast.Node) bool {
					var lp *[]ast.Stmt
					switch x := n.(type) {
					case *ast.BlockStmt:
						lp = &x.List
					case *ast.CaseClause:
						lp = &x.Body
					case *ast.CommClause:
						lp = &x.Body
					}
					if lp != nil {
						var out []ast.Stmt
						for _, s := range *lp {
							if !drop[s] {
								out = append(out, s)
							}
						}
						*lp = out
					}
					return true
				})
			})
			_ = r
		}
		for _, bl := range blocks {
			bl := bl
			for i, s := range *bl {
				i, s := i, s
				del := func() {
					out := append([]ast.Stmt{}, (*bl)[:i]...)
					*bl = append(out, (*bl)[i+1:]...)
				}
				switch x := s.(type) {
				case *ast.ExprStmt:
					if _, is := x.X.(*ast.CallExpr); is {
						if _, _, lk := lockCall(s); lk {
							continue
						}
						if strings.HasPrefix(exprStr(fset, x.X), "verifPoint") || strings.HasPrefix(exprStr(fset, x.X), "logging.") {
							continue
						}
						add("call-del", fn, s, del)
					}
				case *ast.DeferStmt:
					if _, _, lk := lockCall(s); lk {
						continue
					}
					add("defer-del", fn, s, del)
				case *ast.GoStmt:
					gx := x
					add("go-to-sync", fn, s, func() { (*bl)[i] = &ast.ExprStmt{X: gx.Call} })
				case *ast.AssignStmt:
					if x.Tok == token.ASSIGN && len(x.Lhs) == 1 {
						switch x.Lhs[0].(type) {
						case *ast.SelectorExpr, *ast.IndexExpr:
							add("store-del", fn, s, del)
						}
					}
				case *ast.ReturnStmt:
					if len(x.Results) >= 1 {
						for ri, r := range x.Results {
							if id, is := r.(*ast.Ident); is && (id.Name == "true" || id.Name == "false") {
								id, ri := id, ri
								_ = ri
								add("bool-flip", fn, s, func() {
									if id.Name == "true" {
										id.Name = "false"
									} else {
										id.Name = "true"
									}
								})
							}
						}
					}
				}
			}
		}
		// expression level operators
		ast.Inspect(fd.Body, func(n ast.Node) bool {
			switch x := n.(type) {
			case *ast.IfStmt:
				x1 := x
				add("cond-neg", fn, x.Cond, func() { x1.Cond = &ast.UnaryExpr{Op: token.NOT, X: &ast.ParenExpr{X: x1.Cond}} })
			case *ast.BinaryExpr:
				x1 := x
				sw := map[token.Token]token.Token{token.LAND: token.LOR, token.LOR: token.LAND, token.EQL: token.NEQ, token.NEQ: token.EQL,
					token.LSS: token.LEQ, token.LEQ: token.LSS, token.GTR: token.GEQ, token.GEQ: token.GTR}
				if to, ok := sw[x.Op]; ok {
					// skip comparisons with nil (mostly guards whose negation panics at once) for == / !=
					if id, is := x.Y.(*ast.Ident); is && id.Name == "nil" && (x.Op == token.EQL || x.Op == token.NEQ) {
						return true
					}
					add("binop:"+x.Op.String()+"->"+to.String(), fn, x, func() { x1.Op = to })
				}
			case *ast.BasicLit:
				if x.Kind == token.INT && (x.Value == "0" || x.Value == "1") {
					x1 := x
					add("const:"+x.Value, fn, x, func() {
						if x1.Value == "0" {
							x1.Value = "1"
						} else {
							x1.Value = "0"
						}
					})
				}
			}
			return true
		})
	}
	if *list {
		for i, s := range sites {
			fmt.Printf("%d\t%s\t%d\t%s\t%s\n", i, s.op, s.line, s.fn, s.text)
		}
		return
	}
	if *k < 0 || *k >= len(sites) {
		fmt.Fprintln(os.Stderr, "no such site")
		os.Exit(2)
	}
	sites[*k].apply()
	var out bytes.Buffer
	if err := (&printer.Config{Mode: printer.UseSpaces | printer.TabIndent, Tabwidth: 8}).Fprint(&out, fset, f); err != nil {
		fmt.Fprintln(os.Stderr, err)
		os.Exit(2)
	}
	os.Stdout.Write(out.Bytes())
}
