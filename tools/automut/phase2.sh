#!/bin/bash
# tools/automut/phase2.sh <lanes> <dir of phase 1> [max survivors, sampled evenly] : runs, for every suite-surviving
# mutant, the quick tier of the checks whose property is anchored in the mutated file (cheapest first) until one
# reports a violation. One line per mutant in <dir>/phase2.tsv: id, operator, line, function, "killed-by Cxx <signature>"
# or "NOT-KILLED (checks tried)". Uses seeded/try.sh (scratch worktree + VERIF_REPO), never /repo itself.
set -u
LANES=$1; OUT=$2; MAX=${3:-100000}
HERE=$(cd "$(dirname "$0")" && pwd); VERIF=$(cd "$HERE/../.." && pwd)
ORDER="C03 C13 C06 C01 C08 C14 C15 C09 C04 C18 C19 C07 C11 C20 C02 C05 C10 C12 C16 C17"
python3 - "$VERIF/properties.jsonl" > "$OUT/filemap.tsv" <<'PY'
import json,sys,collections,fnmatch
m=collections.defaultdict(list)
for l in open(sys.argv[1]):
    p=json.loads(l)
    for f in p['anchors'].get('files',[]): m[f].append(p['id'])
for f,v in m.items(): print(f+"\t"+" ".join(v))
PY
grep SURVIVES "$OUT/phase1.tsv" > "$OUT/surv.tsv"
N=$(wc -l < "$OUT/surv.tsv"); STEP=$(( (N + MAX - 1) / MAX )); [ $STEP -lt 1 ] && STEP=1
awk -v s=$STEP 'NR % s == 0' "$OUT/surv.tsv" > "$OUT/todo.tsv"
echo "survivors $N, running $(wc -l < "$OUT/todo.tsv")"
lane() {
  L=$1; export SM_REPO=/tmp/am2_repo$L SM_OUT=/tmp/am2_out$L
  i=0
  while IFS=$'\t' read -r id f op line fn res text; do
    i=$((i+1)); [ $(( i % LANES )) -eq $(( L % LANES )) ] || continue
    props=$(awk -F'\t' -v f="$f" '$1==f {print $2}' "$OUT/filemap.tsv")
    case "$f" in model/*_additions.go) props="$props $(awk -F'\t' '$1=="model/*_additions.go" {print $2}' "$OUT/filemap.tsv")";; esac
    todo=""; for p in $ORDER; do case " $props " in *" $p "*) todo="$todo $p";; esac; done
    d=$OUT/cand/$id; mkdir -p "$d"; cp "$OUT/surv/$id.diff" "$d/patch.diff"
    verdict="NOT-KILLED"; tried=""
    for p in $todo; do
      out2=$("$VERIF/seeded/try.sh" "$d" quick $p 2>&1)
      if echo "$out2" | grep -q PATCH-FAILED; then verdict="patch-does-not-apply"; break; fi
      line2=$(echo "$out2" | grep '^TRY' | tail -1)
      rc=$(echo "$line2" | sed -n 's/.* exit=\([0-9]*\) .*/\1/p')
      tried="$tried $p:$rc"
      if [ "$rc" = "1" ]; then
        sig=$(echo "$line2" | grep -o 'signature=[^ ]*' | head -2 | tr '\n' ' ')
        verdict="killed-by $p $sig"; break
      fi
    done
    echo -e "$id\t$f\t$op\t$line\t$fn\t$verdict\t($tried )\t$text" >> "$OUT/phase2.$L.tsv"
  done < "$OUT/todo.tsv"
  git -C /repo worktree remove --force "$SM_REPO" 2>/dev/null; rm -rf "$SM_OUT"
}
for L in $(seq 1 $LANES); do lane $L & done
wait
cat "$OUT"/phase2.*.tsv | sort > "$OUT/phase2.tsv"; rm -f "$OUT"/phase2.*.tsv
echo "not killed: $(grep -c NOT-KILLED "$OUT/phase2.tsv") of $(wc -l < "$OUT/phase2.tsv")"
