module automut

go 1.22
