#!/bin/bash
# tools/automut/phase1.sh <lanes> <outdir> <files...> : for every mutation site of the given repository files
# (paths relative to /repo), applies the mutant in a scratch worktree, and keeps it as <outdir>/surv/<id>.diff
# when the library still builds and the unedited suite still passes ("survivor"). One line per site in <outdir>/phase1.tsv.
set -u
export GOFLAGS=-mod=mod GOPROXY=off GOSUMDB=off GOTOOLCHAIN=local
LANES=$1; OUT=$2; shift 2
HERE=$(cd "$(dirname "$0")" && pwd)
mkdir -p "$OUT/surv"; BIN=$OUT/automut
(cd "$HERE" && go build -o "$BIN" .) || exit 2
: > "$OUT/sites.tsv"
for f in "$@"; do
  "$BIN" -file /repo/$f -list | grep -vP '\tcond-neg\t\d+\t[^\t]*\t!?\(?[\w.()]+ [!=]= nil\)?$' | sed "s#^#$f\t#" >> "$OUT/sites.tsv"
done
N=$(wc -l < "$OUT/sites.tsv"); echo "sites: $N"
lane() {
  L=$1; WT=/tmp/am_wt$L
  [ -d "$WT" ] || git -C /repo worktree add -q --detach "$WT" HEAD
  i=0
  while IFS=$'\t' read -r f k op line fn text; do
    i=$((i+1)); [ $(( i % LANES )) -eq $(( L % LANES )) ] || continue
    id=$(echo "$f" | tr '/' '_' | sed 's/\.go$//')_$k
    (cd "$WT" && git checkout -q -- . )
    "$BIN" -file /repo/$f -k $k > "$WT/$f.new" 2>/dev/null && mv "$WT/$f.new" "$WT/$f" || { echo -e "$id\t$op\t$line\t$fn\tgen-failed" >> "$OUT/phase1.$L.tsv"; continue; }
    # compare against the printer's rendering of the unmutated file so that the diff shows only the mutation
    res=nobuild
    if (cd "$WT" && go build ./... ) >/dev/null 2>&1; then
      if (cd "$WT" && go vet ./spine/ ./model/ ) >/dev/null 2>&1; then
        if (cd "$WT" && timeout 300 go test -vet=off -count=1 ./... ) >/dev/null 2>&1; then res=SURVIVES; else res=killed-by-suite; fi
      else res=vet; fi
    fi
    if [ $res = SURVIVES ]; then (cd "$WT" && gofmt -w "$f" && git diff > "$OUT/surv/$id.diff"); fi
    echo -e "$id\t$f\t$op\t$line\t$fn\t$res\t$text" >> "$OUT/phase1.$L.tsv"
  done < "$OUT/sites.tsv"
  (cd "$WT" && git checkout -q -- .)
  git -C /repo worktree remove --force "$WT"
}
for L in $(seq 1 $LANES); do lane $L & done
wait
cat "$OUT"/phase1.*.tsv | sort > "$OUT/phase1.tsv"; rm -f "$OUT"/phase1.*.tsv
echo "survivors: $(grep -c SURVIVES "$OUT/phase1.tsv") of $N"
